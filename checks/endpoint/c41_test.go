//go:build verif

package endpoint

import (
	"encoding/json"
	"fmt"
	"os"
	"path/filepath"
	"sort"
	"strings"
	"sync"
	"sync/atomic"
	"testing"
	"time"

	"github.com/mutagen-io/mutagen/pkg/synchronization/core"

	"verif/internal/vr"
)

// ---- C41: staging requests only what is missing and enforces limits ----
//
// One case = (root variant, pre-staged?, request list, MaximumEntryCount, op
// sequence). The ops are calls on ONE real local endpoint (no-watch mode):
//   scan        Scan(full=false)
//   stage       Stage(request) and, if a receiver comes back, delivery of the
//               complete correct data for the returned paths
//   transition  Transition(plan that creates the requested files)
//   grow        external: one unrelated file is added to the root
// The oracle is a small model that only knows what the property statement
// talks about: was there a successful scan since the last stage / transition
// call, how many entries did that scan see, which digests existed in the root
// (independent walk + SHA-1), and which (path,digest) pairs were delivered
// through a staging receiver.

type c41case struct {
	Root string   `json:"root"`          // absent | empty | other | copy | renamed
	Pre  bool     `json:"pre"`           // an earlier endpoint instance of the session staged the request and was shut down
	Req  []string `json:"req"`           // requested paths, in order (x,y have different content; z has the content of x)
	Max  uint64   `json:"max"`           // MaximumEntryCount (0 = version default = unlimited)
	Mod  string   `json:"mod,omitempty"` // what happens, right after the first successful scan, to the root file that carries a wanted digest (roots copy/renamed): "" | same-size | resized | deleted | dir
	Ops  []string `json:"ops"`
	// Stale, when set, makes this a case of the stale-plan leg (c41stale_test.go); the other fields are unused then.
	Stale *c41stale `json:"stale,omitempty"`
}

var (
	c41X = []byte("wanted content X\n")
	c41Y = []byte("wanted content Y, different\n")
	c41U = []byte("unrelated\n")
)

func c41content(path string) []byte {
	switch path {
	case "x", "z":
		return c41X
	case "y":
		return c41Y
	}
	panic("no content for " + path)
}

var c41roots = []string{"absent", "empty", "other", "copy", "renamed"}
var c41ops = []string{"scan", "stage", "transition", "grow"}

// c41setupRoot builds the root variant under dir and returns the root path.
func c41setupRoot(dir, variant string) (string, error) {
	root := filepath.Join(dir, "root")
	var err error
	switch variant {
	case "absent":
	case "empty":
		err = os.Mkdir(root, 0o755)
	case "other":
		err = writeFileAt(filepath.Join(root, "u"), c41U, 1)
	case "copy": // a copy of the wanted content X lives under another name
		if err = writeFileAt(filepath.Join(root, "u"), c41U, 1); err == nil {
			err = writeFileAt(filepath.Join(root, "c"), c41X, 2)
		}
	case "renamed": // the wanted content Y lives at the old name o/r (the plan removes it)
		if err = writeFileAt(filepath.Join(root, "u"), c41U, 1); err == nil {
			err = writeFileAt(filepath.Join(root, "o", "r"), c41Y, 2)
		}
	default:
		err = fmt.Errorf("unknown root variant %q", variant)
	}
	return root, err
}

// c41modify changes the root file that carries a wanted digest (c in "copy",
// o/r in "renamed") after it has been scanned.
func c41modify(root, variant, mod string) error {
	var path string
	var content []byte
	switch variant {
	case "copy":
		path, content = filepath.Join(root, "c"), c41X
	case "renamed":
		path, content = filepath.Join(root, "o", "r"), c41Y
	default:
		return fmt.Errorf("root variant %q has no digest-carrying file", variant)
	}
	switch mod {
	case "same-size": // rewritten in place, same length, other bytes
		m := append([]byte{}, content...)
		m[0] ^= 0x20
		return writeFileAt(path, m, 5)
	case "resized":
		return writeFileAt(path, append(append([]byte{}, content...), "more\n"...), 5)
	case "deleted":
		return os.Remove(path)
	case "dir":
		if err := os.Remove(path); err != nil {
			return err
		}
		return os.Mkdir(path, 0o755)
	}
	return fmt.Errorf("unknown modification %q", mod)
}

// c41plan is the transition plan the controller would send for the request.
func c41plan(variant string, req []string) []*core.Change {
	if variant == "absent" {
		contents := map[string]*core.Entry{}
		for _, p := range req {
			contents[p] = fileEntry(c41content(p))
		}
		return []*core.Change{{Path: "", New: dirEntry(contents)}}
	}
	var plan []*core.Change
	for _, p := range req {
		plan = append(plan, &core.Change{Path: p, New: fileEntry(c41content(p))})
	}
	if variant == "renamed" {
		plan = append(plan, &core.Change{Path: "o/r", Old: fileEntry(c41Y)})
	}
	return plan
}

func c41digests(req []string) [][]byte {
	out := make([][]byte, len(req))
	for i, p := range req {
		out[i] = sha1raw(c41content(p))
	}
	return out
}

// c41requests: every ordered list of 1..3 distinct paths from {x,y,z}.
func c41requests(maxLen int) [][]string {
	cands := []string{"x", "y", "z"}
	var out [][]string
	var rec func(cur []string)
	rec = func(cur []string) {
		if len(cur) > 0 {
			out = append(out, append([]string(nil), cur...))
		}
		if len(cur) == maxLen {
			return
		}
		for _, c := range cands {
			if !contains(cur, c) {
				rec(append(cur, c))
			}
		}
	}
	rec(nil)
	return out
}

// c41maxes: limits around the initial entry count c0 and around c0+n.
func c41maxes(c0, n uint64) []uint64 {
	set := map[uint64]bool{0: true}
	for _, v := range []int64{int64(c0) - 1, int64(c0), int64(c0+n) - 1, int64(c0 + n), int64(c0+n) + 1} {
		if v >= 1 {
			set[uint64(v)] = true
		}
	}
	var out []uint64
	for v := range set {
		out = append(out, v)
	}
	sort.Slice(out, func(i, j int) bool { return out[i] < out[j] })
	return out
}

const (
	stNo    = 0
	stMaybe = 1
	stYes   = 2
)

type c41result struct {
	viol       string
	infra      string
	nontrivial bool
	outcomes   []string
}

// c41run executes one case against a fresh real endpoint.
func c41run(e *env, src string, c c41case, logf func(string, ...any)) (res c41result) {
	dir, sid := e.caseDir()
	defer e.dropCase(dir, sid)
	root, err := c41setupRoot(dir, c.Root)
	if err != nil {
		res.infra = "root setup: " + err.Error()
		return
	}
	digests := c41digests(c.Req)
	n := uint64(len(c.Req))
	staged := map[string]int{}

	// Pre-staging through the real API: an earlier endpoint instance of the same
	// session scans, stages the request, receives all the data and is shut down
	// before any transition ("previously interrupted staging").
	if c.Pre {
		ep, err := newLocal(root, sid, noWatchConfig(0, 0))
		if err != nil {
			res.infra = "pre endpoint: " + err.Error()
			return
		}
		if _, err, _ := ep.Scan(bg, nil, false); err != nil {
			ep.Shutdown()
			res.infra = "pre scan: " + err.Error()
			return
		}
		R, sigs, recv, err := ep.Stage(append([]string(nil), c.Req...), c41digests(c.Req))
		if err != nil {
			ep.Shutdown()
			res.infra = "pre stage: " + err.Error()
			return
		}
		if recv != nil {
			script, err := captureScript(src, R, sigs)
			if err == nil {
				err = feed(recv, len(R), script)
			}
			if err != nil {
				ep.Shutdown()
				res.infra = "pre feed: " + err.Error()
				return
			}
		}
		ep.Shutdown()
		for _, p := range c.Req {
			staged[p] = stYes
		}
	}

	ep, err := newLocal(root, sid, noWatchConfig(c.Max, 0))
	if err != nil {
		res.infra = "endpoint: " + err.Error()
		return
	}
	defer ep.Shutdown()

	// Model state (only what the property statement mentions).
	var (
		freshS, freshT bool                  // successful scan since the last Stage / Transition call
		haveOk         bool                  // some scan succeeded
		cOk            uint64                // entry count seen by the last successful scan
		failedSince    bool                  // a scan attempt failed after the last successful one
		scanFiles      = map[string]string{} // path -> digest of the files present at the last successful scan
		grown          int
	)
	limit := c.Max
	over := func(cnt, add uint64) bool { return limit != 0 && cnt+add > limit }
	plan := c41plan(c.Root, c.Req)

	for i, op := range c.Ops {
		switch op {
		case "scan":
			snap, err, _ := ep.Scan(bg, nil, false)
			v := walkRoot(root)
			if err != nil {
				failedSince = true
				res.outcomes = append(res.outcomes, "scan:failed")
				logf("op %d scan: error %v (disk %s)", i, err, v)
				continue
			}
			if got := snap.Content.Count(); got != v.count {
				res.infra = fmt.Sprintf("scan count %d differs from independent walk %d (%s)", got, v.count, v)
				return
			}
			firstOk := !haveOk
			freshS, freshT, haveOk, failedSince, cOk = true, true, true, false, v.count
			scanFiles = map[string]string{}
			for q, d := range v.files {
				scanFiles[q] = d
			}
			if over(cOk, 0) {
				res.outcomes = append(res.outcomes, "scan:ok-over-limit")
			} else {
				res.outcomes = append(res.outcomes, "scan:ok")
			}
			logf("op %d scan: ok count=%d (disk %s)", i, cOk, v)
			// "Random staging requests over roots containing copies, renames ...": the
			// file the session just scanned changes before anything is staged.
			if firstOk && c.Mod != "" {
				if err := c41modify(root, c.Root, c.Mod); err != nil {
					res.infra = "modify: " + err.Error()
					return
				}
				logf("op %d scan: afterwards the digest-carrying root file is %s (disk %s)", i, c.Mod, walkRoot(root))
			}

		case "stage":
			R, sigs, recv, err := ep.Stage(append([]string(nil), c.Req...), c41digests(c.Req))
			overLimit := haveOk && over(cOk, n)
			// "staging ... without a preceding scan is refused" / "never stages ... its
			// way past its maximum entry count".
			mustRefuse := !freshS || overLimit
			mustAccept := freshS && !failedSince && !overLimit
			hadFresh := freshS
			freshS = false
			logf("op %d stage: returned %v err=%v (fresh=%v cOk=%d n=%d limit=%d failedSince=%v)", i, R, err, hadFresh, cOk, n, limit, failedSince)
			if err != nil {
				if mustAccept {
					res.viol = fmt.Sprintf("op %d: Stage refused (%v) although a successful scan preceded it and %d+%d entries fit the limit %d", i, err, cOk, n, limit)
					return
				}
				if hadFresh && overLimit {
					res.nontrivial = true
					res.outcomes = append(res.outcomes, "stage:refused-limit")
				} else {
					res.outcomes = append(res.outcomes, "stage:refused")
				}
				continue
			}
			if mustRefuse {
				why := "no successful scan since the previous Stage call"
				if hadFresh {
					why = fmt.Sprintf("last successful scan saw %d entries, %d more exceed the limit %d", cOk, n, limit)
				}
				res.viol = fmt.Sprintf("op %d: Stage accepted a request of %d paths although %s", i, n, why)
				return
			}
			res.nontrivial = true
			// "returns, in request order, a subset of the requested files"
			if !isSubsequence(R, c.Req) {
				res.viol = fmt.Sprintf("op %d: Stage returned %v which is not a subsequence of the request %v", i, R, c.Req)
				return
			}
			if len(sigs) != len(R) || (recv == nil) != (len(R) == 0) {
				res.viol = fmt.Sprintf("op %d: Stage returned %d paths, %d signatures, receiver nil=%v", i, len(R), len(sigs), recv == nil)
				return
			}
			now := walkRoot(root)
			for k, p := range c.Req {
				hexd := sha1hex(c41content(p))
				_ = digests[k]
				// stillThere: a file seen by the last successful scan with this digest is
				// unchanged on disk now (a file that only appeared after the scan is
				// something the session cannot know about).
				stillThere := false
				for q, d := range scanFiles {
					if d == hexd {
						if now.files[q] == hexd {
							stillThere = true
						}
					}
				}
				inRootNow := now.hasDigest(hexd)
				if contains(R, p) {
					// "...that still need data": content already staged, or present in the
					// root (seen by the last scan and still there), must not be requested.
					if staged[p] == stYes {
						res.viol = fmt.Sprintf("op %d: Stage requested %q although its content was already delivered to staging and no transition happened since", i, p)
						return
					}
					if stillThere {
						res.viol = fmt.Sprintf("op %d: Stage requested %q although a file with the same digest exists in the root", i, p)
						return
					}
				} else {
					// "treating content as already available only if it is already staged or
					// a file with the same digest exists in the root"
					// Presence in the root is judged at stage time (own hash of the root now).
					if staged[p] == stNo && !inRootNow {
						res.viol = fmt.Sprintf("op %d: Stage omitted %q although its content is neither staged nor present in the root", i, p)
						return
					}
				}
			}
			res.outcomes = append(res.outcomes, fmt.Sprintf("stage:accepted:%d-of-%d", len(R), len(c.Req)))
			if recv != nil {
				script, err := captureScript(src, R, sigs)
				if err == nil {
					err = feed(recv, len(R), script)
				}
				if err != nil {
					res.infra = "feed: " + err.Error()
					return
				}
			}
			for _, p := range c.Req {
				if contains(R, p) {
					staged[p] = stYes
				} else if staged[p] == stNo {
					staged[p] = stMaybe
				}
			}

		case "transition":
			before := walkRoot(root)
			results, problems, missing, err := ep.Transition(bg, plan)
			after := walkRoot(root)
			hadFresh := freshT
			freshT = false
			// Whether a transition call (accepted or not) clears the staging area is not
			// something the property fixes: afterwards "already staged" is unknown.
			for p, s := range staged {
				if s == stYes {
					staged[p] = stMaybe
				}
			}
			logf("op %d transition: results=%d problems=%v missing=%v err=%v (fresh=%v) disk %s -> %s", i, len(results), problems, missing, err, hadFresh, before, after)
			if err != nil {
				if before.String() != after.String() {
					res.viol = fmt.Sprintf("op %d: Transition returned an error (%v) but changed the root: %s -> %s", i, err, before, after)
					return
				}
				res.outcomes = append(res.outcomes, "transition:refused")
				continue
			}
			// "...transition without a preceding scan is refused"
			if !hadFresh {
				res.viol = fmt.Sprintf("op %d: Transition accepted although no successful scan happened since the previous Transition call", i)
				return
			}
			res.nontrivial = true
			if len(results) != len(plan) {
				res.viol = fmt.Sprintf("op %d: Transition returned %d results for %d changes", i, len(results), len(plan))
				return
			}
			// "A session never ... transitions its way past its maximum entry count":
			// what the session knew to exist (its last successful scan) plus what this
			// call added must not exceed the limit.
			// The plan of the "renamed" root also removes o/r. If that file is not what
			// the plan expects when the call starts (it was modified after being scanned,
			// or the fixed plan is stale against a later scan), the removal is refused by
			// the just-in-time check while the creations go ahead; whether the limit must
			// also hold against such a half-applied plan is not something the statement
			// settles, so growth is not judged then (outcome recorded).
			staleRemoval := c.Root == "renamed" && before.files["o/r"] != sha1hex(c41Y)
			if after.count > before.count && staleRemoval && over(cOk, after.count-before.count) {
				res.outcomes = append(res.outcomes, "transition:growth-not-judged-removal-refused")
			} else if after.count > before.count {
				added := after.count - before.count
				if over(cOk, added) {
					res.viol = fmt.Sprintf("op %d: Transition added %d entries to a root whose last scan saw %d, limit %d (disk %s -> %s)", i, added, cOk, limit, before, after)
					return
				}
				res.outcomes = append(res.outcomes, fmt.Sprintf("transition:added-%d", added))
			} else if len(problems) > 0 {
				res.outcomes = append(res.outcomes, "transition:problems-only")
			} else {
				res.outcomes = append(res.outcomes, "transition:no-growth")
			}

		case "grow":
			grown++
			name := fmt.Sprintf("g%d", grown)
			if err := writeFileAt(filepath.Join(root, name), []byte("grown "+name+"\n"), 10+grown); err != nil {
				res.infra = "grow: " + err.Error()
				return
			}
			res.outcomes = append(res.outcomes, "grow")
			logf("op %d grow: added %s", i, name)
		default:
			res.infra = "unknown op " + op
			return
		}
	}
	return
}

func c41sequences(depth int) [][]string {
	var out [][]string
	idx := make([]int, depth)
	for {
		seq := make([]string, depth)
		for i, k := range idx {
			seq[i] = c41ops[k]
		}
		// A final scan or grow is observed by nothing; every sequence ending in one
		// is a prefix-plus-noise of a sequence ending in stage/transition.
		if last := seq[depth-1]; last == "stage" || last == "transition" {
			out = append(out, seq)
		}
		i := depth - 1
		for ; i >= 0; i-- {
			idx[i]++
			if idx[i] < len(c41ops) {
				break
			}
			idx[i] = 0
		}
		if i < 0 {
			return out
		}
	}
}

func c41source(e *env) string {
	src := filepath.Join(e.base, "c41src")
	for _, p := range []string{"x", "y", "z"} {
		if err := writeFileAt(filepath.Join(src, p), c41content(p), 1); err != nil {
			e.t.Fatalf("INFRA: %v", err)
		}
	}
	return src
}

func TestC41(t *testing.T) {
	r := vr.New(t, "C41", "fault_enumeration")
	defer r.Finish()
	e := newEnv(t)
	src := c41source(e)

	if raw := vr.ReplayCase(); raw != nil {
		var c c41case
		if err := json.Unmarshal(raw, &c); err != nil {
			t.Fatalf("INFRA: replay case: %v", err)
		}
		if c.Stale != nil {
			res := c41staleRun(e, *c.Stale, t.Logf)
			t.Logf("replay %s: outcomes %v verdict %q infra %q", vr.J(c), res.outcomes, res.viol, res.infra)
			r.Case(vr.J(c), res.nontrivial)
			if res.infra != "" {
				t.Fatalf("INFRA: %s", res.infra)
			}
			if res.viol != "" {
				r.Violate("stale plan: Transition grew the root past MaximumEntryCount | "+c.Stale.regime(), res.viol, c, nil)
			}
			return
		}
		res := c41run(e, src, c, t.Logf)
		t.Logf("replay %s: outcomes %v verdict %q infra %q", vr.J(c), res.outcomes, res.viol, res.infra)
		r.Case(vr.J(c), res.nontrivial)
		if res.infra != "" {
			t.Fatalf("INFRA: %s", res.infra)
		}
		if res.viol != "" {
			cut := c41cut(c, res.viol)
			r.Violate(c41key(cut, res.viol), res.viol, cut, nil)
		}
		return
	}

	depth, maxReq := 4, 2
	if vr.Thorough() {
		depth, maxReq = 5, 3
	}
	reqs := c41requests(maxReq)
	seqs := c41sequences(depth)
	r.Rule(fmt.Sprintf("root variant {absent, empty, unrelated file, copy of wanted digest under another name, wanted digest at a to-be-removed old name} x (roots copy/renamed, limits unlimited and c0+n) the digest-carrying root file right after the first successful scan {unchanged, rewritten same size, resized, deleted, replaced by a directory} x pre-staged by an earlier endpoint instance {no,yes} x every ordered request of 1..%d distinct paths from {x,y,z} (z has the digest of x) x MaximumEntryCount in {c0-1, c0, c0+n-1, c0+n, c0+n+1, unlimited} (c0 = entries in the root, n = request length) x every sequence of exactly %d ops from {scan, stage(+complete delivery), transition(plan creating the request), grow(external file)} ending in stage or transition (all shorter sequences are prefixes; the oracle runs after every op); non-trivial = some Stage or Transition call got past the scan guard (accepted, or refused by the limit); distinct by the whole case", maxReq, depth))
	r.Assume("watch mode no-watch: no background scans; polling endpoints are not covered here",
		"every delivery through a staging receiver is complete and correct (corrupt deliveries are C10)",
		"apart from the enumerated modification of the digest-carrying file, external changes only ever add unrelated files; the empty request (never sent by the controller) is not enumerated",
		"where the statement is silent the oracle accepts both behaviours: whether a Transition call empties the staging area; whether a Stage after a FAILED re-scan is accepted when the older successful scan's count still fits; whether the limit must hold when a planned removal is refused (file changed after the scan) while the plan's creations are applied")

	type combo struct {
		root string
		pre  bool
		req  []string
		max  uint64
		mod  string
	}
	var combos []combo
	for _, root := range c41roots {
		// c0 from an actual build of the variant (independent walk).
		dir, _ := e.caseDir()
		rp, err := c41setupRoot(dir, root)
		if err != nil {
			t.Fatalf("INFRA: %v", err)
		}
		c0 := walkRoot(rp).count
		os.RemoveAll(dir)
		for _, pre := range []bool{false, true} {
			for _, req := range reqs {
				for _, m := range c41maxes(c0, uint64(len(req))) {
					combos = append(combos, combo{root, pre, req, m, ""})
					// The scanned copy/rename source changes before staging: with the limit out
					// of the way (unlimited) and exactly fitting (c0+n).
					if (root == "copy" || root == "renamed") && (m == 0 || m == c0+uint64(len(req))) {
						for _, mod := range []string{"same-size", "resized", "deleted", "dir"} {
							combos = append(combos, combo{root, pre, req, m, mod})
						}
					}
				}
			}
		}
	}
	r.Set("static_combinations", len(combos))
	r.Set("op_sequences", len(seqs))

	var infraMu sync.Mutex
	var infra []string
	type c41found struct {
		c    c41case
		what string
	}
	var vmu sync.Mutex
	found := map[string]c41found{}
	deadline := vr.Deadline(15*time.Minute, 50*time.Minute)
	var skipped atomic.Int64
	vr.Parallel(len(combos), func(i int) {
		if time.Now().After(deadline) {
			skipped.Add(1)
			return
		}
		l := r.Local()
		defer l.Flush()
		cb := combos[i]
		for _, seq := range seqs {
			c := c41case{Root: cb.root, Pre: cb.pre, Req: cb.req, Max: cb.max, Mod: cb.mod, Ops: seq}
			res := c41run(e, src, c, func(string, ...any) {})
			if res.infra != "" {
				infraMu.Lock()
				if len(infra) < 5 {
					infra = append(infra, vr.J(c)+": "+res.infra)
				}
				infraMu.Unlock()
				continue
			}
			key := vr.J(c)
			l.Case(key, res.nontrivial)
			for _, o := range res.outcomes {
				l.Outcome(o)
			}
			if res.viol != "" {
				l.Outcome("violation")
				// Canonical identity of a failure: what went wrong (numbers and names
				// stripped), on which root variant, after which shortest op prefix. The
				// representative case kept per identity is the smallest one, so the
				// report does not depend on worker scheduling.
				cut := c41cut(c, res.viol)
				k := c41key(cut, res.viol)
				vmu.Lock()
				if cur, ok := found[k]; !ok || vr.J(cut) < vr.J(cur.c) {
					found[k] = c41found{cut, res.viol}
				}
				vmu.Unlock()
			}
		}
	})
	var keys []string
	for k := range found {
		keys = append(keys, k)
	}
	sort.Strings(keys)
	for _, k := range keys {
		f := found[k]
		r.Violate(k, f.what, f.c, func() bool { return c41run(e, src, f.c, func(string, ...any) {}).viol != "" })
	}
	// ---- stale-plan leg ----
	stale := c41staleCases(vr.Thorough())
	staleFound := map[string]c41found{}
	r.Set("stale_plan_cases", len(stale))
	const staleChunk = 64
	vr.Parallel((len(stale)+staleChunk-1)/staleChunk, func(i int) {
		if time.Now().After(deadline) {
			skipped.Add(1)
			return
		}
		l := r.Local()
		defer l.Flush()
		for _, sc := range stale[i*staleChunk : min((i+1)*staleChunk, len(stale))] {
			sc := sc
			c := c41case{Stale: &sc}
			res := c41staleRun(e, sc, func(string, ...any) {})
			if res.infra != "" {
				infraMu.Lock()
				if len(infra) < 5 {
					infra = append(infra, vr.J(c)+": "+res.infra)
				}
				infraMu.Unlock()
				continue
			}
			l.Case(vr.J(c), res.nontrivial)
			for _, o := range res.outcomes {
				l.Outcome(o)
			}
			if res.viol != "" {
				l.Outcome("violation")
				// Canonical identity: which accounting regime let the root outgrow the
				// limit; the smallest case per regime is kept as the representative.
				k := "stale plan: Transition grew the root past MaximumEntryCount | " + sc.regime()
				vmu.Lock()
				if cur, ok := staleFound[k]; !ok || vr.J(c) < vr.J(cur.c) {
					staleFound[k] = c41found{c, res.viol}
				}
				vmu.Unlock()
			}
		}
	})
	var staleKeys []string
	for k := range staleFound {
		staleKeys = append(staleKeys, k)
	}
	sort.Strings(staleKeys)
	for _, k := range staleKeys {
		f := staleFound[k]
		r.Violate(k, f.what, f.c, func() bool { return c41staleRun(e, *f.c.Stale, func(string, ...any) {}).viol != "" })
	}
	if n := skipped.Load(); n > 0 {
		r.NotExhaustive(fmt.Sprintf("time budget reached: %d work units (static combinations / stale-plan chunks) not run", n))
	}
	if len(infra) > 0 {
		t.Fatalf("INFRA: %s", strings.Join(infra, "\n"))
	}
	r.Sample(c41case{Root: "copy", Req: []string{"x", "y"}, Max: 5, Ops: []string{"scan", "stage", "scan", "stage"}})
	r.Sample(c41case{Root: "renamed", Pre: true, Req: []string{"y", "x"}, Ops: []string{"scan", "stage", "transition", "scan"}})
	r.Sample(c41case{Root: "other", Req: []string{"x"}, Max: 2, Ops: []string{"scan", "grow", "scan", "stage"}})
	r.Sample(c41case{Root: "copy", Req: []string{"x"}, Mod: "same-size", Ops: []string{"scan", "stage", "scan", "stage"}})
}

// c41cut shortens a failing case to the prefix that ends at the failing op
// (the verdict starts with "op k:").
func c41cut(c c41case, viol string) c41case {
	var k int
	if _, err := fmt.Sscanf(viol, "op %d:", &k); err == nil && k+1 <= len(c.Ops) {
		c.Ops = append([]string(nil), c.Ops[:k+1]...)
	}
	return c
}

// c41key is the canonical identity of a failure: the verdict with numbers and
// quoted names removed, the root variant and the (already cut) op prefix.
func c41key(cut c41case, viol string) string {
	class := viol
	if i := strings.Index(class, ": "); i >= 0 {
		class = class[i+2:]
	}
	if i := strings.Index(class, " (disk "); i >= 0 {
		class = class[:i]
	}
	var b strings.Builder
	inQuote := false
	for _, r := range class {
		switch {
		case r == '"':
			inQuote = !inQuote
			if !inQuote {
				b.WriteString("<path>")
			}
		case inQuote:
		case r >= '0' && r <= '9':
			if !strings.HasSuffix(b.String(), "N") {
				b.WriteByte('N')
			}
		default:
			b.WriteRune(r)
		}
	}
	root := cut.Root
	if cut.Mod != "" {
		root += "+" + cut.Mod
	}
	return fmt.Sprintf("%s | root=%s | ops=%s", b.String(), root, strings.Join(cut.Ops, ","))
}
