//go:build verif

package endpoint

import (
	"context"
	"encoding/json"
	"fmt"
	"os"
	"path/filepath"
	"sort"
	"strings"
	"sync"
	"sync/atomic"
	"testing"
	"testing/synctest"
	"time"

	"google.golang.org/protobuf/proto"

	"github.com/mutagen-io/mutagen/pkg/synchronization"
	"github.com/mutagen-io/mutagen/pkg/synchronization/compression"
	"github.com/mutagen-io/mutagen/pkg/synchronization/core"
	"github.com/mutagen-io/mutagen/pkg/synchronization/endpoint/remote"
	"github.com/mutagen-io/mutagen/pkg/synchronization/rsync"

	"verif/internal/vr"
)

// ---- C21: remote endpoints behave exactly like local endpoints ----
//
// Differential run. Two identical roots; side L is a local endpoint used
// directly, side R is the same kind of endpoint behind remote.NewEndpoint <->
// remote.ServeEndpoint over an in-memory duplex stream. Every op of a sequence is
// applied to both sides and every return value is compared.

type c21case struct {
	Mode        string   `json:"mode,omitempty"` // "" = no-watch leg (plain goroutines) | "poll" = polling leg (synctest bubble)
	Compression string   `json:"compression"`    // none | deflate
	Max         uint64   `json:"max"`            // MaximumEntryCount (0 = unlimited)
	Ops         []string `json:"ops"`
}

var c21ops = []string{"scan", "fullscan", "edit1", "edit2", "stage", "stage-stale", "supply", "transition", "delroot", "mkroot"}

var (
	c21base = pattern(3, 20000)
	c21B    = append(append(append([]byte{}, c21base[:8192]...), []byte("[[edited by the peer]]")...), c21base[8192:]...)
	c21oldB = append(append(append([]byte{}, c21base[:100]...), []byte("(an older version)")...), c21base[100:]...)
	c21P    = []byte("peer file p\n")
	c21R    = []byte("peer file q/r\n")
	c21F1   = []byte("one\n")
	c21F2   = []byte("two\n")
)

// c21plan is the fixed plan "of a fixed peer tree": create p, replace b, create
// directory q with r inside, delete f1 (expected to hold its initial content).
func c21plan() []*core.Change {
	return []*core.Change{
		{Path: "p", New: fileEntry(c21P)},
		{Path: "b", Old: fileEntry(c21base), New: fileEntry(c21B)},
		{Path: "q", New: dirEntry(map[string]*core.Entry{"r": fileEntry(c21R)})},
		{Path: "f1", Old: fileEntry(c21F1)},
	}
}

// c21sources builds the peer tree the staged data is supplied from, and a stale
// variant of it (p has other content, q/r does not exist).
func c21sources(e *env) (good, stale string) {
	good = filepath.Join(e.base, "c21src")
	stale = filepath.Join(e.base, "c21stale")
	must := func(err error) {
		if err != nil {
			e.t.Fatalf("INFRA: %v", err)
		}
	}
	must(writeFileAt(filepath.Join(good, "p"), c21P, 1))
	must(writeFileAt(filepath.Join(good, "b"), c21B, 1))
	must(writeFileAt(filepath.Join(good, "q", "r"), c21R, 1))
	must(writeFileAt(filepath.Join(stale, "p"), []byte("peer file p, changed meanwhile\n"), 1))
	must(writeFileAt(filepath.Join(stale, "b"), c21B, 1))
	return
}

func c21initRoot(root string) error {
	if err := writeFileAt(filepath.Join(root, "f1"), c21F1, 1); err != nil {
		return err
	}
	if err := writeFileAt(filepath.Join(root, "sub", "f2"), c21F2, 2); err != nil {
		return err
	}
	return writeFileAt(filepath.Join(root, "b"), c21base, 3)
}

// c21side is one of the two endpoints with its root.
type c21side struct {
	name    string
	root    string
	session string
	ep      synchronization.Endpoint
	served  chan error // remote side: result of ServeEndpoint
}

func (s *c21side) norm(msg string) string {
	msg = strings.ReplaceAll(msg, s.root, "<ROOT>")
	msg = strings.ReplaceAll(msg, s.session, "<SESSION>")
	return strings.TrimPrefix(msg, "remote error: ")
}

func c21config(c c21case) (*synchronization.Configuration, error) {
	cfg := noWatchConfig(c.Max, 0)
	switch c.Compression {
	case "none":
		cfg.CompressionAlgorithm = compression.Algorithm_AlgorithmNone
	case "deflate":
		cfg.CompressionAlgorithm = compression.Algorithm_AlgorithmDeflate
	default:
		return nil, fmt.Errorf("unknown compression %q", c.Compression)
	}
	return cfg, nil
}

type c21result struct {
	viol       string
	infra      string
	nontrivial bool
	outcomes   []string
	executed   int
}

func errClass(err error) string {
	if err == nil {
		return "ok"
	}
	return "error"
}

// c21edit applies the same external edit to one root. k makes every edit's
// content and modification time distinct.
func c21edit(root, which string, k int) error {
	switch which {
	case "edit1": // content change of an existing file (recreated if it is gone)
		if _, err := os.Lstat(root); err != nil {
			return nil // no root: nothing to edit
		}
		return writeFileAt(filepath.Join(root, "f1"), []byte(fmt.Sprintf("one, version %d\n", k)), 100+k)
	case "edit2": // structural change: sub toggles, a new file appears
		if _, err := os.Lstat(root); err != nil {
			return nil
		}
		sub := filepath.Join(root, "sub")
		if _, err := os.Lstat(sub); err == nil {
			if err := os.RemoveAll(sub); err != nil {
				return err
			}
		} else if err := writeFileAt(filepath.Join(sub, "f2"), []byte(fmt.Sprintf("two, version %d\n", k)), 100+k); err != nil {
			return err
		}
		return writeFileAt(filepath.Join(root, fmt.Sprintf("n%d", k)), []byte(fmt.Sprintf("new file %d\n", k)), 100+k)
	case "set0", "set1", "set2": // f1 rewritten in place with one of three SAME-SIZE contents (set0 = the initial one)
		if _, err := os.Lstat(root); err != nil {
			return nil
		}
		content := map[string][]byte{"set0": c21F1, "set1": []byte("uno\n"), "set2": []byte("ein\n")}[which]
		return writeFileAt(filepath.Join(root, "f1"), content, 100+k)
	case "delroot":
		return os.RemoveAll(root)
	case "mkroot":
		if _, err := os.Lstat(root); err == nil {
			return nil
		}
		return writeFileAt(filepath.Join(root, "f1"), c21F1, 100+k)
	}
	return fmt.Errorf("unknown edit %q", which)
}

// c21world is the pair of endpoints of one execution.
type c21world struct {
	e           *env
	L, R        *c21side
	good, stale string
	plan        []*core.Change
	supplyPaths []string
	engine      *rsync.Engine
	res         *c21result
	logfn       func(string, ...any)
	dirs        []string
	barrier     bool // no-watch leg: wait for the remote server after a delivery (see step)
}

func (w *c21world) logf(f string, a ...any) {
	if w.logfn != nil {
		w.logfn(f, a...)
	}
}

func (w *c21world) fail(i int, op, format string, a ...any) {
	w.res.viol = fmt.Sprintf("op %d (%s): ", i, op) + fmt.Sprintf(format, a...)
}

func (w *c21world) supplySigs() []*rsync.Signature {
	return []*rsync.Signature{{}, {}, w.engine.BytesSignature(c21oldB, 0), {}}
}

// c21open builds the two roots and the two endpoints (remote client and server
// talk over an in-memory duplex stream).
func c21open(e *env, good, stale string, cfg *synchronization.Configuration, res *c21result, logfn func(string, ...any)) *c21world {
	w := &c21world{e: e, good: good, stale: stale, plan: c21plan(), supplyPaths: []string{"f1", "sub/f2", "b", "nonexistent"},
		engine: rsync.NewEngine(), res: res, logfn: logfn}
	dir, sidL := e.caseDir()
	dirR, sidR := e.caseDir()
	w.dirs = []string{dir, dirR}
	w.L = &c21side{name: "local", root: filepath.Join(dir, "root"), session: sidL}
	w.R = &c21side{name: "remote", root: filepath.Join(dirR, "root"), session: sidR}
	for _, s := range []*c21side{w.L, w.R} {
		if err := c21initRoot(s.root); err != nil {
			res.infra = err.Error()
			w.close()
			return nil
		}
	}
	var err error
	if w.L.ep, err = newLocal(w.L.root, w.L.session, cfg); err != nil {
		res.infra = "local endpoint: " + err.Error()
		w.close()
		return nil
	}
	clientConn, serverConn := newDuplex()
	w.R.served = make(chan error, 1)
	go func() { w.R.served <- remote.ServeEndpoint(nil, serverConn) }()
	if w.R.ep, err = remote.NewEndpoint(nil, clientConn, w.R.root, w.R.session, synchronization.Version_Version1, cfg, true); err != nil {
		<-w.R.served
		w.R.served = nil
		res.infra = "remote endpoint: " + err.Error()
		w.close()
		return nil
	}
	return w
}

func (w *c21world) close() {
	if w.L.ep != nil {
		w.L.ep.Shutdown()
	}
	if w.R.ep != nil {
		w.R.ep.Shutdown()
		<-w.R.served
	}
	w.e.dropCase(w.dirs[0], w.L.session)
	w.e.dropCase(w.dirs[1], w.R.session)
}

func c21run(e *env, good, stale string, c c21case, logfn func(string, ...any)) (res c21result) {
	cfg, err := c21config(c)
	if err != nil {
		res.infra = err.Error()
		return
	}
	w := c21open(e, good, stale, cfg, &res, logfn)
	if w == nil {
		return
	}
	defer w.close()
	w.barrier = true
	for i, op := range c.Ops {
		res.executed = i + 1
		if w.step(i, op) {
			return
		}
	}
	return
}

// step applies one op to both sides and compares; it returns true when the
// sequence must stop (violation, infrastructure problem or hard error).
func (w *c21world) step(i int, op string) bool {
	switch op {
	case "scan", "fullscan":
		full := op == "fullscan"
		sl, el, tl := w.L.ep.Scan(bg, nil, full)
		sr, er, tr := w.R.ep.Scan(bg, nil, full)
		w.logf("op %d %s: local (count=%d err=%v try=%v) remote (count=%d err=%v try=%v)", i, op, sl.GetContent().Count(), el, tl, sr.GetContent().Count(), er, tr)
		if errClass(el) != errClass(er) || tl != tr {
			w.fail(i, op, "local returned error=%v tryAgain=%v, remote error=%v tryAgain=%v", el, tl, er, tr)
			return true
		}
		if el != nil {
			w.res.outcomes = append(w.res.outcomes, fmt.Sprintf("scan:error:try=%v", tl))
			if w.L.norm(el.Error()) != w.R.norm(er.Error()) {
				w.res.outcomes = append(w.res.outcomes, "note:error-text-differs")
			}
			if !tl {
				return true // hard error: the endpoint contract forbids further calls
			}
			return false
		}
		// "returns the same snapshots ... Snapshot reconstruction is exact"
		if !proto.Equal(sl, sr) {
			w.fail(i, op, "snapshots differ: local %s remote %s", c21snap(sl), c21snap(sr))
			return true
		}
		if i > 0 {
			w.res.nontrivial = true
		}
		if sl.Content == nil {
			w.res.outcomes = append(w.res.outcomes, "scan:ok:no-root")
		} else {
			w.res.outcomes = append(w.res.outcomes, "scan:ok")
		}

	case "edit1", "edit2", "delroot", "mkroot", "set0", "set1", "set2":
		for _, s := range []*c21side{w.L, w.R} {
			if err := c21edit(s.root, op, i); err != nil {
				w.res.infra = fmt.Sprintf("%s on %s: %v", op, s.name, err)
				return true
			}
		}
		w.logf("op %d %s: disk now %s", i, op, walkRoot(w.L.root))
		w.res.outcomes = append(w.res.outcomes, "edit")

	case "stage", "stage-stale":
		source := w.good
		if op == "stage-stale" {
			source = w.stale
		}
		deps, digs := core.TransitionDependencies(w.plan)
		pl, gl, rl, el := w.L.ep.Stage(append([]string(nil), deps...), digs)
		deps2, digs2 := core.TransitionDependencies(w.plan)
		pr, gr, rr, er := w.R.ep.Stage(append([]string(nil), deps2...), digs2)
		pl, pr = append([]string(nil), pl...), append([]string(nil), pr...)
		w.logf("op %d %s: requested %v; local -> %v err=%v; remote -> %v err=%v", i, op, deps, pl, el, pr, er)
		if errClass(el) != errClass(er) {
			w.fail(i, op, "local Stage error=%v, remote Stage error=%v", el, er)
			return true
		}
		if el != nil {
			w.res.outcomes = append(w.res.outcomes, "stage:error")
			if w.L.norm(el.Error()) != w.R.norm(er.Error()) {
				w.res.outcomes = append(w.res.outcomes, "note:error-text-differs")
			}
			return true
		}
		// "the same ... staging requirements"
		if strings.Join(pl, "\x00") != strings.Join(pr, "\x00") || len(pl) != len(pr) {
			w.fail(i, op, "staging path lists differ: local %v remote %v (requested %v)", pl, pr, deps)
			return true
		}
		if len(gl) != len(gr) {
			w.fail(i, op, "signature counts differ: local %d remote %d", len(gl), len(gr))
			return true
		}
		for k := range gl {
			if !proto.Equal(gl[k], gr[k]) {
				w.fail(i, op, "signature %d (%s) differs: local %d hashes bs=%d last=%d, remote %d hashes bs=%d last=%d", k, pl[k],
					len(gl[k].GetHashes()), gl[k].GetBlockSize(), gl[k].GetLastBlockSize(), len(gr[k].GetHashes()), gr[k].GetBlockSize(), gr[k].GetLastBlockSize())
				return true
			}
		}
		if (rl == nil) != (rr == nil) {
			w.fail(i, op, "receiver nil on one side only: local nil=%v remote nil=%v", rl == nil, rr == nil)
			return true
		}
		w.res.nontrivial = true
		w.res.outcomes = append(w.res.outcomes, fmt.Sprintf("stage:ok:%d-of-%d", len(pl), len(deps)))
		if rl != nil {
			// The peer supplies the data (rsync.Transmit is what a local peer's Supply does).
			tl := rsync.Transmit(source, pl, gl, rl)
			tr := rsync.Transmit(source, pr, gr, rr)
			w.logf("op %d %s: delivery local err=%v remote err=%v", i, op, tl, tr)
			if errClass(tl) != errClass(tr) {
				w.fail(i, op, "delivery to the staging receiver: local error=%v, remote error=%v", tl, tr)
				return true
			}
			if tl != nil {
				w.res.outcomes = append(w.res.outcomes, "deliver:error")
				return true
			}
			// The remote client's side of a delivery ends when the last message is
			// flushed; the server may still be writing staged files (and reading base
			// blocks from the root). The next endpoint call would queue behind that on
			// the stream, but an external edit would not, so the harness waits for the
			// server here: a cancelled Poll is a side-effect-free round trip in no-watch
			// mode. (The polling leg waits with synctest.Wait instead.)
			if w.barrier {
				ctx, cancel := context.WithCancel(bg)
				cancel()
				bl, br := w.L.ep.Poll(ctx), w.R.ep.Poll(ctx)
				if bl != nil || br != nil {
					w.fail(i, op, "cancelled Poll after delivery: local error=%v, remote error=%v", bl, br)
					return true
				}
			}
		}

	case "supply":
		capL, capR := &captureEncoder{}, &captureEncoder{}
		el := w.L.ep.Supply(append([]string(nil), w.supplyPaths...), w.supplySigs(), rsync.NewEncodingReceiver(capL))
		er := w.R.ep.Supply(append([]string(nil), w.supplyPaths...), w.supplySigs(), rsync.NewEncodingReceiver(capR))
		w.logf("op %d supply: local %d messages err=%v; remote %d messages err=%v", i, len(capL.got), el, len(capR.got), er)
		if errClass(el) != errClass(er) {
			w.fail(i, op, "local Supply error=%v, remote Supply error=%v", el, er)
			return true
		}
		if el != nil {
			w.res.outcomes = append(w.res.outcomes, "supply:error")
			return true
		}
		if len(capL.got) != len(capR.got) {
			w.fail(i, op, "supplied %d messages locally, %d remotely", len(capL.got), len(capR.got))
			return true
		}
		nerr := 0
		for k := range capL.got {
			a, b := proto.Clone(capL.got[k]).(*rsync.Transmission), proto.Clone(capR.got[k]).(*rsync.Transmission)
			if a.Error != "" {
				nerr++
			}
			a.Error, b.Error = w.L.norm(a.Error), w.R.norm(b.Error)
			// A zero-valued operation object and no operation are the same message on the wire.
			if a.Operation != nil && len(a.Operation.Data) == 0 && a.Operation.Start == 0 && a.Operation.Count == 0 {
				a.Operation = nil
			}
			if b.Operation != nil && len(b.Operation.Data) == 0 && b.Operation.Start == 0 && b.Operation.Count == 0 {
				b.Operation = nil
			}
			if !proto.Equal(a, b) {
				w.fail(i, op, "supplied message %d differs: local %s remote %s", k, c10msg(a), c10msg(b))
				return true
			}
		}
		if capL.finalized != 1 || capR.finalized != 1 {
			w.fail(i, op, "receiver finalized %d times locally, %d times remotely", capL.finalized, capR.finalized)
			return true
		}
		w.res.nontrivial = true
		w.res.outcomes = append(w.res.outcomes, fmt.Sprintf("supply:ok:%d-unreadable", nerr))

	case "transition-empty":
		// An empty change list: nothing to report, but the call still counts as a
		// transition on the endpoint (scan guard consumed, staging area finished),
		// which only LATER calls reveal.
		resl, probl, missl, el := w.L.ep.Transition(bg, nil)
		resr, probr, missr, er := w.R.ep.Transition(bg, nil)
		w.logf("op %d transition-empty: local (%d results, %d problems, missing=%v, err=%v) remote (%d results, %d problems, missing=%v, err=%v)", i, len(resl), len(probl), missl, el, len(resr), len(probr), missr, er)
		if errClass(el) != errClass(er) {
			w.fail(i, op, "local Transition([]) error=%v, remote Transition([]) error=%v", el, er)
			return true
		}
		if el != nil {
			w.res.outcomes = append(w.res.outcomes, "transition-empty:error")
			return true
		}
		pls, prs := c21normProblems(w.L, probl), c21normProblems(w.R, probr)
		if len(resl) != len(resr) || strings.Join(pls, "\x00") != strings.Join(prs, "\x00") || missl != missr {
			w.fail(i, op, "local returned %d results, problems %v, missing=%v; remote %d results, problems %v, missing=%v", len(resl), pls, missl, len(resr), prs, missr)
			return true
		}
		w.res.outcomes = append(w.res.outcomes, "transition-empty:ok")

	case "stage-empty":
		pl, gl, rl, el := w.L.ep.Stage(nil, nil)
		pr, gr, rr, er := w.R.ep.Stage(nil, nil)
		if errClass(el) != errClass(er) {
			w.fail(i, op, "local Stage([]) error=%v, remote Stage([]) error=%v", el, er)
			return true
		}
		if el != nil {
			w.res.outcomes = append(w.res.outcomes, "stage-empty:error")
			return true
		}
		if len(pl) != len(pr) || len(gl) != len(gr) || (rl == nil) != (rr == nil) {
			w.fail(i, op, "local Stage([]) -> %v/%d signatures/receiver nil=%v, remote -> %v/%d/%v", pl, len(gl), rl == nil, pr, len(gr), rr == nil)
			return true
		}
		w.res.outcomes = append(w.res.outcomes, "stage-empty:ok")

	case "transition":
		resl, probl, missl, el := w.L.ep.Transition(bg, w.plan)
		resr, probr, missr, er := w.R.ep.Transition(bg, w.plan)
		w.logf("op %d transition: local results=%s problems=%v missing=%v err=%v", i, c21entries(resl), c10problems(probl), missl, el)
		w.logf("op %d transition: remote results=%s problems=%v missing=%v err=%v", i, c21entries(resr), c10problems(probr), missr, er)
		if errClass(el) != errClass(er) {
			w.fail(i, op, "local Transition error=%v, remote Transition error=%v", el, er)
			return true
		}
		if el != nil {
			w.res.outcomes = append(w.res.outcomes, "transition:error")
			if w.L.norm(el.Error()) != w.R.norm(er.Error()) {
				w.res.outcomes = append(w.res.outcomes, "note:error-text-differs")
			}
			return true
		}
		// "the same ... transition results, problems and missing-file indications"
		if len(resl) != len(resr) {
			w.fail(i, op, "result counts differ: local %d remote %d", len(resl), len(resr))
			return true
		}
		changed := 0
		for k := range resl {
			if !proto.Equal(resl[k], resr[k]) {
				w.fail(i, op, "result %d (%s) differs: local %s remote %s", k, w.plan[k].Path, c21entry(resl[k]), c21entry(resr[k]))
				return true
			}
			if !proto.Equal(resl[k], w.plan[k].Old) {
				changed++
			}
		}
		pls, prs := c21normProblems(w.L, probl), c21normProblems(w.R, probr)
		if strings.Join(pls, "\x00") != strings.Join(prs, "\x00") {
			w.fail(i, op, "problems differ: local %v remote %v", pls, prs)
			return true
		}
		if missl != missr {
			w.fail(i, op, "missing-files indication differs: local %v remote %v", missl, missr)
			return true
		}
		dl, dr := walkRoot(w.L.root).String(), walkRoot(w.R.root).String()
		if dl != dr {
			w.fail(i, op, "roots differ after the transition: local %s remote %s", dl, dr)
			return true
		}
		w.res.nontrivial = true
		w.res.outcomes = append(w.res.outcomes, fmt.Sprintf("transition:ok:changed=%d:missing=%v", changed, missl))

	case "poll":
		// Poll with an already-cancelled context: returns immediately on both sides
		// (no watching in this configuration) and exercises the completion request.
		ctx, cancel := context.WithCancel(bg)
		cancel()
		el := w.L.ep.Poll(ctx)
		er := w.R.ep.Poll(ctx)
		if errClass(el) != errClass(er) {
			w.fail(i, op, "local Poll error=%v, remote Poll error=%v", el, er)
			return true
		}
		if el != nil {
			w.res.outcomes = append(w.res.outcomes, "poll:error")
			return true
		}
		w.res.outcomes = append(w.res.outcomes, "poll:ok")

	default:
		w.res.infra = "unknown op " + op
		return true
	}
	return false
}

func c21normProblems(s *c21side, ps []*core.Problem) []string {
	var out []string
	for _, p := range ps {
		out = append(out, p.Path+": "+s.norm(p.Error))
	}
	sort.Strings(out)
	return out
}

func c21entry(e *core.Entry) string {
	if e == nil {
		return "nil"
	}
	b, _ := json.Marshal(c21entryJSON(e))
	return string(b)
}

func c21entryJSON(e *core.Entry) interface{} {
	if e == nil {
		return nil
	}
	m := map[string]interface{}{"kind": e.Kind.String()}
	if len(e.Digest) > 0 {
		m["digest"] = fmt.Sprintf("%x", e.Digest[:4])
	}
	if e.Executable {
		m["x"] = true
	}
	if e.Target != "" {
		m["target"] = e.Target
	}
	if e.Problem != "" {
		m["problem"] = e.Problem
	}
	if len(e.Contents) > 0 {
		c := map[string]interface{}{}
		for n, ch := range e.Contents {
			c[n] = c21entryJSON(ch)
		}
		m["contents"] = c
	}
	return m
}

func c21entries(es []*core.Entry) string {
	var parts []string
	for _, e := range es {
		parts = append(parts, c21entry(e))
	}
	return "[" + strings.Join(parts, " ") + "]"
}

func c21snap(s *core.Snapshot) string {
	if s == nil {
		return "nil"
	}
	return fmt.Sprintf("{content=%s exec=%v decomposes=%v dirs=%d files=%d links=%d size=%d}", c21entry(s.Content),
		s.PreservesExecutability, s.DecomposesUnicode, s.Directories, s.Files, s.SymbolicLinks, s.TotalFileSize)
}

// c21sequencesFrom enumerates all op sequences of the given depth whose first
// op is first (sharding unit).
func c21sequences(depth int, first string, visit func([]string)) {
	seq := make([]string, depth)
	seq[0] = first
	var rec func(pos int)
	rec = func(pos int) {
		if pos == depth {
			visit(append([]string(nil), seq...))
			return
		}
		for _, o := range c21ops {
			seq[pos] = o
			rec(pos + 1)
		}
	}
	rec(1)
}

func TestC21(t *testing.T) {
	r := vr.New(t, "C21", "exploration")
	defer r.Finish()
	e := newEnv(t)
	good, stale := c21sources(e)

	if raw := vr.ReplayCase(); raw != nil {
		var c c21case
		if err := json.Unmarshal(raw, &c); err != nil {
			t.Fatalf("INFRA: replay case: %v", err)
		}
		var res c21result
		if c.Mode == "poll" {
			res = c21brun(t, e, good, stale, c, t.Logf)
		} else {
			res = c21run(e, good, stale, c, t.Logf)
		}
		t.Logf("replay %s: outcomes %v verdict %q infra %q", vr.J(c), res.outcomes, res.viol, res.infra)
		r.Case(vr.J(c), res.nontrivial)
		if res.infra != "" {
			t.Fatalf("INFRA: %s", res.infra)
		}
		if res.viol != "" {
			r.Violate(vr.J(c), res.viol, c, nil)
		}
		return
	}

	depth := 4
	if vr.Thorough() {
		depth = 5
	}
	// Entry limits: unlimited, and 6 (the initial tree has 5 entries: edit2 and the
	// plan push it over, so scans fail with try-again and stage/transition hit the limit).
	limits := []uint64{0, 6}
	compressions := []string{"none", "deflate"}
	r.Rule(fmt.Sprintf("two mirrored roots (files f1, sub/f2 and a 3-block file b), one local endpoint used directly and one behind remote client/server over an in-memory duplex stream; compression {none, deflate} x MaximumEntryCount {unlimited, 6} (quick: limit 6 with compression none only) x every sequence of exactly %d ops from {scan, full scan, edit1 (content of f1), edit2 (sub toggles + new file), stage (dependencies of a fixed 4-change plan, data supplied from the peer tree), stage-stale (peer tree changed: one file differs, one is gone), supply (4 paths incl. a block-matched and a missing one), transition (the plan), delete root, recreate root}; each op applied to both sides and all return values compared; a sequence stops at the first hard error (endpoint contract); shorter sequences are prefixes. Snapshot-history leg (no-watch, both compressions): every sequence of exactly %d ops from {scan, f1 rewritten in place with one of three same-size contents (one of them the initial content)} - up to that many scans through one client with the serialized snapshot length unchanged. Empty-call leg (no-watch, both compressions): every sequence of exactly %d ops from {scan, stage, transition, Stage with an empty path list, Transition with an empty change list} that contains an empty call. Polling leg (one testing/synctest bubble per sequence, both endpoints force-poll 1 s + accelerated scans, compression deflate (thorough: both)): every sequence of exactly %d ops from {scan, full scan, edit1, edit2, tick (1.1 s of virtual time), stage, transition, poll (real Poll left pending, cancelled before the next endpoint call; compared: woken by an event or not)}. Non-trivial = at least one scan-after-something, stage, supply or transition returned successfully on both sides, or a Poll was woken by an event; distinct by the whole case", depth, map[bool]int{false: 6, true: 7}[vr.Thorough()], map[bool]int{false: 5, true: 6}[vr.Thorough()], map[bool]int{false: 4, true: 5}[vr.Thorough()]))
	r.Assume("native (inotify) watching is not used: the no-watch leg has no background scans, the polling leg owns time through the synctest bubble; within one quiescence step goroutine order is the Go scheduler's",
		"cancellation in the middle of Scan/Transition is not enumerated (its outcome races with the operation itself on both sides); the completion-request path is exercised by every Scan/Transition (normal completion) and by cancelled Polls in the polling leg",
		"error TEXT is compared only modulo the 'remote error: ' prefix and recorded, not demanded; error class and try-again are demanded",
		"problems are compared as sorted lists with the root path and session identifier masked",
		"zstandard is not built into this tree (needs the mutagensspl tag); none and deflate are the two supported algorithms")

	type shard struct {
		comp  string
		max   uint64
		first string
	}
	var shards []shard
	for _, comp := range compressions {
		for _, m := range limits {
			if m != 0 && comp != "none" && !vr.Thorough() {
				continue // quick tier: the tight limit is combined with one compression only
			}
			for _, f := range c21ops {
				shards = append(shards, shard{comp, m, f})
			}
		}
	}
	var mu sync.Mutex
	var infra []string
	deadline := vr.Deadline(15*time.Minute, 50*time.Minute)
	var skipped atomic.Int64
	vr.Parallel(len(shards), func(i int) {
		if time.Now().After(deadline) {
			skipped.Add(1)
			return
		}
		sh := shards[i]
		l := r.Local()
		defer l.Flush()
		c21sequences(depth, sh.first, func(seq []string) {
			c := c21case{Compression: sh.comp, Max: sh.max, Ops: seq}
			res := c21run(e, good, stale, c, nil)
			if res.infra != "" {
				mu.Lock()
				if len(infra) < 5 {
					infra = append(infra, vr.J(c)+": "+res.infra)
				}
				mu.Unlock()
				return
			}
			l.Case(vr.J(c), res.nontrivial)
			for _, o := range res.outcomes {
				l.Outcome(o)
			}
			if res.viol != "" {
				l.Outcome("violation")
				cut := c
				cut.Ops = append([]string(nil), c.Ops[:res.executed]...)
				r.Violate(vr.J(cut), res.viol, cut, func() bool { return c21run(e, good, stale, cut, nil).viol != "" })
			}
		})
	})
	if len(infra) > 0 {
		t.Fatalf("INFRA: %s", strings.Join(infra, "\n"))
	}
	// ---- snapshot-history leg: many scans through ONE client over same-size edits ----
	// The serialized snapshot keeps its length while its bytes change and change
	// back, so every way of mixing up baselines and deltas across scans shows.
	histDepth := 6
	if vr.Thorough() {
		histDepth = 7
	}
	histOps := []string{"scan", "set0", "set1", "set2"}
	var histSeqs [][]string
	{
		seq := make([]string, histDepth)
		var rec func(pos int)
		rec = func(pos int) {
			if pos == histDepth {
				histSeqs = append(histSeqs, append([]string(nil), seq...))
				return
			}
			for _, o := range histOps {
				seq[pos] = o
				rec(pos + 1)
			}
		}
		rec(0)
	}
	r.Set("history_leg_depth", histDepth)
	r.Set("history_leg_sequences", len(histSeqs))
	const histChunk = 64
	nchunks := (len(histSeqs) + histChunk - 1) / histChunk
	vr.Parallel(nchunks*len(compressions), func(i int) {
		if time.Now().After(deadline) {
			skipped.Add(1)
			return
		}
		comp := compressions[i/nchunks]
		lo := (i % nchunks) * histChunk
		hi := min(lo+histChunk, len(histSeqs))
		l := r.Local()
		defer l.Flush()
		for _, seq := range histSeqs[lo:hi] {
			c := c21case{Compression: comp, Ops: seq}
			res := c21run(e, good, stale, c, nil)
			if res.infra != "" {
				mu.Lock()
				if len(infra) < 5 {
					infra = append(infra, vr.J(c)+": "+res.infra)
				}
				mu.Unlock()
				continue
			}
			// Non-trivial here: at least three scans with an edit between them.
			scans := 0
			for _, o := range seq {
				if o == "scan" {
					scans++
				}
			}
			l.Case(vr.J(c), res.nontrivial && scans >= 3)
			for _, o := range res.outcomes {
				l.Outcome("history-leg:" + o)
			}
			if res.viol != "" {
				l.Outcome("violation")
				cut := c
				cut.Ops = append([]string(nil), c.Ops[:res.executed]...)
				r.Violate(vr.J(cut), res.viol, cut, func() bool { return c21run(e, good, stale, cut, nil).viol != "" })
			}
		}
	})
	if len(infra) > 0 {
		t.Fatalf("INFRA: %s", strings.Join(infra, "\n"))
	}
	// ---- empty-call leg: calls with empty lists have no visible result, only later effects ----
	emptyDepth := 5
	if vr.Thorough() {
		emptyDepth = 6
	}
	emptyOps := []string{"scan", "stage", "transition", "stage-empty", "transition-empty"}
	var emptySeqs [][]string
	{
		seq := make([]string, emptyDepth)
		var rec func(pos int, has bool)
		rec = func(pos int, has bool) {
			if pos == emptyDepth {
				if has { // sequences without an empty call belong to the main leg
					emptySeqs = append(emptySeqs, append([]string(nil), seq...))
				}
				return
			}
			for _, o := range emptyOps {
				seq[pos] = o
				rec(pos+1, has || strings.HasSuffix(o, "-empty"))
			}
		}
		rec(0, false)
	}
	r.Set("empty_call_leg_depth", emptyDepth)
	r.Set("empty_call_leg_sequences", len(emptySeqs))
	nchunksE := (len(emptySeqs) + histChunk - 1) / histChunk
	vr.Parallel(nchunksE*len(compressions), func(i int) {
		if time.Now().After(deadline) {
			skipped.Add(1)
			return
		}
		comp := compressions[i/nchunksE]
		lo := (i % nchunksE) * histChunk
		hi := min(lo+histChunk, len(emptySeqs))
		l := r.Local()
		defer l.Flush()
		for _, seq := range emptySeqs[lo:hi] {
			c := c21case{Compression: comp, Ops: seq}
			res := c21run(e, good, stale, c, nil)
			if res.infra != "" {
				mu.Lock()
				if len(infra) < 5 {
					infra = append(infra, vr.J(c)+": "+res.infra)
				}
				mu.Unlock()
				continue
			}
			l.Case(vr.J(c), res.nontrivial)
			for _, o := range res.outcomes {
				l.Outcome("empty-leg:" + o)
			}
			if res.viol != "" {
				l.Outcome("violation")
				cut := c
				cut.Ops = append([]string(nil), c.Ops[:res.executed]...)
				r.Violate(vr.J(cut), res.viol, cut, func() bool { return c21run(e, good, stale, cut, nil).viol != "" })
			}
		}
	})
	if len(infra) > 0 {
		t.Fatalf("INFRA: %s", strings.Join(infra, "\n"))
	}
	// ---- polling leg: one synctest bubble per sequence ----
	pollDepth := 4
	pollCompressions := []string{"deflate"}
	if vr.Thorough() {
		pollDepth = 5
		pollCompressions = []string{"none", "deflate"}
	}
	type pshard struct {
		comp          string
		first, second string
	}
	var pshards []pshard
	for _, comp := range pollCompressions {
		for _, f := range c21bops {
			for _, g := range c21bops {
				pshards = append(pshards, pshard{comp, f, g})
			}
		}
	}
	r.Set("poll_leg_depth", pollDepth)
	var pollCases atomic.Int64
	queue := make(chan pshard, len(pshards))
	for _, sh := range pshards {
		queue <- sh
	}
	close(queue)
	t.Run("poll", func(t *testing.T) {
		for wk := 0; wk < vr.Workers(); wk++ {
			t.Run(fmt.Sprintf("w%d", wk), func(t *testing.T) {
				t.Parallel()
				l := r.Local()
				defer l.Flush()
				for sh := range queue {
					if time.Now().After(deadline) {
						skipped.Add(1)
						continue
					}
					seq := make([]string, pollDepth)
					seq[0], seq[1] = sh.first, sh.second
					var rec func(pos int)
					rec = func(pos int) {
						if pos < pollDepth {
							for _, o := range c21bops {
								seq[pos] = o
								rec(pos + 1)
							}
							return
						}
						c := c21case{Mode: "poll", Compression: sh.comp, Ops: append([]string(nil), seq...)}
						res := c21brun(t, e, good, stale, c, nil)
						pollCases.Add(1)
						if res.infra != "" {
							mu.Lock()
							if len(infra) < 5 {
								infra = append(infra, vr.J(c)+": "+res.infra)
							}
							mu.Unlock()
							return
						}
						l.Case(vr.J(c), res.nontrivial)
						for _, o := range res.outcomes {
							l.Outcome("poll-leg:" + o)
						}
						if res.viol != "" {
							l.Outcome("violation")
							cut := c
							cut.Ops = append([]string(nil), c.Ops[:res.executed]...)
							r.Violate(vr.J(cut), res.viol, cut, func() bool { return c21brun(t, e, good, stale, cut, nil).viol != "" })
						}
					}
					rec(2)
				}
			})
		}
	})
	r.Set("poll_leg_cases", pollCases.Load())
	if n := skipped.Load(); n > 0 {
		r.NotExhaustive(fmt.Sprintf("time budget reached: %d of %d shards (sub-trees below a fixed first op / first two ops) not run", n, len(shards)+len(pshards)))
	}
	if len(infra) > 0 {
		t.Fatalf("INFRA: %s", strings.Join(infra, "\n"))
	}
	r.Sample(c21case{Compression: "deflate", Ops: []string{"scan", "stage", "transition", "scan"}})
	r.Sample(c21case{Compression: "none", Max: 6, Ops: []string{"scan", "edit2", "scan", "stage-stale"}})
	r.Sample(c21case{Compression: "deflate", Ops: []string{"scan", "set1", "scan", "set0", "scan", "set2"}})
	r.Sample(c21case{Compression: "none", Ops: []string{"scan", "stage", "transition-empty", "scan", "stage"}})
	r.Sample(c21case{Mode: "poll", Compression: "deflate", Ops: []string{"scan", "edit1", "scan", "fullscan"}})
	r.Sample(c21case{Mode: "poll", Compression: "deflate", Ops: []string{"poll", "edit2", "tick", "scan"}})
}

// ---- C21, polling leg (testing/synctest bubble, virtual time) ----
//
// Same differential comparison, but both endpoints watch by polling (force-poll,
// 1 s interval) with accelerated scans, so that Scan(full=false) answers from
// the poller's last snapshot while Scan(full=true) looks at the disk, and Poll
// really waits for an event. Virtual time advances only through the "tick" op
// (1.1 s: one poll of both endpoints plus the 20 ms signal coalescing window);
// every op is followed by synctest.Wait(), so both sides are compared at
// quiescence and nothing depends on the wall clock.

var c21bops = []string{"scan", "fullscan", "edit1", "edit2", "tick", "stage", "transition", "poll"}

// c21poll is one outstanding Poll call on one side.
type c21poll struct {
	done   chan error
	cancel context.CancelFunc
}

func (p *c21poll) returned() (bool, error) {
	select {
	case err := <-p.done:
		p.done <- err // keep it readable
		return true, err
	default:
		return false, nil
	}
}

func c21brun(t *testing.T, e *env, good, stale string, c c21case, logfn func(string, ...any)) (res c21result) {
	cfg, err := c21config(c)
	if err != nil {
		res.infra = err.Error()
		return
	}
	cfg.WatchMode = synchronization.WatchMode_WatchModeForcePoll
	cfg.WatchPollingInterval = 1
	synctest.Test(t, func(t *testing.T) {
		w := c21open(e, good, stale, cfg, &res, logfn)
		if w == nil {
			return
		}
		defer w.close()
		synctest.Wait() // both pollers have taken their baseline scan
		var pl, pr *c21poll
		// comparePolls checks that the two outstanding Poll calls are in the same
		// state (both returned, with the same error class, or both still waiting).
		comparePolls := func(i int, op string) bool {
			if pl == nil {
				return false
			}
			dl, el := pl.returned()
			dr, er := pr.returned()
			if dl != dr || errClass(el) != errClass(er) {
				w.fail(i, op, "Poll: local returned=%v err=%v, remote returned=%v err=%v", dl, el, dr, er)
				return true
			}
			return false
		}
		// settlePolls cancels outstanding Poll calls (what the controller does before
		// it uses the endpoint again) and compares how they ended.
		settlePolls := func(i int, op string) bool {
			if pl == nil {
				return false
			}
			if comparePolls(i, op) {
				return true
			}
			woke, _ := pl.returned()
			pl.cancel()
			pr.cancel()
			synctest.Wait()
			dl, el := pl.returned()
			dr, er := pr.returned()
			pl, pr = nil, nil
			if !dl || !dr || errClass(el) != errClass(er) {
				w.fail(i, op, "Poll after cancellation: local returned=%v err=%v, remote returned=%v err=%v", dl, el, dr, er)
				return true
			}
			if el != nil {
				res.outcomes = append(res.outcomes, "poll:error")
				return true
			}
			if woke {
				res.outcomes = append(res.outcomes, "poll:woken-by-event")
				res.nontrivial = true
			} else {
				res.outcomes = append(res.outcomes, "poll:cancelled")
			}
			return false
		}
		defer func() {
			if pl != nil {
				pl.cancel()
				pr.cancel()
				synctest.Wait()
			}
		}()
		for i, op := range c.Ops {
			res.executed = i + 1
			switch op {
			case "tick":
				time.Sleep(1100 * time.Millisecond)
				synctest.Wait()
				res.outcomes = append(res.outcomes, "tick")
				if comparePolls(i, op) {
					return
				}
			case "poll":
				if settlePolls(i, op) {
					return
				}
				start := func(s *c21side) *c21poll {
					ctx, cancel := context.WithCancel(bg)
					p := &c21poll{done: make(chan error, 1), cancel: cancel}
					go func() { p.done <- s.ep.Poll(ctx) }()
					return p
				}
				pl, pr = start(w.L), start(w.R)
				synctest.Wait()
				if comparePolls(i, op) {
					return
				}
			case "edit1", "edit2":
				if w.step(i, op) {
					return
				}
				synctest.Wait()
				if comparePolls(i, op) {
					return
				}
			default:
				if settlePolls(i, op) {
					return
				}
				if w.step(i, op) {
					return
				}
				synctest.Wait()
			}
		}
		settlePolls(len(c.Ops), "end")
	})
	return
}
