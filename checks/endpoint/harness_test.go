//go:build verif

// Package endpoint holds the bounded-exhaustive checks that drive the REAL
// local synchronization endpoint (pkg/synchronization/endpoint/local) and the
// remote client/server pair (pkg/synchronization/endpoint/remote) on real
// temporary roots: C41 (staging filter + limits), C10 (staged content reaches
// the root only with the planned digest), C21 (remote == local).
package endpoint

import (
	"bytes"
	"context"
	"crypto/sha1"
	"encoding/hex"
	"errors"
	"fmt"
	"io"
	"io/fs"
	"os"
	"path/filepath"
	"sort"
	"strings"
	"sync"
	"sync/atomic"
	"testing"
	"time"

	"google.golang.org/protobuf/proto"

	"github.com/mutagen-io/mutagen/pkg/filesystem"
	"github.com/mutagen-io/mutagen/pkg/synchronization"
	"github.com/mutagen-io/mutagen/pkg/synchronization/core"
	"github.com/mutagen-io/mutagen/pkg/synchronization/endpoint/local"
	"github.com/mutagen-io/mutagen/pkg/synchronization/rsync"
)

// env is the per-test scratch environment: one Mutagen data directory (the
// MUTAGEN_DATA_DIRECTORY variable is process-global, so all endpoints of the
// test share it and are kept apart by unique session identifiers) and one base
// directory under which every case creates its own roots.
type env struct {
	t    *testing.T
	base string
	data string
	seq  atomic.Int64
}

func newEnv(t *testing.T) *env {
	// Scratch space: a memory-backed directory when the machine has one (the cases
	// are dominated by mkdir/rename/unlink, which a journalling disk serialises),
	// otherwise the ordinary test temp dir. Removed when the test ends; every
	// case also removes its own files as soon as it is done.
	base := ""
	if os.Getenv("VERIF_ENDPOINT_DISK") == "" {
		if d, err := os.MkdirTemp("/dev/shm", "verif-endpoint-"); err == nil {
			base = d
			t.Cleanup(func() { os.RemoveAll(d) })
		}
	}
	if base == "" {
		base = t.TempDir()
	}
	data := filepath.Join(base, "data")
	if err := os.MkdirAll(data, 0o700); err != nil {
		t.Fatalf("INFRA: %v", err)
	}
	t.Setenv("MUTAGEN_DATA_DIRECTORY", data)
	return &env{t: t, base: base, data: data}
}

// caseDir creates a fresh directory for one case and returns it together with
// a session identifier that is unique within the process (fixed width so that
// mirrored runs produce messages of equal shape).
func (e *env) caseDir() (dir, session string) {
	n := e.seq.Add(1)
	session = fmt.Sprintf("vsess%010d", n)
	dir = filepath.Join(e.base, fmt.Sprintf("c%010d", n))
	if err := os.MkdirAll(dir, 0o700); err != nil {
		e.t.Fatalf("INFRA: %v", err)
	}
	return dir, session
}

// dropCase removes the case directory and the per-session files the endpoint
// left in the data directory (cache, staging root).
func (e *env) dropCase(dir string, sessions ...string) {
	os.RemoveAll(dir)
	for _, s := range sessions {
		os.Remove(filepath.Join(e.data, filesystem.MutagenSynchronizationCachesDirectoryName, s+"_alpha"))
		os.RemoveAll(filepath.Join(e.data, filesystem.MutagenSynchronizationStagingDirectoryName, s+"-alpha"))
	}
}

// stagingRoot is where a session's staged files live (stage mode "mutagen").
func (e *env) stagingRoot(session string) string {
	return filepath.Join(e.data, filesystem.MutagenSynchronizationStagingDirectoryName, session+"-alpha")
}

// noWatchConfig is the endpoint configuration used by C41/C10: no watching (so
// no background scans), everything else the version defaults (SHA-1 digests,
// staging in the data directory, portable permissions).
func noWatchConfig(maxEntries, maxStagingFileSize uint64) *synchronization.Configuration {
	return &synchronization.Configuration{
		WatchMode:              synchronization.WatchMode_WatchModeNoWatch,
		MaximumEntryCount:      maxEntries,
		MaximumStagingFileSize: maxStagingFileSize,
	}
}

func newLocal(root, session string, cfg *synchronization.Configuration) (synchronization.Endpoint, error) {
	return local.NewEndpoint(nil, root, session, synchronization.Version_Version1, cfg, true)
}

// ---- independent view of a root (the oracle's eyes) ----

func sha1hex(b []byte) string { s := sha1.Sum(b); return hex.EncodeToString(s[:]) }
func sha1raw(b []byte) []byte { s := sha1.Sum(b); return s[:] }

// diskView is what an independent walk of the root sees: the number of entries
// (root directory included, the way a session counts them), and for every
// regular file its SHA-1 computed here (not by mutagen).
type diskView struct {
	exists bool
	count  uint64
	files  map[string]string // root-relative slash path -> sha1 hex
	dirs   map[string]bool
	other  map[string]string // symlinks etc: path -> description
}

func (v *diskView) hasDigest(hexd string) bool {
	for _, d := range v.files {
		if d == hexd {
			return true
		}
	}
	return false
}

func (v *diskView) String() string {
	var parts []string
	for p, d := range v.files {
		parts = append(parts, p+"="+d[:8])
	}
	for p := range v.dirs {
		parts = append(parts, p+"/")
	}
	for p, d := range v.other {
		parts = append(parts, p+"@"+d)
	}
	sort.Strings(parts)
	return fmt.Sprintf("exists=%v count=%d [%s]", v.exists, v.count, strings.Join(parts, " "))
}

func walkRoot(root string) *diskView {
	v := &diskView{files: map[string]string{}, dirs: map[string]bool{}, other: map[string]string{}}
	info, err := os.Lstat(root)
	if err != nil {
		return v
	}
	v.exists = true
	if !info.IsDir() {
		v.count = 1
		if info.Mode().IsRegular() {
			data, _ := os.ReadFile(root)
			v.files[""] = sha1hex(data)
		} else {
			v.other[""] = info.Mode().Type().String()
		}
		return v
	}
	filepath.WalkDir(root, func(p string, d fs.DirEntry, err error) error {
		if err != nil {
			return nil
		}
		rel, _ := filepath.Rel(root, p)
		rel = filepath.ToSlash(rel)
		if rel == "." {
			v.count++
			return nil
		}
		if strings.HasPrefix(d.Name(), filesystem.TemporaryNamePrefix) {
			// The property texts (and the scanner) ignore mutagen's temporaries.
			if d.IsDir() {
				return filepath.SkipDir
			}
			return nil
		}
		v.count++
		switch {
		case d.IsDir():
			v.dirs[rel] = true
		case d.Type().IsRegular():
			data, _ := os.ReadFile(p)
			v.files[rel] = sha1hex(data)
		default:
			t, _ := os.Readlink(p)
			v.other[rel] = d.Type().String() + ":" + t
		}
		return nil
	})
	return v
}

// ---- writing fixtures with controlled modification times ----

// mtimeBase is a fixed instant far enough in the past that "now" never collides
// with it; every fixture write gets mtimeBase + tick seconds with a tick that
// the harness increases, so that a content change always changes the mtime (the
// scanner's digest cache keys on it) independent of the real clock.
var mtimeBase = time.Date(2020, 1, 1, 0, 0, 0, 0, time.UTC)

func writeFileAt(path string, content []byte, tick int) error {
	if err := os.MkdirAll(filepath.Dir(path), 0o755); err != nil {
		return err
	}
	if err := os.WriteFile(path, content, 0o644); err != nil {
		return err
	}
	mt := mtimeBase.Add(time.Duration(tick) * time.Second)
	return os.Chtimes(path, mt, mt)
}

// ---- plans ----

func fileEntry(content []byte) *core.Entry {
	return &core.Entry{Kind: core.EntryKind_File, Digest: sha1raw(content)}
}

func dirEntry(contents map[string]*core.Entry) *core.Entry {
	return &core.Entry{Kind: core.EntryKind_Directory, Contents: contents}
}

// ---- rsync plumbing: capturing a transmission script and replaying one ----

// captureEncoder is the Encoder behind rsync.NewEncodingReceiver: it records
// deep copies of every Transmission.
type captureEncoder struct {
	got       []*rsync.Transmission
	finalized int
}

func (c *captureEncoder) Encode(tr *rsync.Transmission) error {
	c.got = append(c.got, proto.Clone(tr).(*rsync.Transmission))
	return nil
}
func (c *captureEncoder) Finalize() error { c.finalized++; return nil }

// captureScript runs the real rsync.Transmit over sourceRoot and returns the
// messages it would have sent for (paths, signatures).
func captureScript(sourceRoot string, paths []string, sigs []*rsync.Signature) ([]*rsync.Transmission, error) {
	enc := &captureEncoder{}
	err := rsync.Transmit(sourceRoot, paths, sigs, rsync.NewEncodingReceiver(enc))
	return enc.got, err
}

var errScriptFault = errors.New("injected decode failure")
var errScriptEnd = errors.New("script exhausted (connection cut)")

// scriptDecoder is the Decoder behind rsync.DecodeToReceiver: it plays a fixed
// list of messages; a nil element means "fail here"; running off the end is a
// cut connection.
type scriptDecoder struct {
	script    []*rsync.Transmission
	pos       int
	finalized int
}

func (d *scriptDecoder) Decode(into *rsync.Transmission) error {
	if d.pos >= len(d.script) {
		return errScriptEnd
	}
	m := d.script[d.pos]
	d.pos++
	if m == nil {
		return errScriptFault
	}
	proto.Reset(into)
	proto.Merge(into, m)
	return nil
}
func (d *scriptDecoder) Finalize() error { d.finalized++; return nil }

// feed delivers a script to a staging receiver exactly the way the remote
// server does (rsync.DecodeToReceiver, which also finalizes the receiver).
func feed(receiver rsync.Receiver, count int, script []*rsync.Transmission) error {
	return rsync.DecodeToReceiver(&scriptDecoder{script: script}, uint64(count), receiver)
}

func cloneScript(s []*rsync.Transmission) []*rsync.Transmission {
	out := make([]*rsync.Transmission, len(s))
	for i, m := range s {
		if m != nil {
			out[i] = proto.Clone(m).(*rsync.Transmission)
		}
	}
	return out
}

// ---- small helpers ----

var bg = context.Background()

func isSubsequence(sub, full []string) bool {
	i := 0
	for _, f := range full {
		if i < len(sub) && sub[i] == f {
			i++
		}
	}
	return i == len(sub)
}

func contains(list []string, s string) bool {
	for _, x := range list {
		if x == s {
			return true
		}
	}
	return false
}

func errString(err error) string {
	if err == nil {
		return ""
	}
	return err.Error()
}

// pattern returns n bytes of a deterministic, non-repeating-looking pattern
// derived from seed (a tiny LCG; not random: the same seed gives the same bytes).
func pattern(seed uint32, n int) []byte {
	out := make([]byte, n)
	x := seed*2654435761 + 12345
	for i := range out {
		x = x*1664525 + 1013904223
		out[i] = byte(x >> 24)
	}
	return out
}

var _ = bytes.Equal

// ---- in-memory duplex stream with unbounded buffering ----
//
// net.Pipe is fully synchronous: a Write blocks until the peer reads. Real
// agent transports (OS pipes, sockets) buffer, and the remote client/server
// rely on that when both sides flush a few trailing bytes while closing. The
// harness stream therefore never blocks a Write; Reads block until data arrives
// or either end is closed (closing unblocks both directions, as the endpoint
// constructors require).

type halfPipe struct {
	mu     sync.Mutex
	buf    []byte
	closed bool
	notify chan struct{}
}

func newHalfPipe() *halfPipe { return &halfPipe{notify: make(chan struct{}, 1)} }

func (h *halfPipe) write(p []byte) (int, error) {
	h.mu.Lock()
	if h.closed {
		h.mu.Unlock()
		return 0, io.ErrClosedPipe
	}
	h.buf = append(h.buf, p...)
	h.mu.Unlock()
	select {
	case h.notify <- struct{}{}:
	default:
	}
	return len(p), nil
}

func (h *halfPipe) read(p []byte) (int, error) {
	for {
		h.mu.Lock()
		if len(h.buf) > 0 {
			n := copy(p, h.buf)
			h.buf = h.buf[n:]
			h.mu.Unlock()
			return n, nil
		}
		if h.closed {
			h.mu.Unlock()
			return 0, io.EOF
		}
		h.mu.Unlock()
		<-h.notify
	}
}

func (h *halfPipe) close() {
	h.mu.Lock()
	h.closed = true
	h.mu.Unlock()
	select {
	case h.notify <- struct{}{}:
	default:
	}
}

type duplexEnd struct {
	in, out *halfPipe
}

func (d *duplexEnd) Read(p []byte) (int, error)  { return d.in.read(p) }
func (d *duplexEnd) Write(p []byte) (int, error) { return d.out.write(p) }
func (d *duplexEnd) Close() error {
	d.in.close()
	d.out.close()
	return nil
}

// newDuplex returns the two ends of an in-memory stream.
func newDuplex() (a, b *duplexEnd) {
	x, y := newHalfPipe(), newHalfPipe()
	return &duplexEnd{in: x, out: y}, &duplexEnd{in: y, out: x}
}
