//go:build verif

package endpoint

import (
	"encoding/json"
	"fmt"
	"os"
	"path/filepath"
	"sort"
	"strings"
	"sync"
	"sync/atomic"
	"testing"
	"time"

	"google.golang.org/protobuf/proto"

	"github.com/mutagen-io/mutagen/pkg/filesystem"
	"github.com/mutagen-io/mutagen/pkg/synchronization/core"

	"verif/internal/vr"
)

// ---- C09, endpoint leg: what (*endpoint).Transition reports is what is on disk ----
//
// The C09 check of the ondisk area drives core.Transition directly with
// injected syscall faults. This leg drives the real LOCAL ENDPOINT, whose
// Transition can also refuse a plan (entry limit) or apply it partially (staged
// files missing or cut short), through call histories with limits around the
// count. After EVERY Transition call that returns a nil error each returned
// result is compared, deep, with an independent walk of the disk at that path,
// and with a fresh Scan of the same endpoint.

type c09case struct {
	Root string   `json:"root"` // absent | empty | other
	Plan string   `json:"plan"`
	Max  uint64   `json:"max"`
	Ops  []string `json:"ops"` // scan | stage | stagecut | transition | grow
}

var (
	c09U  = []byte("existing file u\n")
	c09U2 = []byte("existing file u, new version from the peer\n")
	c09A  = []byte("peer file a\n")
	c09B  = []byte("peer file b, a bit longer\n")
	c09X  = []byte("peer file x\n")
)

// c09plan returns the fixed plan for a name; the created contents live in the
// peer tree built by c09source.
func c09plan(name string) []*core.Change {
	dirAB := dirEntry(map[string]*core.Entry{"a": fileEntry(c09A), "b": fileEntry(c09B)})
	switch name {
	case "file": // one new file
		return []*core.Change{{Path: "x", New: fileEntry(c09X)}}
	case "dir2": // a new directory holding two files: 2 paths to stage, 3 entries
		return []*core.Change{{Path: "d", New: dirAB}}
	case "dir2+file":
		return []*core.Change{{Path: "d", New: dirAB}, {Path: "x", New: fileEntry(c09X)}}
	case "nested": // directory in directory: 1 path to stage, 3 entries
		return []*core.Change{{Path: "d", New: dirEntry(map[string]*core.Entry{"e": dirEntry(map[string]*core.Entry{"a": fileEntry(c09A)})})}}
	case "replace+dir2": // needs root "other": u replaced, plus the directory
		return []*core.Change{{Path: "u", Old: fileEntry(c09U), New: fileEntry(c09U2)}, {Path: "d", New: dirAB}}
	case "remove+file": // needs root "other": u removed, x created (net zero)
		return []*core.Change{{Path: "u", Old: fileEntry(c09U)}, {Path: "x", New: fileEntry(c09X)}}
	case "root": // needs root "absent": the root itself is created with two files and a directory
		return []*core.Change{{Path: "", New: dirEntry(map[string]*core.Entry{"x": fileEntry(c09X), "d": dirEntry(map[string]*core.Entry{"a": fileEntry(c09A)})})}}
	}
	panic("unknown plan " + name)
}

func c09plansFor(root string) []string {
	switch root {
	case "absent":
		return []string{"root"}
	case "empty":
		return []string{"file", "dir2", "dir2+file", "nested"}
	case "other":
		return []string{"file", "dir2", "dir2+file", "nested", "replace+dir2", "remove+file"}
	}
	return nil
}

func c09source(e *env) string {
	src := filepath.Join(e.base, "c09src")
	for p, content := range map[string][]byte{"x": c09X, "d/a": c09A, "d/b": c09B, "d/e/a": c09A, "u": c09U2} {
		if err := writeFileAt(filepath.Join(src, filepath.FromSlash(p)), content, 1); err != nil {
			e.t.Fatalf("INFRA: %v", err)
		}
	}
	return src
}

// diskEntry builds, from nothing but lstat/readdir/readlink and an own SHA-1,
// the entry that describes what is on disk at root/path (nil if nothing).
func diskEntry(full string) *core.Entry {
	info, err := os.Lstat(full)
	if err != nil {
		return nil
	}
	switch {
	case info.Mode().IsRegular():
		data, _ := os.ReadFile(full)
		return &core.Entry{Kind: core.EntryKind_File, Digest: sha1raw(data), Executable: info.Mode().Perm()&0o111 != 0}
	case info.IsDir():
		e := &core.Entry{Kind: core.EntryKind_Directory}
		names, _ := os.ReadDir(full)
		for _, n := range names {
			if strings.HasPrefix(n.Name(), filesystem.TemporaryNamePrefix) {
				continue
			}
			if e.Contents == nil {
				e.Contents = map[string]*core.Entry{}
			}
			e.Contents[n.Name()] = diskEntry(filepath.Join(full, n.Name()))
		}
		return e
	case info.Mode()&os.ModeSymlink != 0:
		t, _ := os.Readlink(full)
		return &core.Entry{Kind: core.EntryKind_SymbolicLink, Target: t}
	}
	return &core.Entry{Kind: core.EntryKind_Untracked}
}

// entryAt walks an entry tree down a slash path.
func entryAt(e *core.Entry, path string) *core.Entry {
	if path == "" {
		return e
	}
	for _, name := range strings.Split(path, "/") {
		if e == nil {
			return nil
		}
		e = e.Contents[name]
	}
	return e
}

type c09result struct {
	viol       string
	infra      string
	nontrivial bool
	outcomes   []string
}

func c09run(e *env, src string, c c09case, logfn func(string, ...any)) (res c09result) {
	logf := func(f string, a ...any) {
		if logfn != nil {
			logfn(f, a...)
		}
	}
	dir, sid := e.caseDir()
	defer e.dropCase(dir, sid)
	root := filepath.Join(dir, "root")
	var err error
	switch c.Root {
	case "absent":
	case "empty":
		err = os.Mkdir(root, 0o755)
	case "other":
		err = writeFileAt(filepath.Join(root, "u"), c09U, 1)
	default:
		err = fmt.Errorf("unknown root %q", c.Root)
	}
	if err != nil {
		res.infra = err.Error()
		return
	}
	ep, err := newLocal(root, sid, noWatchConfig(c.Max, 0))
	if err != nil {
		res.infra = "endpoint: " + err.Error()
		return
	}
	defer ep.Shutdown()
	plan := c09plan(c.Plan)
	grown := 0
	for i, op := range c.Ops {
		switch op {
		case "scan":
			_, err, _ := ep.Scan(bg, nil, false)
			logf("op %d scan: err=%v disk %s", i, err, walkRoot(root))
		case "grow":
			grown++
			if err := writeFileAt(filepath.Join(root, fmt.Sprintf("g%d", grown)), []byte(fmt.Sprintf("grown %d\n", grown)), 10+grown); err != nil {
				res.infra = err.Error()
				return
			}
		case "stage", "stagecut":
			deps, digs := core.TransitionDependencies(plan)
			// Directory contents are a map: keep the request order fixed.
			sortDeps(deps, digs)
			R, sigs, recv, err := ep.Stage(append([]string(nil), deps...), digs)
			logf("op %d %s: asked %v, required %v, err=%v", i, op, deps, R, err)
			if err != nil {
				// A refused Stage ends the history (endpoint contract).
				res.outcomes = append(res.outcomes, "stage:refused")
				return
			}
			if recv != nil {
				script, err := captureScript(src, R, sigs)
				if err != nil {
					res.infra = "capture: " + err.Error()
					return
				}
				if op == "stagecut" {
					// The delivery is cut after the first file: later files never arrive.
					cut := 0
					for k, m := range script {
						if m.Done {
							cut = k + 1
							break
						}
					}
					feed(recv, len(R), script[:cut])
				} else if err := feed(recv, len(R), script); err != nil {
					res.infra = "feed: " + err.Error()
					return
				}
			}
		case "transition":
			before := walkRoot(root)
			// The property is about plans that describe the root they are applied to
			// (C08 is the one about roots that changed behind the plan). A history in
			// which the fixed plan no longer matches the disk - applied a second time,
			// or its target created externally - is not judged.
			consistent := true
			for _, ch := range plan {
				if !proto.Equal(diskEntry(filepath.Join(root, filepath.FromSlash(ch.Path))), ch.Old) {
					consistent = false
				}
			}
			results, problems, missing, err := ep.Transition(bg, plan)
			logf("op %d transition: results=%s problems=%v missing=%v err=%v; disk %s -> %s", i, c21entries(results), c10problems(problems), missing, err, before, walkRoot(root))
			if err != nil {
				res.outcomes = append(res.outcomes, "transition:error")
				return
			}
			if !consistent {
				res.outcomes = append(res.outcomes, "transition:stale-plan-not-judged")
				continue
			}
			res.nontrivial = true
			if len(results) != len(plan) {
				res.viol = fmt.Sprintf("op %d: %d results for %d changes", i, len(results), len(plan))
				return
			}
			// "the entry reported back describes exactly what is on disk at that path afterwards"
			applied, kept := 0, 0
			for k, ch := range plan {
				onDisk := diskEntry(filepath.Join(root, filepath.FromSlash(ch.Path)))
				if !proto.Equal(results[k], onDisk) {
					res.viol = fmt.Sprintf("op %d: result for %q is %s but the disk holds %s (problems %v)", i, ch.Path, c21entry(results[k]), c21entry(onDisk), c10problems(problems))
					return
				}
				if proto.Equal(results[k], ch.New) {
					applied++
				} else if proto.Equal(results[k], ch.Old) {
					kept++
				}
			}
			// "A scan taken immediately after the transition agrees with the reported results."
			snap, serr, _ := ep.Scan(bg, nil, true)
			if serr == nil {
				for k, ch := range plan {
					if got := entryAt(snap.Content, ch.Path); !proto.Equal(got, results[k]) {
						res.viol = fmt.Sprintf("op %d: a scan right after the transition sees %s at %q, the result said %s", i, c21entry(got), ch.Path, c21entry(results[k]))
						return
					}
				}
			}
			class := "partial"
			switch {
			case applied == len(plan):
				class = "applied"
			case kept == len(plan):
				class = "nothing-applied"
			}
			limitMsg := false
			for _, p := range problems {
				if strings.Contains(p.Error, "entry count") {
					limitMsg = true
				}
			}
			res.outcomes = append(res.outcomes, fmt.Sprintf("transition:%s:limit-refusal=%v:missing=%v:rescan-ok=%v", class, limitMsg, missing, serr == nil))
		default:
			res.infra = "unknown op " + op
			return
		}
	}
	return
}

// sortDeps orders staging dependencies by path (and keeps digests aligned).
func sortDeps(paths []string, digests [][]byte) {
	idx := make([]int, len(paths))
	for i := range idx {
		idx[i] = i
	}
	sort.Slice(idx, func(a, b int) bool { return paths[idx[a]] < paths[idx[b]] })
	p2, d2 := make([]string, len(paths)), make([][]byte, len(paths))
	for i, j := range idx {
		p2[i], d2[i] = paths[j], digests[j]
	}
	copy(paths, p2)
	copy(digests, d2)
}

func TestC09Endpoint(t *testing.T) {
	r := vr.New(t, "C09", "fault_enumeration")
	defer r.Finish()
	e := newEnv(t)
	src := c09source(e)
	if raw := vr.ReplayCase(); raw != nil {
		var c c09case
		if err := json.Unmarshal(raw, &c); err != nil {
			t.Fatalf("INFRA: replay case: %v", err)
		}
		res := c09run(e, src, c, t.Logf)
		t.Logf("replay %s: outcomes %v verdict %q infra %q", vr.J(c), res.outcomes, res.viol, res.infra)
		r.Case(vr.J(c), res.nontrivial)
		if res.infra != "" {
			t.Fatalf("INFRA: %s", res.infra)
		}
		if res.viol != "" {
			r.Violate(vr.J(c), res.viol, c, nil)
		}
		return
	}
	depth := 4
	if vr.Thorough() {
		depth = 5
	}
	ops := []string{"scan", "stage", "stagecut", "transition", "grow"}
	var seqs [][]string
	{
		seq := make([]string, depth)
		var rec func(pos int)
		rec = func(pos int) {
			if pos == depth {
				if seq[depth-1] == "transition" { // anything after the last transition is observed by nothing
					seqs = append(seqs, append([]string(nil), seq...))
				}
				return
			}
			for _, o := range ops {
				seq[pos] = o
				rec(pos + 1)
			}
		}
		rec(0)
	}
	type combo struct {
		root, plan string
		max        uint64
	}
	var combos []combo
	for _, root := range []string{"absent", "empty", "other"} {
		c0 := map[string]uint64{"absent": 0, "empty": 1, "other": 2}[root]
		for _, plan := range c09plansFor(root) {
			// Every limit from 1 to two above everything the plan could ever need, and unlimited.
			for m := uint64(0); m <= c0+7; m++ {
				combos = append(combos, combo{root, plan, m})
			}
		}
	}
	r.Rule(fmt.Sprintf("endpoint leg: root {absent, empty, one file} x plan {new file, new directory with two files, that plus a file, directory in directory, replace a file + new directory, remove a file + new file, create the root} x MaximumEntryCount {unlimited, 1..count+7} x every sequence of exactly %d ops from {scan, stage + complete delivery, stage + delivery cut after the first file, transition, external growth} ending in transition; after every Transition that returns a nil error (refused by the limit, partial, complete alike) each result is compared deep with an independent walk of the disk at its path and with a fresh full Scan of the endpoint; non-trivial = some Transition returned without error; distinct by the whole case", depth))
	r.Assume("no syscall faults here (the ondisk leg injects them into core.Transition); this leg covers the endpoint's own refusal / partial paths",
		"a history ends at the first call that returns an error (endpoint contract)", "no-watch mode")
	r.Set("static_combinations", len(combos))
	r.Set("op_sequences", len(seqs))
	var mu sync.Mutex
	var infra []string
	deadline := vr.Deadline(12*time.Minute, 40*time.Minute)
	var skipped atomic.Int64
	vr.Parallel(len(combos), func(i int) {
		if time.Now().After(deadline) {
			skipped.Add(1)
			return
		}
		l := r.Local()
		defer l.Flush()
		cb := combos[i]
		for _, seq := range seqs {
			c := c09case{cb.root, cb.plan, cb.max, seq}
			res := c09run(e, src, c, nil)
			if res.infra != "" {
				mu.Lock()
				if len(infra) < 5 {
					infra = append(infra, vr.J(c)+": "+res.infra)
				}
				mu.Unlock()
				continue
			}
			l.Case(vr.J(c), res.nontrivial)
			for _, o := range res.outcomes {
				l.Outcome(o)
			}
			if res.viol != "" {
				l.Outcome("violation")
				r.Violate(vr.J(c), res.viol, c, func() bool { return c09run(e, src, c, nil).viol != "" })
			}
		}
	})
	if n := skipped.Load(); n > 0 {
		r.NotExhaustive(fmt.Sprintf("time budget reached: %d of %d static combinations not run", n, len(combos)))
	}
	if len(infra) > 0 {
		t.Fatalf("INFRA: %s", strings.Join(infra, "\n"))
	}
	r.Sample(c09case{"other", "dir2", 4, []string{"scan", "stage", "grow", "transition"}})
	r.Sample(c09case{"empty", "dir2+file", 0, []string{"grow", "scan", "stagecut", "transition"}})
}
