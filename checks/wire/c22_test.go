//go:build verif

package wire

import (
	"bufio"
	"bytes"
	"encoding/binary"
	"encoding/json"
	"errors"
	"fmt"
	"io"
	"runtime"
	"sort"
	"strings"
	"testing"

	"google.golang.org/protobuf/proto"

	"github.com/mutagen-io/mutagen/pkg/encoding"
	"github.com/mutagen-io/mutagen/pkg/stream"
	"github.com/mutagen-io/mutagen/pkg/synchronization/compression"
	"github.com/mutagen-io/mutagen/pkg/synchronization/endpoint/remote"
	"github.com/mutagen-io/mutagen/pkg/synchronization/rsync"
	"github.com/mutagen-io/mutagen/pkg/url"

	"verif/internal/vr"
)

// ---------------------------------------------------------------------------
// C22 leg A: the control-stream pipeline, composed exactly as
// pkg/synchronization/endpoint/remote/{client,server}.go compose it (the
// composition itself is pinned against the real client in leg B, c22b_test.go).
// ---------------------------------------------------------------------------

const (
	csBuf = 64 * 1024 // controlStreamCompressedBufferSize == controlStreamUncompressedBufferSize
	// csLimit is the documented decoder limit (protobufDecoderMaximumAllowedMessageSize).
	csLimit = 100 * 1024 * 1024
)

// recSink is the "wire": it records everything written and where each Write ended.
type recSink struct {
	buf    []byte
	writes []int // end offset of every Write call
}

func (s *recSink) Write(p []byte) (int, error) {
	s.buf = append(s.buf, p...)
	s.writes = append(s.writes, len(s.buf))
	return len(p), nil
}

// outStack mirrors the outbound half built by remote.NewEndpoint / ServeEndpoint.
type outStack struct {
	sink    *recSink
	encoder *encoding.ProtobufEncoder
	flusher stream.Flusher
}

func newOutStack(alg compression.Algorithm) *outStack {
	sink := &recSink{}
	compressedOutbound := bufio.NewWriterSize(sink, csBuf)
	compressor := alg.Compress(compressedOutbound)
	outbound := bufio.NewWriterSize(compressor, csBuf)
	return &outStack{
		sink:    sink,
		encoder: encoding.NewProtobufEncoder(outbound),
		flusher: stream.NewMultiFlusher(outbound, compressor, compressedOutbound),
	}
}

// newInStack mirrors the inbound half.
func newInStack(alg compression.Algorithm, wire io.Reader) *encoding.ProtobufDecoder {
	compressedInbound := bufio.NewReaderSize(wire, csBuf)
	decompressor := alg.Decompress(compressedInbound)
	inbound := bufio.NewReaderSize(decompressor, csBuf)
	return encoding.NewProtobufDecoder(inbound)
}

var errDry = errors.New("harness: reader ran dry (needs more bytes than were delivered)")

// fragReader delivers data in fragments: a Read never crosses one of the bounds,
// never returns more than maxChunk bytes (0 = unlimited), and once all of data
// has been delivered every further Read "runs dry".
type fragReader struct {
	data     []byte
	pos      int
	bounds   []int // ascending fragment ends inside data
	maxChunk int
	dry      int // number of Reads answered with errDry
}

func (f *fragReader) Read(p []byte) (int, error) {
	if f.pos >= len(f.data) {
		f.dry++
		return 0, errDry
	}
	if len(p) == 0 {
		return 0, nil
	}
	end := len(f.data)
	for _, b := range f.bounds {
		if b > f.pos {
			if b < end {
				end = b
			}
			break
		}
	}
	n := end - f.pos
	if n > len(p) {
		n = len(p)
	}
	if f.maxChunk > 0 && n > f.maxChunk {
		n = f.maxChunk
	}
	copy(p, f.data[f.pos:f.pos+n])
	f.pos += n
	return n, nil
}

var payloadCache = map[[2]int][]byte{}

func init() {
	for _, size := range []int{0, 1, 200, 70000} {
		for idx := 0; idx < 3; idx++ {
			payloadCache[[2]int{size, idx}] = makePayload(size, idx)
		}
	}
}

// makePayload is the content of message idx: incompressible (xorshift stream, so
// that 70 000 bytes stay > 64 KiB after DEFLATE), first byte marks the index.
func makePayload(size, idx int) []byte {
	b := make([]byte, size)
	x := uint32(2463534242) ^ uint32(size*31+idx*7919+1)
	for i := range b {
		x ^= x << 13
		x ^= x >> 17
		x ^= x << 5
		b[i] = byte(x >> 8)
	}
	if size > 0 {
		b[0] = byte('A' + idx)
	}
	return b
}

func payload(size, idx int) []byte {
	if p, ok := payloadCache[[2]int{size, idx}]; ok {
		return p
	}
	return makePayload(size, idx)
}

// message builds the protocol message carrying the payload: a real control-stream
// message type (rsync.Transmission); size 0 is the zero message (0 encoded bytes).
func message(p []byte) *rsync.Transmission {
	if len(p) == 0 {
		return &rsync.Transmission{}
	}
	return &rsync.Transmission{Operation: &rsync.Operation{Data: p}}
}

// sizedMessage builds a control-stream message whose ENCODED size is exactly s
// (nil when no such message exists: s == 1). The bulk is the error string (field 4:
// 1 tag byte + varint length + n bytes); Done (2 bytes) and ExpectedSize=1 (2 bytes)
// fill the sizes a lone string field cannot reach. Verified with proto.Size.
func sizedMessage(s, idx int) *rsync.Transmission {
	var m *rsync.Transmission
	switch {
	case s == 0:
		m = &rsync.Transmission{}
	case s == 2:
		m = &rsync.Transmission{Done: true}
	default:
	search:
		for _, extra := range []struct {
			done bool
			exp  uint64
			n    int
		}{{false, 0, 0}, {true, 0, 2}, {false, 1, 2}, {true, 1, 4}} {
			for vl := 1; vl <= 5; vl++ {
				n := s - extra.n - 1 - vl
				if n >= 1 && uvarintLen(uint64(n)) == vl {
					b := []byte(asciiPayload(n, 40+idx))
					b[0] = byte('a' + idx)
					m = &rsync.Transmission{Done: extra.done, ExpectedSize: extra.exp, Error: string(b)}
					break search
				}
			}
		}
	}
	if m == nil || proto.Size(m) != s {
		return nil
	}
	return m
}

type algSpec struct {
	Name string
	Alg  compression.Algorithm
}

func supportedAlgorithms() []algSpec {
	var out []algSpec
	for _, a := range []algSpec{{"none", compression.Algorithm_AlgorithmNone}, {"deflate", compression.Algorithm_AlgorithmDeflate}, {"zstandard", compression.Algorithm_AlgorithmZstandard}} {
		if a.Alg.SupportStatus() == compression.AlgorithmSupportStatusSupported {
			out = append(out, a)
		}
	}
	return out
}

func algByName(n string) compression.Algorithm {
	for _, a := range supportedAlgorithms() {
		if a.Name == n {
			return a.Alg
		}
	}
	return compression.Algorithm_AlgorithmNone
}

// framing is one written stream: message sizes, flush mask (bit i = flush after
// message i) and algorithm.
type framing struct {
	Alg   string
	Sizes []int
	Flush int
	// Encoded: Sizes are exact ENCODED message sizes (size-sweep leg, sizedMessage)
	// instead of payload sizes.
	Encoded bool `json:",omitempty"`
}

// produced is the result of writing a framing through the real outbound stack.
type produced struct {
	wire       []byte
	want       []*rsync.Transmission // written messages in order
	flushedLen []int    // wire length right after the flush following message i (-1: no flush there)
	marks      []int    // interesting wire offsets (write ends, flush points, frame boundaries)
	err        error
}

func produce(f framing) produced {
	out := newOutStack(algByName(f.Alg))
	var p produced
	frame := 0
	var frames []int
	for i, size := range f.Sizes {
		var m *rsync.Transmission
		if f.Encoded {
			if m = sizedMessage(size, i); m == nil {
				p.err = fmt.Errorf("INFRA: no message with encoded size %d", size)
				return p
			}
		} else {
			m = message(payload(size, i))
		}
		p.want = append(p.want, m)
		if err := out.encoder.Encode(m); err != nil {
			p.err = fmt.Errorf("Encode of message %d failed: %w", i, err)
			return p
		}
		if f.Alg == "none" {
			// Uncompressed frame geometry: prefix start, body start, body end.
			body := len(mustMarshalLen(m))
			if f.Encoded {
				body = size
			}
			pre := uvarintLen(uint64(body))
			frames = append(frames, frame, frame+pre, frame+pre+body)
			frame += pre + body
		}
		if f.Flush&(1<<uint(i)) != 0 {
			if err := out.flusher.Flush(); err != nil {
				p.err = fmt.Errorf("Flush after message %d failed: %w", i, err)
				return p
			}
			p.flushedLen = append(p.flushedLen, len(out.sink.buf))
		} else {
			p.flushedLen = append(p.flushedLen, -1)
		}
	}
	p.wire = out.sink.buf
	p.marks = append(p.marks, out.sink.writes...)
	for _, fl := range p.flushedLen {
		if fl >= 0 {
			p.marks = append(p.marks, fl)
		}
	}
	for _, fr := range frames {
		if fr <= len(p.wire) {
			p.marks = append(p.marks, fr)
		}
	}
	for m := 32 * 1024; m <= len(p.wire); m += 32 * 1024 {
		p.marks = append(p.marks, m)
	}
	return p
}

func uvarintLen(x uint64) int {
	var b [binary.MaxVarintLen64]byte
	return binary.PutUvarint(b[:], x)
}

func mustMarshalLen(m *rsync.Transmission) []byte {
	// Size of the body, computed independently of the encoder under test: field 2
	// (operation) wraps field 1 (data).
	if m.Operation == nil {
		return nil
	}
	d := len(m.Operation.Data)
	inner := 1 + uvarintLen(uint64(d)) + d
	return make([]byte, 1+uvarintLen(uint64(inner))+inner)
}

// delivery says how the wire bytes reach the decoder: bytes [0,C1) then [C1,C2)
// are delivered as separate fragments (C1==0: a single fragment [0,C2)), nothing
// beyond C2 ever arrives. Chunk>0 additionally limits every Read to Chunk bytes.
type delivery struct {
	C1, C2 int
	Chunk  int
	// Reuse: the receiver decodes every message of the sequence into ONE destination
	// object that the harness never resets (legitimate API use: Decode, like
	// proto.Unmarshal, is expected to reset its destination); otherwise a fresh
	// destination per Decode.
	Reuse bool `json:",omitempty"`
}

type c22case struct {
	F framing
	D delivery
}

type decodeOutcome struct {
	decoded int
	what    string // violation text, "" if fine
	err     error  // the error that ended decoding
}

// required returns how many messages MUST decode from the first c wire bytes:
// "After a flush, everything written so far can be decoded without further data".
func (p *produced) required(c int) int {
	n := 0
	for i, fl := range p.flushedLen {
		if fl >= 0 && fl <= c {
			n = i + 1
		}
	}
	return n
}

// decodeAndJudge runs the real inbound stack over the delivery and applies the oracle.
func decodeAndJudge(f framing, p *produced, d delivery) (out decodeOutcome) {
	defer func() {
		if x := recover(); x != nil {
			out.what = fmt.Sprintf("decoder panicked: %v", x)
		}
	}()
	if d.C2 > len(p.wire) {
		d.C2 = len(p.wire)
	}
	src := &fragReader{data: p.wire[:d.C2], maxChunk: d.Chunk}
	if d.C1 > 0 && d.C1 < d.C2 {
		src.bounds = []int{d.C1}
	}
	dec := newInStack(algByName(f.Alg), src)
	reused := &rsync.Transmission{}
	for {
		var fresh rsync.Transmission
		mp := &fresh
		if d.Reuse {
			mp = reused // whatever the previous message left in it
		}
		err := dec.Decode(mp)
		// Compare a snapshot taken right after Decode.
		m := *proto.Clone(mp).(*rsync.Transmission)
		if err != nil {
			out.err = err
			if src.dry == 0 {
				// The decoder gave up although the reader never ran out of bytes.
				out.what = fmt.Sprintf("message %d: decode failed without the reader running dry: %v", out.decoded, err)
				return
			}
			break
		}
		// "is decoded by the peer as the same sequence": every decoded message equals the
		// written one at the same index.
		if out.decoded >= len(p.want) {
			out.what = fmt.Sprintf("decoded a message #%d that was never written (%d data bytes)", out.decoded, len(m.GetOperation().GetData()))
			return
		}
		want := p.want[out.decoded]
		if !sameMessage(&m, want) || (want.Operation == nil && m.Operation != nil) {
			got, wd := m.GetOperation().GetData(), want.GetOperation().GetData()
			out.what = fmt.Sprintf("message %d decoded differently: got %d data bytes/%d error bytes (first differing data offset %d), want %d/%d", out.decoded, len(got), len(m.Error), firstDiff(got, wd), len(wd), len(want.Error))
			return
		}
		out.decoded++
	}
	// "After a flush, everything written so far can be decoded without further data".
	if need := p.required(d.C2); out.decoded < need {
		out.what = fmt.Sprintf("only %d message(s) decoded from the first %d wire bytes although %d were written and flushed within them (decoder wanted more: %v)", out.decoded, d.C2, need, out.err)
	}
	return
}

func firstDiff(a, b []byte) int {
	for i := 0; i < len(a) && i < len(b); i++ {
		if a[i] != b[i] {
			return i
		}
	}
	if len(a) != len(b) {
		if len(a) < len(b) {
			return len(a)
		}
		return len(b)
	}
	return -1
}

// cutSet returns the cut positions enumerated for a wire of length n: all of
// 0..n when n <= exhaustiveBelow, otherwise every multiple of stride plus every
// position within +-near of a mark, plus 0 and n.
func cutSet(n int, marks []int, stride, near, exhaustiveBelow int) []int {
	if n <= exhaustiveBelow {
		out := make([]int, n+1)
		for i := range out {
			out[i] = i
		}
		return out
	}
	set := map[int]bool{0: true, n: true}
	for c := stride; c < n; c += stride {
		set[c] = true
	}
	for _, m := range marks {
		for c := m - near; c <= m+near; c++ {
			if c >= 0 && c <= n {
				set[c] = true
			}
		}
	}
	out := make([]int, 0, len(set))
	for c := range set {
		out = append(out, c)
	}
	sort.Ints(out)
	return out
}

func allFramings(algs []algSpec, sizes []int, maxMsgs int) []framing {
	var seqs [][]int
	var rec func(cur []int)
	rec = func(cur []int) {
		if len(cur) > 0 {
			seqs = append(seqs, append([]int{}, cur...))
		}
		if len(cur) == maxMsgs {
			return
		}
		for _, s := range sizes {
			rec(append(cur, s))
		}
	}
	rec(nil)
	var out []framing
	for _, a := range algs {
		for _, s := range seqs {
			for mask := 0; mask < 1<<uint(len(s)); mask++ {
				out = append(out, framing{a.Name, s, mask, false})
			}
		}
	}
	// Heaviest first so that dynamic sharding balances; the order is deterministic.
	weight := func(f framing) int {
		w := 0
		for _, s := range f.Sizes {
			w += s
		}
		return w
	}
	sort.SliceStable(out, func(i, j int) bool { return weight(out[i]) > weight(out[j]) })
	return out
}

// forgedCase is a wire stream made of Valid intact messages followed by a bare
// length prefix declaring Declared bytes (Raw, when set, is the literal prefix).
type forgedCase struct {
	Alg      string
	Valid    int
	Declared uint64
	Raw      []byte `json:",omitempty"`
}

// runForged checks "declared message sizes above the limit are rejected" - and
// that this happens without asking for the body and without allocating it.
func runForged(fc forgedCase) (what string) {
	defer func() {
		if x := recover(); x != nil {
			what = fmt.Sprintf("decoder panicked on forged length: %v", x)
		}
	}()
	// Build the uncompressed byte stream by hand and push it through the real
	// compressor so that the inbound stack sees a well-formed compressed stream.
	var plain []byte
	for i := 0; i < fc.Valid; i++ {
		body := []byte{0x12, 0x03, 0x0a, 0x01, byte('A' + i)} // Transmission{Operation{Data: 1 byte}}
		plain = append(plain, byte(len(body)))
		plain = append(plain, body...)
	}
	if fc.Raw != nil {
		plain = append(plain, fc.Raw...)
	} else {
		plain = binary.AppendUvarint(plain, fc.Declared)
	}
	sink := &recSink{}
	comp := algByName(fc.Alg).Compress(sink)
	if _, err := comp.Write(plain); err != nil {
		return "INFRA: compressor write failed: " + err.Error()
	}
	if err := comp.Flush(); err != nil {
		return "INFRA: compressor flush failed: " + err.Error()
	}
	src := &fragReader{data: sink.buf}
	dec := newInStack(algByName(fc.Alg), src)
	for i := 0; i < fc.Valid; i++ {
		var m rsync.Transmission
		if err := dec.Decode(&m); err != nil || len(m.GetOperation().GetData()) != 1 {
			return fmt.Sprintf("valid message %d before the forged prefix did not decode: %v", i, err)
		}
	}
	var before, after runtime.MemStats
	runtime.ReadMemStats(&before)
	var m rsync.Transmission
	err := dec.Decode(&m)
	runtime.ReadMemStats(&after)
	grown := after.TotalAlloc - before.TotalAlloc
	if err == nil {
		return "a length prefix above the limit was accepted"
	}
	if src.dry > 0 {
		return fmt.Sprintf("decoder tried to read the body of an over-limit message before rejecting it (%v)", err)
	}
	if grown > 16<<20 {
		return fmt.Sprintf("decoder allocated %d bytes before rejecting an over-limit length (%v)", grown, err)
	}
	return ""
}

type c22replay struct {
	Frame  *c22case    `json:",omitempty"`
	Forged *forgedCase `json:",omitempty"`
	Client *clientCase `json:",omitempty"`
	Typed  *typedCase  `json:",omitempty"`
}

// typedCase (leg T): a sequence of messages of one protocol type with scalar, map and
// repeated fields (indices into typedUniverse), decoded into fresh or one reused destination.
type typedCase struct {
	Alg   string
	Type  string // url, stage
	Seq   []int
	Reuse bool
}

func typedUniverse(kind string) []proto.Message {
	if kind == "url" {
		return []proto.Message{
			&url.URL{},
			&url.URL{Kind: url.Kind_Forwarding, Protocol: url.Protocol_SSH, User: "u", Host: "h", Port: 22, Path: "/p",
				Environment: map[string]string{"A": "1", "B": "2"}, Parameters: map[string]string{"k": "v"}},
			&url.URL{Host: "other"},
			&url.URL{Path: "q", Environment: map[string]string{"C": "3"}},
		}
	}
	return []proto.Message{
		&remote.EndpointRequest{},
		&remote.EndpointRequest{Stage: &remote.StageRequest{Paths: []string{"a", "b"}, Digests: [][]byte{{1}, {2}}}},
		&remote.EndpointRequest{Stage: &remote.StageRequest{Paths: []string{"c"}}},
		&remote.EndpointRequest{Poll: &remote.PollRequest{}},
	}
}

func runTyped(c typedCase) (what string) {
	defer func() {
		if x := recover(); x != nil {
			what = fmt.Sprintf("panic: %v", x)
		}
	}()
	u := typedUniverse(c.Type)
	out := newOutStack(algByName(c.Alg))
	for i, k := range c.Seq {
		if err := out.encoder.Encode(u[k]); err != nil {
			return fmt.Sprintf("Encode of message %d failed: %v", i, err)
		}
	}
	if err := out.flusher.Flush(); err != nil {
		return "Flush failed: " + err.Error()
	}
	dec := newInStack(algByName(c.Alg), &fragReader{data: out.sink.buf})
	reused := u[0].ProtoReflect().New().Interface()
	for i, k := range c.Seq {
		dst := reused
		if !c.Reuse {
			dst = u[0].ProtoReflect().New().Interface()
		}
		if err := dec.Decode(dst); err != nil {
			return fmt.Sprintf("message %d of the flushed sequence did not decode: %v", i, err)
		}
		// "decoded by the peer as the same sequence": the k-th decoded value equals the k-th sent.
		if got := proto.Clone(dst); !proto.Equal(got, u[k]) {
			return fmt.Sprintf("message %d decoded as %v, sent %v", i, got, u[k])
		}
	}
	return ""
}

func TestC22(t *testing.T) {
	r := vr.New(t, "C22", "exploration")
	defer r.Finish()
	algs := supportedAlgorithms()

	if raw := vr.ReplayCase(); raw != nil {
		var c c22replay
		if err := json.Unmarshal(raw, &c); err != nil {
			t.Fatalf("INFRA: replay case does not parse: %v", err)
		}
		switch {
		case c.Frame != nil:
			p := produce(c.Frame.F)
			o := decodeAndJudge(c.Frame.F, &p, c.Frame.D)
			t.Logf("replay %s: wire %d bytes, write ends %v, flushed lengths %v; decoded %d, ended by %v; verdict %q",
				vr.J(c.Frame), len(p.wire), p.sinkWrites(), p.flushedLen, o.decoded, o.err, o.what)
			r.Case(vr.J(c), true)
			if p.err != nil {
				r.Violate(vr.J(c), p.err.Error(), c, nil)
			} else if o.what != "" {
				r.Violate(vr.J(c), o.what, c, nil)
			}
		case c.Forged != nil:
			what := runForged(*c.Forged)
			t.Logf("replay %s: verdict %q", vr.J(c.Forged), what)
			r.Case(vr.J(c), true)
			if what != "" {
				r.Violate(vr.J(c), what, c, nil)
			}
		case c.Typed != nil:
			what := runTyped(*c.Typed)
			t.Logf("replay %s: verdict %q", vr.J(c.Typed), what)
			r.Case(vr.J(c), true)
			if what != "" {
				r.Violate(vr.J(c), what, c, nil)
			}
		case c.Client != nil:
			what, tr := runClientCase(*c.Client)
			t.Logf("replay %s:\n%s\nverdict %q", vr.J(c.Client), strings.Join(tr, "\n"), what)
			r.Case(vr.J(c), true)
			if what != "" {
				r.Violate(vr.J(c), what, c, nil)
			}
		}
		return
	}

	// Every delivery builds a fresh real inbound stack (~200 KiB of buffers) while the live
	// heap stays small: with the default pacer that is a GC cycle every few dozen cases. A
	// never-touched ballast makes the pacer wait for ~512 MiB of allocation between cycles
	// (performance only, no effect on verdicts; untouched pages cost no resident memory).
	ballast := make([]byte, 512<<20)
	defer runtime.KeepAlive(ballast)

	thorough := vr.Thorough()
	stride, near := 8191, 3
	if thorough {
		stride = 1021
	}
	const exhaustiveBelow = 4096
	var algNames []string
	for _, a := range algs {
		algNames = append(algNames, a.Name)
	}
	pairRule := "quick: no pairs"
	if thorough {
		pairRule = "thorough: every pair c1<c2 of cut positions (fragments [0,c1),[c1,c2), then dry) for wires <= 4096 bytes, and every pair of positions within +-1 of a mark for longer wires"
	}
	r.Rule(fmt.Sprintf("leg A: every sequence of 1..3 messages with payload sizes {0,1,200,70000} x every subset of flush points x compression %v, written through the real ProtobufEncoder/bufio/compressor/bufio/MultiFlusher stack; the produced wire bytes are given to the real bufio/decompressor/bufio/ProtobufDecoder stack (a) as prefix [0,c) after which the reader runs dry, for every cut c, (b) as two fragments [0,c),[c,end) for every c, (c) one byte per Read; %s. "+
		"Wires longer than %d bytes (those with a 70000-byte message) are cut at every multiple of %d plus every position within +-%d of a mark (end of each Write to the wire, flush point, uncompressed frame boundary: prefix start/body start/body end, multiples of 32 KiB), shorter wires at every position. "+
		"leg S: single messages, (message, 3-byte sentinel), (sentinel, message) and (message, message, sentinel) for EVERY encoded message size in [0,300] and [16354,16404] (thorough also 2097152+-20; size 1 does not exist), sizes verified with proto.Size, flushed at the end and after each message, delivered whole and one byte per Read. "+
		"Receiver mode: every framing and every leg-S framing is additionally decoded whole into ONE destination object never reset by the harness (vs a fresh destination per Decode). leg T: every sequence of 1..3 messages from 4 url.URL values (scalars, two map fields) and from 4 remote.EndpointRequest values (repeated fields, sub-messages), incl. the empty message and sparser-after-fuller, fresh and reused destination. "+
		"leg F: forged length prefixes {limit+1, limit+2, 2^31, 2^32, 2^62, 2^63, 2^64-1, over-long varints} after 0..2 valid messages. leg B: see client_* keys. "+
		"non-trivial = at least one message written and a non-empty wire; distinct by (framing, delivery)", algNames, pairRule, exhaustiveBelow, stride, near))
	r.Assume("leg A composes the pipeline in the harness in the same order as remote/client.go and server.go (64 KiB bufio on both sides of the compressor, MultiFlusher(outbound, compressor, compressedOutbound)); leg B pins that composition against the real remote.NewEndpoint client",
		"message contents are incompressible pseudo-random bytes from a fixed generator (so the 70000-byte message crosses the 64 KiB buffers with DEFLATE too); other contents are outside the bound",
		"fragmentation is modelled at the io.Reader below the compressed-side bufio.Reader: short reads and a reader that has no further bytes; reordering/corruption are not transport behaviours of a stream",
		"zstandard is enumerated only when the build supports it (SupportStatus); this build: "+strings.Join(algNames, ","),
		"the 100 MiB limit is taken from the documentation constant; a message of exactly the limit is not exercised")

	// ---- leg F: forged prefixes (single-threaded: uses runtime.MemStats) ----
	forgedLens := []uint64{csLimit + 1, csLimit + 2, 1 << 31, 1 << 32, 1 << 62, 1 << 63, ^uint64(0)}
	overlong := [][]byte{
		bytes.Repeat([]byte{0xff}, 10),                         // 10th byte > 1: overflow
		append(bytes.Repeat([]byte{0x80}, 10), 0x01),           // 11 bytes
		append(bytes.Repeat([]byte{0xff}, 9), 0x02),            // 2^64 + ...
		append(bytes.Repeat([]byte{0xff}, 9), 0x7f, 0x00, 0x0), // trailing junk
	}
	forgedViolated := false
	for _, a := range algs {
		for valid := 0; valid <= 2; valid++ {
			var fcs []forgedCase
			for _, L := range forgedLens {
				fcs = append(fcs, forgedCase{Alg: a.Name, Valid: valid, Declared: L})
			}
			for _, raw := range overlong {
				fcs = append(fcs, forgedCase{Alg: a.Name, Valid: valid, Raw: raw})
			}
			for _, fc := range fcs {
				fc := fc
				if forgedViolated && fc.Raw == nil && fc.Declared >= 1<<31 && fc.Declared < 1<<62 {
					// A decoder that already failed to reject limit+1 early would really allocate
					// gigabytes here; the smaller case has shown the defect, protect the machine.
					r.Outcome("forged:skipped-after-violation")
					continue
				}
				what := runForged(fc)
				key := vr.J(c22replay{Forged: &fc})
				r.Case(key, true)
				r.Add("forged_prefix_cases", 1)
				if what != "" {
					forgedViolated = true
					r.Outcome("forged:violation")
					r.Violate(key, what, c22replay{Forged: &fc}, func() bool { return runForged(fc) != "" })
				} else {
					r.Outcome("forged:rejected-early")
				}
			}
		}
	}

	// ---- leg A ----
	framings := allFramings(algs, []int{0, 1, 200, 70000}, 3)
	r.Set("framings", len(framings))
	vr.Parallel(len(framings), func(i int) {
		f := framings[i]
		l := r.Local()
		defer l.Flush()
		p := produce(f)
		if p.err != nil {
			key := vr.J(c22replay{Frame: &c22case{F: f}})
			r.Violate(key, p.err.Error(), c22replay{Frame: &c22case{F: f}}, func() bool { q := produce(f); return q.err != nil })
			return
		}
		n := len(p.wire)
		eval := func(mode string, d delivery) {
			o := decodeAndJudge(f, &p, d)
			nt := n > 0
			if nt {
				l.Case(fmt.Sprintf("%s|%v|%d|%d|%d|%d|%v", f.Alg, f.Sizes, f.Flush, d.C1, d.C2, d.Chunk, d.Reuse), true)
			} else {
				l.Case("", false)
			}
			if o.what != "" {
				l.Outcome(mode + ":violation")
				c := c22replay{Frame: &c22case{F: f, D: d}}
				r.Violate(vr.J(c), o.what, c, func() bool {
					q := produce(f)
					return q.err != nil || decodeAndJudge(f, &q, d).what != ""
				})
				return
			}
			switch {
			case o.decoded == len(f.Sizes):
				l.Outcome(mode + ":all-decoded")
			case o.decoded > p.required(d.C2):
				l.Outcome(mode + ":more-than-flushed")
			case o.decoded == 0:
				l.Outcome(mode + ":none-yet")
			default:
				l.Outcome(mode + ":exactly-flushed")
			}
		}
		cuts := cutSet(n, p.marks, stride, near, exhaustiveBelow)
		for _, c := range cuts {
			eval("dry", delivery{0, c, 0, false}) // (a) prefix then dry
			if c > 0 && c < n {
				eval("frag", delivery{c, n, 0, false}) // (b) two fragments
			}
		}
		eval("bytes", delivery{0, n, 1, false}) // (c) one byte per Read
		eval("reuse", delivery{0, n, 0, true})  // (d) whole wire into one reused destination
		if thorough {
			pc := cuts
			if n > exhaustiveBelow {
				pc = cutSet(n, p.marks, n+1, 1, 0)
			}
			for a := 0; a < len(pc); a++ {
				for b := a + 1; b < len(pc); b++ {
					if pc[a] == 0 {
						continue // identical to the single-cut delivery
					}
					eval("pair", delivery{pc[a], pc[b], 0, false})
				}
			}
		}
	})

	// ---- leg S: encoded-size sweep ----
	// Every encoded message size around the varint prefix-width boundaries: the message
	// alone, followed by a small sentinel, and preceded by one (the encoder reuses its
	// buffer), flushed once at the end and after every message; delivered whole and one
	// byte per Read.
	{
		var sweep []int
		add := func(lo, hi int) {
			for x := lo; x <= hi; x++ {
				if sizedMessage(x, 0) != nil {
					sweep = append(sweep, x)
				}
			}
		}
		add(0, 300)
		add(16374-20, 16384+20)
		if thorough {
			add(2097152-20, 2097152+20)
		}
		const sentinel = 3
		var fs []framing
		for _, a := range algs {
			for _, x := range sweep {
				fs = append(fs,
					framing{a.Name, []int{x}, 1, true},
					framing{a.Name, []int{x, sentinel}, 2, true},
					framing{a.Name, []int{x, sentinel}, 3, true},
					framing{a.Name, []int{sentinel, x}, 2, true},
					framing{a.Name, []int{x, x, sentinel}, 4, true})
			}
		}
		r.Set("sweep_sizes", len(sweep))
		r.Set("sweep_framings", len(fs))
		vr.Parallel(len(fs), func(i int) {
			f := fs[i]
			l := r.Local()
			defer l.Flush()
			p := produce(f)
			if p.err != nil {
				c := c22replay{Frame: &c22case{F: f}}
				r.Violate(vr.J(c), p.err.Error(), c, func() bool { q := produce(f); return q.err != nil })
				return
			}
			n := len(p.wire)
			ds := []delivery{{0, n, 0, false}, {0, n, 0, true}}
			if n <= 1<<17 {
				ds = append(ds, delivery{0, n, 1, false})
			}
			for _, d := range ds {
				o := decodeAndJudge(f, &p, d)
				l.Case(fmt.Sprintf("sweep|%s|%v|%d|%d|%v", f.Alg, f.Sizes, f.Flush, d.Chunk, d.Reuse), true)
				if o.what == "" && o.decoded != len(f.Sizes) {
					o.what = fmt.Sprintf("only %d of %d flushed messages decoded", o.decoded, len(f.Sizes))
				}
				if o.what != "" {
					l.Outcome("sweep:violation")
					c := c22replay{Frame: &c22case{F: f, D: d}}
					r.Violate(vr.J(c), o.what, c, func() bool {
						q := produce(f)
						return q.err != nil || decodeAndJudge(f, &q, d).what != ""
					})
				} else {
					l.Outcome("sweep:all-decoded")
				}
			}
		})
	}

	// ---- leg T: typed messages (scalars, maps, repeated fields), fresh vs reused destination ----
	{
		var tcs []typedCase
		for _, a := range algs {
			for _, kind := range []string{"url", "stage"} {
				n := len(typedUniverse(kind))
				var seqs [][]int
				for i := 0; i < n; i++ {
					seqs = append(seqs, []int{i})
					for j := 0; j < n; j++ {
						seqs = append(seqs, []int{i, j})
						for k := 0; k < n; k++ {
							seqs = append(seqs, []int{i, j, k})
						}
					}
				}
				for _, sq := range seqs {
					tcs = append(tcs, typedCase{a.Name, kind, sq, false}, typedCase{a.Name, kind, sq, true})
				}
			}
		}
		r.Set("typed_cases", len(tcs))
		vr.Parallel(len(tcs), func(i int) {
			c := tcs[i]
			what := runTyped(c)
			key := vr.J(c22replay{Typed: &c})
			r.Case(key, true)
			if what != "" {
				r.Outcome("typed:violation")
				r.Violate(key, what, c22replay{Typed: &c}, func() bool { return runTyped(c) != "" })
			} else if c.Reuse {
				r.Outcome("typed:reused-destination-ok")
			} else {
				r.Outcome("typed:fresh-destination-ok")
			}
		})
	}

	// ---- leg B: the real client (c22b_test.go) ----
	runClientLeg(r)

	r.Sample(c22replay{Frame: &c22case{F: framing{"deflate", []int{200, 70000, 1}, 5, false}, D: delivery{0, 212, 0, false}}})
	r.Sample(c22replay{Frame: &c22case{F: framing{"none", []int{70000, 0}, 2, false}, D: delivery{65536, 70007, 0, false}}})
	r.Sample(c22replay{Forged: &forgedCase{Alg: "deflate", Valid: 1, Declared: csLimit + 1}})
	r.Sample(c22replay{Frame: &c22case{F: framing{"none", []int{127, 3}, 2, true}, D: delivery{0, 133, 1, false}}})
}

func (p *produced) sinkWrites() []int {
	var out []int
	for _, m := range p.marks {
		out = append(out, m)
	}
	sort.Ints(out)
	return out
}
