//go:build verif

package wire

import (
	"bytes"
	"fmt"
	"io"
	"strings"

	"google.golang.org/protobuf/proto"

	"github.com/mutagen-io/mutagen/pkg/logging"
	"github.com/mutagen-io/mutagen/pkg/synchronization"
	"github.com/mutagen-io/mutagen/pkg/synchronization/endpoint/remote"
	"github.com/mutagen-io/mutagen/pkg/synchronization/rsync"

	"verif/internal/vr"
)

// ---------------------------------------------------------------------------
// C22 leg B: the pipeline as the REAL remote endpoint client builds it.
// remote.NewEndpoint, (*endpointClient).Stage and the rsync receiver it returns
// are driven on the test goroutine over a scripted stream. Whenever the client
// blocks in Read, the harness (i) decodes everything the client has put on the
// wire so far with its own inbound stack - all messages the client has flushed
// must be there - and (ii) answers with a response produced by its own
// outbound stack, delivered to the client's real decoder stack in fragments.
// ---------------------------------------------------------------------------

// clientCase is one scripted conversation.
type clientCase struct {
	Alg      string
	Root     int   // size of the root string in the initialize request
	InitErr  int   // -1: initialization succeeds (zero-length response message); else size of the error string
	Path     int   // size of the staged path and of its digest (0: no Stage call)
	StageErr int   // -1: staging succeeds; else size of the error string
	Sig      int   // size of the strong hash in the returned signature (successful staging)
	Data     []int // data sizes of the rsync transmissions then forwarded through the receiver (followed by Done)
	FragStep int   // which response is fragmented: 0 initialize, 1 stage
	Cut      int   // fragment boundary inside that response's wire bytes (0: none)
	Chunk    int   // >0: at most that many bytes per Read for that response
}

// asciiPayload is a deterministic printable (valid UTF-8) string of the given size.
func asciiPayload(size, salt int) string {
	const alphabet = "ABCDEFGHIJKLMNOPQRSTUVWXYZabcdefghijklmnopqrstuvwxyz0123456789+/"
	raw := makePayload(size, salt)
	b := make([]byte, size)
	for i := range b {
		b[i] = alphabet[raw[i]&63]
	}
	return string(b)
}

// scriptStream is the io.ReadWriteCloser handed to the client.
type scriptStream struct {
	out     []byte     // everything the client wrote
	in      fragReader // bytes currently available to the client
	onEmpty func() bool
	closed  bool
	dry     int
}

func (s *scriptStream) Write(p []byte) (int, error) {
	if s.closed {
		return 0, io.ErrClosedPipe
	}
	s.out = append(s.out, p...)
	return len(p), nil
}

func (s *scriptStream) Read(p []byte) (int, error) {
	if s.closed {
		return 0, io.ErrClosedPipe
	}
	if s.in.pos >= len(s.in.data) {
		if s.onEmpty == nil || !s.onEmpty() {
			s.dry++
			return 0, errDry
		}
	}
	return s.in.Read(p)
}

func (s *scriptStream) Close() error { s.closed = true; return nil }

// scriptedRsyncDecoder feeds DecodeToReceiver.
type scriptedRsyncDecoder struct {
	list []*rsync.Transmission
	next int
}

func (d *scriptedRsyncDecoder) Decode(t *rsync.Transmission) error {
	if d.next >= len(d.list) {
		return io.EOF
	}
	proto.Merge(t, d.list[d.next])
	d.next++
	return nil
}
func (d *scriptedRsyncDecoder) Finalize() error { return nil }

func runClientCase(c clientCase) (what string, trace []string) {
	defer func() {
		if x := recover(); x != nil {
			what = fmt.Sprintf("panic: %v", x)
		}
	}()
	logf := func(f string, a ...interface{}) { trace = append(trace, fmt.Sprintf(f, a...)) }
	alg := algByName(c.Alg)
	root := asciiPayload(c.Root, 11)
	initErr, stageErr := "", ""
	if c.InitErr >= 0 {
		initErr = asciiPayload(c.InitErr, 12)
	}
	if c.StageErr >= 0 {
		stageErr = asciiPayload(c.StageErr, 13)
	}
	path := asciiPayload(c.Path, 14)
	digest := makePayload(c.Path, 15)
	signature := &rsync.Signature{BlockSize: 1, LastBlockSize: 1, Hashes: []*rsync.BlockHash{{Weak: 7, Strong: makePayload(c.Sig, 16)}}}
	configuration := &synchronization.Configuration{CompressionAlgorithm: alg}

	// What the client is expected to have put on the wire, in order.
	expected := []proto.Message{&remote.InitializeSynchronizationRequest{
		Root: root, Session: "sess", Version: synchronization.Version_Version1, Configuration: configuration, Alpha: true,
	}}
	var problem string
	fail := func(f string, a ...interface{}) {
		if problem == "" {
			problem = fmt.Sprintf(f, a...)
		}
	}
	s := &scriptStream{}
	// checkWire decodes the client's output with a fresh inbound stack and requires
	// all `expected` messages to be present: "After a flush, everything written so far
	// can be decoded without further data".
	checkWire := func(when string) {
		if len(s.out) < 1 {
			fail("%s: client wrote nothing", when)
			return
		}
		src := &fragReader{data: s.out[1:]}
		dec := newInStack(alg, src)
		for i, want := range expected {
			got := want.ProtoReflect().New().Interface()
			if err := dec.Decode(got); err != nil {
				fail("%s: client message %d of %d (%T) cannot be decoded from the %d bytes it has put on the wire: %v", when, i, len(expected), want, len(s.out)-1, err)
				return
			}
			if !sameMessage(got, want) {
				fail("%s: client message %d (%T) decoded differently from what was sent", when, i, want)
				return
			}
		}
		logf("%s: %d wire bytes from client decode to the %d expected message(s)", when, len(s.out), len(expected))
	}
	back := newOutStack(alg) // harness -> client direction
	respond := func(step int, m proto.Message) {
		before := len(back.sink.buf)
		if err := back.encoder.Encode(m); err != nil {
			fail("INFRA: harness encode failed: %v", err)
		}
		if err := back.flusher.Flush(); err != nil {
			fail("INFRA: harness flush failed: %v", err)
		}
		chunk := back.sink.buf[before:]
		s.in = fragReader{data: chunk}
		if c.FragStep == step {
			if c.Cut > 0 && c.Cut < len(chunk) {
				s.in.bounds = []int{c.Cut}
			}
			s.in.maxChunk = c.Chunk
		}
		logf("response %d: %d wire bytes, bounds %v, chunk %d", step, len(chunk), s.in.bounds, s.in.maxChunk)
	}
	step := 0
	s.onEmpty = func() bool {
		defer func() { step++ }()
		switch {
		case step == 0:
			if len(s.out) != 1 || s.out[0] != byte(alg) {
				fail("compression handshake: client wrote % x", s.out)
				return false
			}
			s.in = fragReader{data: []byte{1}}
			return true
		case step == 1:
			checkWire("initialize request")
			respond(0, &remote.InitializeSynchronizationResponse{Error: initErr})
			return true
		case step == 2 && c.InitErr < 0 && c.Path > 0:
			expected = append(expected, &remote.EndpointRequest{Stage: &remote.StageRequest{Paths: []string{path}, Digests: [][]byte{digest}}})
			checkWire("stage request")
			if c.StageErr >= 0 {
				respond(1, &remote.StageResponse{Error: stageErr})
			} else {
				respond(1, &remote.StageResponse{Paths: []string{path}, Signatures: []*rsync.Signature{signature}})
			}
			return true
		default:
			// The client asks for more bytes than the complete, flushed response contained.
			return false
		}
	}

	logger := logging.NewLogger(logging.LevelDisabled, io.Discard)
	ep, err := remote.NewEndpoint(logger, s, root, "sess", synchronization.Version_Version1, configuration, true)
	logf("NewEndpoint: err=%v", shortErr(err))
	if problem != "" {
		return problem, trace
	}
	if s.dry > 0 {
		return fmt.Sprintf("client ran dry %d time(s) decoding the initialize response (needed more bytes than the flushed response): %v", s.dry, shortErr(err)), trace
	}
	if c.InitErr >= 0 {
		if err == nil || !strings.HasSuffix(err.Error(), initErr) || len(err.Error()) > len(initErr)+64 {
			return fmt.Sprintf("initialize response error string (%d bytes) not reported intact: %v", len(initErr), shortErr(err)), trace
		}
		return "", trace
	}
	if err != nil {
		return fmt.Sprintf("NewEndpoint failed on a successful (zero-length) response: %v", shortErr(err)), trace
	}
	defer ep.Shutdown()
	if c.Path == 0 {
		return "", trace
	}
	paths, sigs, receiver, err := ep.Stage([]string{path}, [][]byte{digest})
	logf("Stage: err=%v paths=%d sigs=%d", shortErr(err), len(paths), len(sigs))
	if problem != "" {
		return problem, trace
	}
	if s.dry > 0 {
		return fmt.Sprintf("client ran dry %d time(s) decoding the stage response: %v", s.dry, shortErr(err)), trace
	}
	if c.StageErr >= 0 {
		if err == nil || !strings.HasSuffix(err.Error(), stageErr) || len(err.Error()) > len(stageErr)+64 {
			return fmt.Sprintf("stage response error string (%d bytes) not reported intact: %v", len(stageErr), shortErr(err)), trace
		}
		return "", trace
	}
	if err != nil {
		return fmt.Sprintf("Stage failed on a valid response: %v", shortErr(err)), trace
	}
	if len(paths) != 1 || paths[0] != path || len(sigs) != 1 || !proto.Equal(sigs[0], signature) || receiver == nil {
		return "stage response decoded differently from what was sent", trace
	}
	// Forward transmissions through the client's receiver: several Encode calls,
	// one flush at finalization.
	var list []*rsync.Transmission
	for i, d := range c.Data {
		tr := &rsync.Transmission{Operation: &rsync.Operation{Data: makePayload(d, 20+i)}}
		if i == 0 {
			tr.ExpectedSize = 5
		}
		list = append(list, tr)
	}
	list = append(list, &rsync.Transmission{Done: true})
	for _, tr := range list {
		expected = append(expected, tr)
	}
	if err := rsync.DecodeToReceiver(&scriptedRsyncDecoder{list: list}, 1, receiver); err != nil {
		return fmt.Sprintf("forwarding transmissions through the client's receiver failed: %v", shortErr(err)), trace
	}
	checkWire("rsync transmissions after finalize")
	if problem != "" {
		return problem, trace
	}
	if s.dry > 0 {
		return "client read unexpectedly while forwarding", trace
	}
	return "", trace
}

// sameMessage is proto.Equal, except that for rsync transmissions an absent
// operation and a zero-valued one are the same thing (the receiver reuses the
// Operation allocation, see Transmission.resetToZeroMaintainingCapacity).
func sameMessage(got, want proto.Message) bool {
	g, ok1 := got.(*rsync.Transmission)
	w, ok2 := want.(*rsync.Transmission)
	if ok1 && ok2 {
		return g.ExpectedSize == w.ExpectedSize && g.Done == w.Done && g.Error == w.Error &&
			bytes.Equal(g.GetOperation().GetData(), w.GetOperation().GetData()) &&
			g.GetOperation().GetStart() == w.GetOperation().GetStart() && g.GetOperation().GetCount() == w.GetOperation().GetCount()
	}
	return proto.Equal(got, want)
}

func shortErr(err error) string {
	if err == nil {
		return "<nil>"
	}
	return vr.Short(err.Error(), 160)
}

// responseWire computes the wire bytes (and marks) of the response that will be
// fragmented in case c, by dry-running the harness outbound stack.
func responseWireLen(c clientCase) (int, []int) {
	back := newOutStack(algByName(c.Alg))
	enc := func(m proto.Message) (int, []int) {
		before := len(back.sink.buf)
		nw := len(back.sink.writes)
		back.encoder.Encode(m)
		back.flusher.Flush()
		var marks []int
		for _, w := range back.sink.writes[nw:] {
			marks = append(marks, w-before)
		}
		n := len(back.sink.buf) - before
		for m := 32 * 1024; m < n; m += 32 * 1024 {
			marks = append(marks, m)
		}
		return n, marks
	}
	initErr := ""
	if c.InitErr >= 0 {
		initErr = asciiPayload(c.InitErr, 12)
	}
	n, marks := enc(&remote.InitializeSynchronizationResponse{Error: initErr})
	if c.FragStep == 0 {
		return n, marks
	}
	if c.StageErr >= 0 {
		return enc(&remote.StageResponse{Error: asciiPayload(c.StageErr, 13)})
	}
	return enc(&remote.StageResponse{Paths: []string{asciiPayload(c.Path, 14)}, Signatures: []*rsync.Signature{{BlockSize: 1, LastBlockSize: 1, Hashes: []*rsync.BlockHash{{Weak: 7, Strong: makePayload(c.Sig, 16)}}}}})
}

func runClientLeg(r *vr.Report) {
	sizes := []int{1, 200, 70000}
	var cases []clientCase
	for _, a := range supportedAlgorithms() {
		// Set 1: outbound flush completeness, unfragmented responses.
		for _, root := range sizes {
			for _, ie := range sizes {
				cases = append(cases, clientCase{Alg: a.Name, Root: root, InitErr: ie, StageErr: -1})
			}
			for _, path := range sizes {
				for _, se := range sizes {
					cases = append(cases, clientCase{Alg: a.Name, Root: root, InitErr: -1, Path: path, StageErr: se})
				}
				for _, sig := range sizes {
					var seqs [][]int
					seqs = append(seqs, nil)
					for _, x := range sizes {
						seqs = append(seqs, []int{x})
						for _, y := range sizes {
							seqs = append(seqs, []int{x, y})
						}
					}
					for _, data := range seqs {
						cases = append(cases, clientCase{Alg: a.Name, Root: root, InitErr: -1, Path: path, StageErr: -1, Sig: sig, Data: data})
					}
				}
			}
		}
		// Set 2: inbound fragmentation under the client's real decoder stack.
		var shapes []clientCase
		for _, ie := range sizes {
			shapes = append(shapes, clientCase{Alg: a.Name, Root: 1, InitErr: ie, StageErr: -1, FragStep: 0})
		}
		shapes = append(shapes, clientCase{Alg: a.Name, Root: 1, InitErr: -1, Path: 1, StageErr: 1, FragStep: 0}) // fragment the zero-length message
		for _, se := range sizes {
			shapes = append(shapes, clientCase{Alg: a.Name, Root: 1, InitErr: -1, Path: 1, StageErr: se, FragStep: 1})
		}
		for _, sig := range sizes {
			shapes = append(shapes, clientCase{Alg: a.Name, Root: 1, InitErr: -1, Path: 1, StageErr: -1, Sig: sig, FragStep: 1})
		}
		for _, sh := range shapes {
			n, marks := responseWireLen(sh)
			stride := 8191
			if vr.Thorough() {
				stride = 1021
			}
			for _, cut := range cutSet(n, marks, stride, 3, 1024) {
				if cut <= 0 || cut >= n {
					continue
				}
				c := sh
				c.Cut = cut
				cases = append(cases, c)
			}
			c := sh
			c.Chunk = 1
			cases = append(cases, c)
		}
	}
	r.Set("client_cases", len(cases))
	r.Set("client_rule", "leg B: real remote.NewEndpoint + Stage + returned rsync receiver over a scripted stream; root/path+digest/signature/error-string sizes {1,200,70000}, 0..2 forwarded data transmissions of those sizes + Done (one flush for all); at every point where the client blocks in Read all messages it has sent so far must decode from the bytes it has put on the wire; responses (incl. the zero-length initialize response) are delivered whole, one byte per Read, and split at every cut (exhaustive <= 1024 bytes, else stride + marks +-3)")
	vr.Parallel(len(cases), func(i int) {
		c := cases[i]
		what, _ := runClientCase(c)
		key := vr.J(c22replay{Client: &c})
		r.Case(key, true)
		if what != "" {
			r.Outcome("client:violation")
			r.Violate(key, what, c22replay{Client: &c}, func() bool { w, _ := runClientCase(c); return w != "" })
			return
		}
		switch {
		case c.InitErr >= 0:
			r.Outcome("client:init-error-reported")
		case c.StageErr >= 0:
			r.Outcome("client:stage-error-reported")
		default:
			r.Outcome("client:staged-and-forwarded")
		}
	})
	r.Sample(c22replay{Client: &clientCase{Alg: "deflate", Root: 200, InitErr: -1, Path: 70000, StageErr: -1, Sig: 1, Data: []int{70000, 1}}})
}
