//go:build verif

package wire

import (
	"bytes"
	"context"
	"encoding/json"
	"errors"
	"fmt"
	"io"
	"net"
	"os"
	"strings"
	"sync"
	"sync/atomic"
	"testing"
	"testing/synctest"
	"time"

	"github.com/mutagen-io/mutagen/pkg/forwarding"
	"github.com/mutagen-io/mutagen/pkg/logging"
	"github.com/mutagen-io/mutagen/pkg/selection"
	urlpkg "github.com/mutagen-io/mutagen/pkg/url"

	"verif/internal/vr"
)

// ---------------------------------------------------------------------------
// Harness connections. The relay (ForwardAndClose) holds one end (*hconn, a
// net.Conn with CloseWrite); the other end - the "peer" - is the harness
// itself, which mutates the shared state under the world lock. All blocking is
// on a sync.Cond, which is durably blocking inside a synctest bubble.
// ---------------------------------------------------------------------------

var errReset = errors.New("harness: connection reset by peer")

type fworld struct {
	mu   sync.Mutex
	cond *sync.Cond
}

func newFworld() *fworld {
	w := &fworld{}
	w.cond = sync.NewCond(&w.mu)
	return w
}

type hconn struct {
	w    *fworld
	name string
	cap  int // max bytes written by the relay and not yet consumed by the peer (0: unbounded)

	// peer -> relay
	sent   []byte // every byte the peer has sent, in order
	rd     int    // relay's read offset into sent
	hc     bool   // peer half-closed (relay reads EOF after the data)
	failed bool   // peer reset the connection: reads and writes fail

	// relay -> peer
	outbox     []byte // every byte the relay has written
	peerRead   int    // how much of outbox the peer has consumed (bounded mode)
	outEOF     bool   // relay called CloseWrite
	outEOFAt   int    // len(outbox) at that moment
	closed     int    // number of Close calls by the relay
	sawError   bool   // the relay was handed errReset by Read or Write (while not closed)
	writeAfter bool   // the relay wrote after its own CloseWrite
	pendingN   int    // bytes accepted so far by a Write call that has not returned yet
}

func (c *hconn) Read(p []byte) (int, error) {
	c.w.mu.Lock()
	defer c.w.mu.Unlock()
	for {
		switch {
		case c.closed > 0:
			return 0, net.ErrClosed
		case c.failed:
			c.sawError = true
			return 0, errReset
		case c.rd < len(c.sent):
			n := copy(p, c.sent[c.rd:])
			c.rd += n
			return n, nil
		case c.hc:
			return 0, io.EOF
		}
		c.w.cond.Wait()
	}
}

func (c *hconn) Write(p []byte) (int, error) {
	c.w.mu.Lock()
	defer c.w.mu.Unlock()
	defer func() { c.pendingN = 0 }()
	n := 0
	for {
		switch {
		case c.closed > 0:
			return n, net.ErrClosed
		case c.failed:
			c.sawError = true
			return n, errReset
		case c.outEOF:
			c.writeAfter = true
			return n, errors.New("harness: write after CloseWrite")
		}
		room := len(p) - n
		if c.cap > 0 {
			if free := c.cap - (len(c.outbox) - c.peerRead); free < room {
				room = free
			}
		}
		if room > 0 {
			c.outbox = append(c.outbox, p[n:n+room]...)
			n += room
			c.pendingN = n
		}
		if n == len(p) {
			return n, nil
		}
		c.w.cond.Wait()
	}
}

func (c *hconn) CloseWrite() error {
	c.w.mu.Lock()
	defer c.w.mu.Unlock()
	if c.closed > 0 {
		return net.ErrClosed
	}
	if !c.outEOF {
		c.outEOF = true
		c.outEOFAt = len(c.outbox)
	}
	return nil
}

func (c *hconn) Close() error {
	c.w.mu.Lock()
	c.closed++
	c.w.cond.Broadcast()
	c.w.mu.Unlock()
	return nil
}

type haddr string

func (a haddr) Network() string { return "harness" }
func (a haddr) String() string  { return string(a) }

func (c *hconn) LocalAddr() net.Addr                { return haddr(c.name) }
func (c *hconn) RemoteAddr() net.Addr               { return haddr(c.name + "-peer") }
func (c *hconn) SetDeadline(t time.Time) error      { return nil }
func (c *hconn) SetReadDeadline(t time.Time) error  { return nil }
func (c *hconn) SetWriteDeadline(t time.Time) error { return nil }

func (c *hconn) unread() int { return len(c.outbox) - c.peerRead }

// pair is one forwarded connection: A is the incoming (source side) connection,
// B the outgoing (destination side) one.
type pair struct {
	A, B *hconn
	k    int
}

func newPair(w *fworld, k, capacity int) *pair {
	return &pair{
		k: k,
		A: &hconn{w: w, name: fmt.Sprintf("A%d", k), cap: capacity},
		B: &hconn{w: w, name: fmt.Sprintf("B%d", k), cap: capacity},
	}
}

func (p *pair) side(s string) *hconn {
	if s == "A" {
		return p.A
	}
	return p.B
}

// fevent is one harness event. Joined means: applied atomically together with
// the previous event, i.e. the relay gets no chance to run in between.
type fevent struct {
	Op     string // accept, send, hc, fail, drain, cancel, pause, epfail
	K      int    `json:",omitempty"`
	Side   string `json:",omitempty"`
	N      int    `json:",omitempty"`
	Joined bool   `json:",omitempty"`
}

func (e fevent) String() string {
	s := e.Op
	if e.Op == "accept" && e.N > 1 {
		s += fmt.Sprintf("*%d", e.N)
	}
	if e.Side != "" {
		s += fmt.Sprintf("(%d%s", e.K, e.Side)
		if e.N > 0 {
			s += fmt.Sprintf(",%d", e.N)
		}
		s += ")"
	}
	if e.Joined {
		s = "+" + s
	}
	return s
}

// apply performs a peer-side event on the pair. Caller holds the world lock.
func (p *pair) apply(e fevent) {
	c := p.side(e.Side)
	switch e.Op {
	case "send":
		for i := 0; i < e.N; i++ {
			// Position-stamped and distinct per connection and side.
			b := byte(len(c.sent)&0x1f) | byte(p.k&3)<<5
			if e.Side == "B" {
				b |= 0x80
			}
			c.sent = append(c.sent, b)
		}
	case "hc":
		c.hc = true
	case "fail":
		c.failed = true
	case "drain":
		c.peerRead = len(c.outbox)
	}
}

// enabled lists the peer-side events currently possible on the pair (from harness-
// visible state only).
func (p *pair) enabled(k int, sizes []int) []fevent {
	var out []fevent
	if p.A.closed > 0 && p.B.closed > 0 {
		return nil // the relay has closed both ends: the peers are gone
	}
	for _, s := range []string{"A", "B"} {
		c := p.side(s)
		if !c.hc && !c.failed {
			for _, n := range sizes {
				out = append(out, fevent{Op: "send", K: k, Side: s, N: n})
			}
			out = append(out, fevent{Op: "hc", K: k, Side: s})
		}
		if !c.failed {
			out = append(out, fevent{Op: "fail", K: k, Side: s})
		}
		if c.cap > 0 && c.unread() > 0 {
			out = append(out, fevent{Op: "drain", K: k, Side: s})
		}
	}
	return out
}

// expectClosed: "Both connections are closed once both directions finish, either
// direction fails, or forwarding is cancelled."
func (p *pair) expectClosed(cancelled bool) bool {
	finAB := p.A.hc && len(p.B.outbox) == len(p.A.sent)
	finBA := p.B.hc && len(p.A.outbox) == len(p.B.sent)
	return cancelled || p.A.sawError || p.B.sawError || (finAB && finBA)
}

// check is the per-connection oracle, evaluated at quiescence (world lock held).
func (p *pair) check(k int, cancelled bool) string {
	type dir struct {
		name     string
		src, dst *hconn
	}
	disturbed := cancelled || p.A.failed || p.B.failed
	for _, d := range []dir{{"source->destination", p.A, p.B}, {"destination->source", p.B, p.A}} {
		// "delivers, in each direction, exactly the bytes sent by the other side"
		if !bytes.HasPrefix(d.src.sent, d.dst.outbox) {
			return fmt.Sprintf("conn %d %s: bytes out % x are not a prefix of bytes in % x", k, d.name, d.dst.outbox, d.src.sent)
		}
		// "followed by a half-close when that side half-closed": never a half-close that the
		// sender did not perform, never before all its data.
		if d.dst.outEOF && (!d.src.hc || d.dst.outEOFAt != len(d.src.sent)) {
			return fmt.Sprintf("conn %d %s: half-close propagated after %d of %d bytes (sender half-closed: %v)", k, d.name, d.dst.outEOFAt, len(d.src.sent), d.src.hc)
		}
		if d.dst.writeAfter {
			return fmt.Sprintf("conn %d %s: data written after the half-close was propagated", k, d.name)
		}
	}
	closedA, closedB := p.A.closed > 0, p.B.closed > 0
	if p.expectClosed(cancelled) {
		if !closedA || !closedB {
			return fmt.Sprintf("conn %d: both directions finished / a direction failed / forwarding cancelled, but closed(A)=%v closed(B)=%v", k, closedA, closedB)
		}
		return ""
	}
	if closedA || closedB {
		return fmt.Sprintf("conn %d: closed(A)=%v closed(B)=%v although neither both directions finished nor a direction failed nor forwarding was cancelled", k, closedA, closedB)
	}
	// The connection is up and nothing can run any more: everything sent must have arrived,
	// unless the relay is legitimately blocked on a full (bounded) receiver.
	for _, d := range []dir{{"source->destination", p.A, p.B}, {"destination->source", p.B, p.A}} {
		if d.src.failed {
			continue // a reset may discard what was in flight (latent failure: relay not told yet)
		}
		all := len(d.dst.outbox) == len(d.src.sent)
		if !all && !(d.dst.cap > 0 && d.dst.unread() == d.dst.cap) {
			return fmt.Sprintf("conn %d %s: only %d of %d bytes delivered at quiescence", k, d.name, len(d.dst.outbox), len(d.src.sent))
		}
		if all && d.src.hc && !d.dst.outEOF && !disturbed {
			return fmt.Sprintf("conn %d %s: sender half-closed and all %d bytes arrived, but the half-close was not propagated", k, d.name, len(d.src.sent))
		}
	}
	return ""
}

// ---------------------------------------------------------------------------
// Leg R: forwarding.ForwardAndClose driven directly, one bubble per history.
// ---------------------------------------------------------------------------

type c33case struct {
	Leg    string // relay, manager
	Cap    int    `json:",omitempty"`
	Events []fevent
}

type fresult struct {
	what    string
	enabled []fevent
	class   string
	trace   []string
}

func runRelay(t *testing.T, c c33case, sizes []int, verbose bool) (res fresult) {
	synctest.Test(t, func(t *testing.T) {
		w := newFworld()
		p := newPair(w, 0, c.Cap)
		var audA, audB uint64 // bytes written to A / to B, as reported to the auditors
		ctx, cancel := context.WithCancel(context.Background())
		returned := false
		go func() {
			forwarding.ForwardAndClose(ctx, p.A, p.B,
				func(n uint64) { atomic.AddUint64(&audA, n) },
				func(n uint64) { atomic.AddUint64(&audB, n) })
			w.mu.Lock()
			returned = true
			w.mu.Unlock()
		}()
		cancelled := false
		judge := func(step string) bool {
			synctest.Wait()
			w.mu.Lock()
			defer w.mu.Unlock()
			what := p.check(0, cancelled)
			if what == "" && returned != p.expectClosed(cancelled) {
				what = fmt.Sprintf("ForwardAndClose returned=%v but termination condition=%v", returned, p.expectClosed(cancelled))
			}
			// Auditors are told about a write when it returns: bytes of a Write call that is
			// still blocked (bounded receiver) are not yet due.
			if what == "" && (atomic.LoadUint64(&audA) != uint64(len(p.A.outbox)-p.A.pendingN) || atomic.LoadUint64(&audB) != uint64(len(p.B.outbox)-p.B.pendingN)) {
				what = fmt.Sprintf("auditors saw %d/%d bytes, connections received %d/%d (of which %d/%d in writes still blocked)", audA, audB, len(p.A.outbox), len(p.B.outbox), p.A.pendingN, p.B.pendingN)
			}
			if verbose {
				res.trace = append(res.trace, fmt.Sprintf("%-12s A{sent %d rd %d hc %v fail %v | got %d eof %v closed %d err %v} B{sent %d rd %d hc %v fail %v | got %d eof %v closed %d err %v} returned %v",
					step, len(p.A.sent), p.A.rd, p.A.hc, p.A.failed, len(p.A.outbox), p.A.outEOF, p.A.closed, p.A.sawError,
					len(p.B.sent), p.B.rd, p.B.hc, p.B.failed, len(p.B.outbox), p.B.outEOF, p.B.closed, p.B.sawError, returned))
			}
			if what != "" {
				res.what = "after " + step + ": " + what
				return false
			}
			return true
		}
		ok := judge("start")
		for i := 0; ok && i < len(c.Events); {
			// Apply a maximal run of joined events atomically.
			w.mu.Lock()
			j := i
			var names []string
			for {
				e := c.Events[j]
				if e.Op == "cancel" {
					cancelled = true
					cancel()
				} else {
					p.apply(e)
				}
				names = append(names, e.String())
				j++
				if j >= len(c.Events) || !c.Events[j].Joined {
					break
				}
			}
			w.cond.Broadcast()
			w.mu.Unlock()
			i = j
			ok = judge(strings.Join(names, ""))
		}
		if ok {
			w.mu.Lock()
			res.enabled = p.enabled(0, sizes)
			if !cancelled && !(p.A.closed > 0 && p.B.closed > 0) {
				res.enabled = append(res.enabled, fevent{Op: "cancel"})
			}
			// Outcome class from harness-side facts only (what the relay did inside one
			// quiescence step under joined events is scheduler dependent and not part of it).
			res.class = fmt.Sprintf("closed=%v cancelled=%v failed=%v hcA=%v hcB=%v", p.expectClosed(cancelled), cancelled, p.A.failed || p.B.failed, p.A.hc, p.B.hc)
			w.mu.Unlock()
		}
		// Teardown: cancellation must end the relay whatever state it is in.
		cancel()
		cancelled = true
		if ok {
			judge("teardown-cancel")
		}
		// Make sure nothing stays blocked so that the bubble can end.
		p.A.Close()
		p.B.Close()
		synctest.Wait()
	})
	return res
}

// ---------------------------------------------------------------------------
// Leg M: the real forwarding.Manager / controller with fake protocol handler
// and endpoints. One long-lived bubble (and Manager) per worker; every history
// creates and terminates its own session.
// ---------------------------------------------------------------------------

type fakeEndpoint struct {
	gate  sync.Mutex // held by the harness while it queues a burst of connections
	queue chan net.Conn
	shut  chan struct{}
	fail  chan struct{}
	once  sync.Once
}

func newFakeEndpoint() *fakeEndpoint {
	return &fakeEndpoint{queue: make(chan net.Conn, 4), shut: make(chan struct{}), fail: make(chan struct{})}
}

func (e *fakeEndpoint) TransportErrors() <-chan error { return nil }
func (e *fakeEndpoint) Open() (net.Conn, error) {
	select {
	case c := <-e.queue:
		// A burst becomes visible only as a whole: all its connections are pending at
		// the listener by the time the first one is handed out.
		e.gate.Lock()
		e.gate.Unlock()
		return c, nil
	case <-e.shut:
		return nil, errors.New("harness: endpoint shut down")
	case <-e.fail:
		return nil, errors.New("harness: listener failed")
	}
}
func (e *fakeEndpoint) Shutdown() error {
	e.once.Do(func() { close(e.shut) })
	return nil
}

// mscenario is the per-history world the fake protocol handler connects to.
type mscenario struct {
	source, destination *fakeEndpoint
	connects            int
	dead                bool
}

var (
	scenarioMu sync.Mutex
	scenarios  = map[string]*mscenario{}
)

type fakeHandler struct{}

func (fakeHandler) Connect(_ context.Context, _ *logging.Logger, u *urlpkg.URL, _ string, _ string, _ forwarding.Version, _ *forwarding.Configuration, source bool) (forwarding.Endpoint, error) {
	scenarioMu.Lock()
	defer scenarioMu.Unlock()
	s := scenarios[u.Path]
	if s == nil || s.dead {
		return nil, errors.New("harness: endpoint unavailable")
	}
	s.connects++
	if source {
		return s.source, nil
	}
	return s.destination, nil
}

type managerWorker struct {
	t       *testing.T
	manager *forwarding.Manager
	id      int
	seq     int
}

func (mw *managerWorker) run(c c33case, verbose bool) (res fresult) {
	mw.seq++
	name := fmt.Sprintf("tcp:w%d-%d", mw.id, mw.seq)
	sc := &mscenario{source: newFakeEndpoint(), destination: newFakeEndpoint()}
	scenarioMu.Lock()
	scenarios[name] = sc
	scenarioMu.Unlock()
	defer func() {
		scenarioMu.Lock()
		delete(scenarios, name)
		scenarioMu.Unlock()
	}()
	ctx := context.Background()
	mk := func(path string) *urlpkg.URL {
		return &urlpkg.URL{Kind: urlpkg.Kind_Forwarding, Protocol: urlpkg.Protocol_Local, Path: path}
	}
	id, err := mw.manager.Create(ctx, mk(name), mk(name), &forwarding.Configuration{}, &forwarding.Configuration{}, &forwarding.Configuration{}, "", nil, false, "")
	if err != nil {
		res.what = "INFRA: Manager.Create failed: " + err.Error()
		return
	}
	sel := &selection.Selection{Specifications: []string{id}}
	w := newFworld()
	var pairs []*pair
	cancelled := false // session paused or listener failed: forwarding cancelled for all connections
	judge := func(step string) bool {
		synctest.Wait()
		_, states, err := mw.manager.List(ctx, sel, 0)
		if err != nil || len(states) != 1 {
			res.what = fmt.Sprintf("INFRA: Manager.List: %v (%d states)", err, len(states))
			return false
		}
		st := states[0]
		w.mu.Lock()
		defer w.mu.Unlock()
		var what string
		var open, outbound, inbound uint64
		for k, p := range pairs {
			if what == "" {
				what = p.check(k, cancelled)
			}
			if !p.expectClosed(cancelled) {
				open++
			}
			outbound += uint64(len(p.B.outbox))
			inbound += uint64(len(p.A.outbox))
		}
		if verbose {
			res.trace = append(res.trace, fmt.Sprintf("%-14s status=%v open=%d total=%d outbound=%d inbound=%d lastError=%q", step, st.Status, st.OpenConnections, st.TotalConnections, st.TotalOutboundData, st.TotalInboundData, st.LastError))
			for k, p := range pairs {
				res.trace = append(res.trace, fmt.Sprintf("   conn %d A{sent %d hc %v fail %v | got %d eof %v closed %d err %v} B{sent %d hc %v fail %v | got %d eof %v closed %d err %v}", k,
					len(p.A.sent), p.A.hc, p.A.failed, len(p.A.outbox), p.A.outEOF, p.A.closed, p.A.sawError,
					len(p.B.sent), p.B.hc, p.B.failed, len(p.B.outbox), p.B.outEOF, p.B.closed, p.B.sawError))
			}
		}
		// "Session statistics count every connection and forwarded byte, and the
		// open-connection count returns to zero." The statistics belong to the running
		// forwarding loop; they are compared while it runs.
		if what == "" && !cancelled {
			switch {
			case st.Status != forwarding.Status_ForwardingConnections:
				what = fmt.Sprintf("session not forwarding: status %v, last error %q", st.Status, st.LastError)
			case st.TotalConnections != uint64(len(pairs)):
				what = fmt.Sprintf("TotalConnections=%d, connections accepted=%d", st.TotalConnections, len(pairs))
			case st.OpenConnections != open:
				what = fmt.Sprintf("OpenConnections=%d, connections still up=%d", st.OpenConnections, open)
			case st.TotalOutboundData != outbound:
				what = fmt.Sprintf("TotalOutboundData=%d, bytes delivered to destination-side connections=%d", st.TotalOutboundData, outbound)
			case st.TotalInboundData != inbound:
				what = fmt.Sprintf("TotalInboundData=%d, bytes delivered to source-side connections=%d", st.TotalInboundData, inbound)
			}
		}
		if what == "" && cancelled && st.OpenConnections != 0 {
			what = fmt.Sprintf("OpenConnections=%d after forwarding was cancelled", st.OpenConnections)
		}
		if what != "" {
			res.what = "after " + step + ": " + what
			return false
		}
		return true
	}
	ok := judge("create")
	for i := 0; ok && i < len(c.Events); {
		w.mu.Lock()
		j := i
		var names []string
		var after []func()
		for {
			e := c.Events[j]
			switch e.Op {
			case "accept":
				// N > 1: a burst - N connections are pending at the source before the
				// controller's accept loop gets to run again.
				n := e.N
				if n < 1 {
					n = 1
				}
				sc.source.gate.Lock()
				for i := 0; i < n; i++ {
					p := newPair(w, len(pairs), 0)
					pairs = append(pairs, p)
					// The dialled connection must be available before the listener yields.
					sc.destination.queue <- p.B
					sc.source.queue <- p.A
				}
				sc.source.gate.Unlock()
			case "pause":
				cancelled = true
				after = append(after, func() {
					if err := mw.manager.Pause(ctx, sel, ""); err != nil {
						res.what = "INFRA: Manager.Pause failed: " + err.Error()
					}
				})
			case "epfail":
				cancelled = true
				scenarioMu.Lock()
				sc.dead = true
				scenarioMu.Unlock()
				close(sc.source.fail)
			default:
				pairs[e.K].apply(e)
			}
			names = append(names, e.String())
			j++
			if j >= len(c.Events) || !c.Events[j].Joined {
				break
			}
		}
		w.cond.Broadcast()
		w.mu.Unlock()
		for _, f := range after {
			f()
		}
		i = j
		if res.what != "" {
			ok = false
			break
		}
		ok = judge(strings.Join(names, ""))
	}
	if ok {
		w.mu.Lock()
		if !cancelled {
			if len(pairs) < 2 {
				res.enabled = append(res.enabled, fevent{Op: "accept"})
			}
			for n := 2; len(pairs)+n <= 3; n++ {
				res.enabled = append(res.enabled, fevent{Op: "accept", N: n})
			}
			for k, p := range pairs {
				res.enabled = append(res.enabled, p.enabled(k, []int{1 + (len(p.A.sent)+len(p.B.sent))%3})...)
			}
			res.enabled = append(res.enabled, fevent{Op: "pause"}, fevent{Op: "epfail"})
		}
		nclosed := 0
		for _, p := range pairs {
			if p.A.closed > 0 && p.B.closed > 0 {
				nclosed++
			}
		}
		res.class = fmt.Sprintf("conns=%d closed=%d cancelled=%v", len(pairs), nclosed, cancelled)
		w.mu.Unlock()
	}
	// Teardown: terminating the session cancels forwarding: every connection must end up closed.
	if err := mw.manager.Terminate(ctx, sel, ""); err != nil && res.what == "" {
		res.what = "INFRA: Manager.Terminate failed: " + err.Error()
	}
	synctest.Wait()
	w.mu.Lock()
	for k, p := range pairs {
		if (p.A.closed == 0 || p.B.closed == 0) && res.what == "" {
			res.what = fmt.Sprintf("after terminate: conn %d not closed (A %d, B %d) although forwarding was cancelled", k, p.A.closed, p.B.closed)
		}
		// Never leave a relay goroutine behind in the long-lived bubble.
		p.A.closed++
		p.B.closed++
	}
	w.cond.Broadcast()
	w.mu.Unlock()
	synctest.Wait()
	return res
}

// ---------------------------------------------------------------------------
// Exploration
// ---------------------------------------------------------------------------

// withJoined doubles the menu: every event except the first of a history may
// also be applied atomically with its predecessor.
func withJoined(menu []fevent, allow bool) []fevent {
	if !allow {
		return menu
	}
	out := append([]fevent{}, menu...)
	for _, e := range menu {
		if e.Op == "accept" || e.Op == "pause" || e.Op == "epfail" {
			continue // these go through API calls / the accept loop; they are not peer actions
		}
		e.Joined = true
		out = append(out, e)
	}
	return out
}

// infraProblem records a harness/infrastructure failure (never reported as a violation).
var infraProblem atomic.Pointer[string]

type explorer struct {
	r        *vr.Report
	run      func(c c33case) fresult
	leg      string
	cap      int
	depth    int
	joined   bool
	expired  *atomic.Bool // set by a real-time timer outside any bubble
	capped   atomic.Bool
}

// dfs explores every history below prefix (prefix itself has been run by the
// caller and had the given enabled set).
func (x *explorer) dfs(l *vr.Local, prefix []fevent, enabled []fevent) {
	// Depth counts connections for bursts: accept*N costs N.
	cost := 0
	for _, e := range prefix {
		if e.Op == "accept" && e.N > 1 {
			cost += e.N
		} else {
			cost++
		}
	}
	if cost >= x.depth {
		return
	}
	if x.expired.Load() {
		x.capped.Store(true)
		return
	}
	for _, e := range withJoined(enabled, x.joined && len(prefix) > 0) {
		h := append(append([]fevent{}, prefix...), e)
		en := x.visit(l, h)
		if en != nil {
			x.dfs(l, h, en)
		}
	}
}

// visit runs one history; returns its enabled set (nil on violation).
func (x *explorer) visit(l *vr.Local, h []fevent) []fevent {
	c := c33case{Leg: x.leg, Cap: x.cap, Events: h}
	res := x.run(c)
	key := vr.J(c)
	l.Case(key, len(h) > 0)
	x.r.Add("transitions_"+x.leg, 1)
	if res.what != "" {
		l.Outcome(x.leg + ":violation")
		if strings.HasPrefix(res.what, "INFRA") {
			infraProblem.CompareAndSwap(nil, &res.what)
			return nil
		}
		x.r.Violate(key, res.what, c, func() bool { return x.run(c).what != "" })
		return nil
	}
	l.Outcome(x.leg + ":" + res.class)
	if res.enabled == nil {
		return []fevent{}
	}
	return res.enabled
}

func TestC33(t *testing.T) {
	r := vr.New(t, "C33", "exploration")
	defer r.Finish()
	relaySizes := []int{1, 2, 3}

	dataDir, err := os.MkdirTemp("", "verif-c33-")
	if err != nil {
		t.Fatalf("INFRA: %v", err)
	}
	defer os.RemoveAll(dataDir)
	os.Setenv("MUTAGEN_DATA_DIRECTORY", dataDir)
	forwarding.ProtocolHandlers[urlpkg.Protocol_Local] = fakeHandler{}

	// startManagerWorkers starts n long-lived bubbles, each with its own Manager (all
	// created before any session exists, so that no Manager loads another's sessions),
	// feeds them jobs and returns a submit/stop pair.
	type job struct {
		fn   func(mw *managerWorker)
		done chan struct{}
	}
	startManagerWorkers := func(n int) (submit func(i int, fn func(mw *managerWorker)), stop func()) {
		jobs := make([]chan job, n)
		var wg sync.WaitGroup
		ready := make(chan error)
		for i := 0; i < n; i++ {
			jobs[i] = make(chan job)
			wg.Add(1)
			go func(i int) {
				defer wg.Done()
				defer func() {
					if x := recover(); x != nil {
						// synctest reports goroutines left blocked in the bubble as a panic.
						r.Violate(fmt.Sprintf("manager-worker-%d-bubble", i), fmt.Sprintf("bubble ended abnormally (leaked goroutine?): %v", x), nil, nil)
						for j := range jobs[i] {
							close(j.done)
						}
					}
				}()
				synctest.Test(t, func(t *testing.T) {
					m, err := forwarding.NewManager(logging.NewLogger(logging.LevelDisabled, io.Discard))
					ready <- err
					if err != nil {
						return
					}
					mw := &managerWorker{t: t, manager: m, id: i}
					for j := range jobs[i] {
						j.fn(mw)
						close(j.done)
					}
					m.Shutdown()
					synctest.Wait()
				})
			}(i)
			if err := <-ready; err != nil {
				t.Fatalf("INFRA: NewManager: %v", err)
			}
		}
		submit = func(i int, fn func(mw *managerWorker)) {
			j := job{fn: fn, done: make(chan struct{})}
			jobs[i] <- j
			<-j.done
		}
		stop = func() {
			for i := range jobs {
				close(jobs[i])
			}
			wg.Wait()
		}
		return
	}

	if raw := vr.ReplayCase(); raw != nil {
		var c c33case
		if err := json.Unmarshal(raw, &c); err != nil {
			t.Fatalf("INFRA: replay case does not parse: %v", err)
		}
		var res fresult
		if c.Leg == "manager" {
			submit, stop := startManagerWorkers(1)
			submit(0, func(mw *managerWorker) { res = mw.run(c, true) })
			stop()
		} else {
			res = runRelay(t, c, relaySizes, true)
		}
		t.Logf("replay %s\n%s\nverdict: %q", vr.J(c), strings.Join(res.trace, "\n"), res.what)
		r.Case(vr.J(c), true)
		if res.what != "" {
			r.Violate(vr.J(c), res.what, c, nil)
		}
		return
	}

	relayDepth, relayJoinedDepth, boundedDepth, managerDepth := 5, 4, 4, 5
	if vr.Thorough() {
		relayDepth, relayJoinedDepth, boundedDepth, managerDepth = 7, 5, 6, 7
	}
	expired := &atomic.Bool{}
	timer := time.AfterFunc(time.Until(vr.Deadline(45*time.Second, 8*time.Minute)), func() { expired.Store(true) })
	defer timer.Stop()
	r.Rule(fmt.Sprintf("E-bubble (testing/synctest), every event followed by quiescence and the oracle. "+
		"Leg R: real forwarding.ForwardAndClose on one harness connection pair; events send(side,1..3 bytes), half-close(side), fail(side), cancel; all histories to depth %d with unbounded receivers; to depth %d where additionally every event may be joined atomically to its predecessor (no quiescence in between); to depth %d with receivers bounded to 1 unread byte plus drain(side) events (relay blocked in Write). "+
		"Leg M: real forwarding.Manager/controller with a fake protocol handler and endpoints; <=2 connections accepted one at a time or <=3 with bursts; events accept, accept*2 / accept*3 (a burst: that many connections pending at the source before the accept loop runs again), send(k,side) (sizes cycle 1,2,3), half-close(k,side), fail(k,side), pause, listener failure; all histories to depth %d (a burst of N counts N); counters read through Manager.List after every event; every session is terminated at the end and all its connections must be closed. "+
		"non-trivial = history with at least one event; distinct by (leg, bound, event list)", relayDepth, relayJoinedDepth, boundedDepth, managerDepth))
	r.Assume("connections are harness net.Conn implementations with CloseWrite; a peer failure is a reset: the relay's next Read or Write on that connection fails and unread in-flight bytes may be lost",
		"goroutine interleavings inside one quiescence step are not enumerated (owned by the Go scheduler); joined events cover peer actions that land before the relay reacts",
		"statistics are compared while the forwarding loop runs; the controller replaces its State when the loop ends (pause/termination/listener failure), so after cancellation only OpenConnections==0 is demanded",
		"payload bytes are position-stamped (distinct per offset, side and connection), sizes 1..3; at most 3 concurrent connections")

	// ---- leg R ----
	relayLeg := func(name string, capacity, depth int, joined bool) {
		x := &explorer{r: r, leg: "relay", cap: capacity, depth: depth, joined: joined, expired: expired}
		x.run = func(c c33case) fresult { return runRelay(t, c, relaySizes, false) }
		l0 := r.Local()
		root := x.visit(l0, nil)
		// Shard on depth-2 prefixes.
		type node struct {
			h  []fevent
			en []fevent
		}
		var level []node
		for _, e := range root {
			h := []fevent{e}
			if en := x.visit(l0, h); en != nil && depth > 1 {
				for _, e2 := range withJoined(en, joined) {
					h2 := []fevent{e, e2}
					if en2 := x.visit(l0, h2); en2 != nil {
						level = append(level, node{h2, en2})
					}
				}
			}
		}
		l0.Flush()
		vr.Parallel(len(level), func(i int) {
			l := r.Local()
			defer l.Flush()
			x.dfs(l, level[i].h, level[i].en)
		})
		if x.capped.Load() {
			r.NotExhaustive("time budget reached in relay leg " + name)
		}
	}
	relayLeg("unbounded", 0, relayDepth, false)
	relayLeg("joined", 0, relayJoinedDepth, true)
	relayLeg("bounded", 1, boundedDepth, false)

	// ---- leg M ----
	{
		nw := vr.Workers()
		submit, stop := startManagerWorkers(nw)
		x := &explorer{r: r, leg: "manager", depth: managerDepth, expired: expired}
		type node struct {
			h  []fevent
			en []fevent
		}
		var level []node
		submit(0, func(mw *managerWorker) {
			x.run = func(c c33case) fresult { return mw.run(c, false) }
			l0 := r.Local()
			defer l0.Flush()
			root := x.visit(l0, nil)
			for _, e := range root {
				h := []fevent{e}
				if en := x.visit(l0, h); en != nil {
					for _, e2 := range en {
						h2 := []fevent{e, e2}
						if en2 := x.visit(l0, h2); en2 != nil {
							level = append(level, node{h2, en2})
						}
					}
				}
			}
		})
		var next atomic.Int64
		var wg sync.WaitGroup
		for wi := 0; wi < nw; wi++ {
			wg.Add(1)
			go func(wi int) {
				defer wg.Done()
				submit(wi, func(mw *managerWorker) {
					xx := &explorer{r: r, leg: "manager", depth: managerDepth, expired: expired}
					xx.run = func(c c33case) fresult { return mw.run(c, false) }
					l := r.Local()
					defer l.Flush()
					for {
						i := int(next.Add(1)) - 1
						if i >= len(level) {
							break
						}
						xx.dfs(l, level[i].h, level[i].en)
					}
					if xx.capped.Load() {
						x.capped.Store(true)
					}
				})
			}(wi)
		}
		wg.Wait()
		stop()
		if x.capped.Load() {
			r.NotExhaustive("time budget reached in manager leg")
		}
	}
	if p := infraProblem.Load(); p != nil {
		t.Errorf("%s", *p)
	}
	r.Sample(c33case{Leg: "relay", Events: []fevent{{Op: "send", Side: "A", N: 2}, {Op: "hc", Side: "A"}, {Op: "send", Side: "B", N: 3}, {Op: "hc", Side: "B"}}})
	r.Sample(c33case{Leg: "relay", Cap: 1, Events: []fevent{{Op: "send", Side: "A", N: 3}, {Op: "fail", Side: "B"}}})
	r.Sample(c33case{Leg: "manager", Events: []fevent{{Op: "accept"}, {Op: "send", K: 0, Side: "A", N: 1}, {Op: "accept"}, {Op: "hc", K: 1, Side: "B"}, {Op: "pause"}}})
}
