//go:build verif

// Package wire holds the bounded-exhaustive checks for the wire-level
// properties: C34 (magic-number and version handshakes), C22 (control-stream
// framing) and C33 (forwarded connections relay exactly).
package wire

import (
	"bytes"
	"encoding/binary"
	"encoding/json"
	"errors"
	"fmt"
	"io"
	"sort"
	"sync"
	"testing"

	"github.com/mutagen-io/mutagen/pkg/agent"
	"github.com/mutagen-io/mutagen/pkg/mutagen"

	"verif/internal/vr"
)

// ---------------------------------------------------------------------------
// Harness transport for C34: two one-directional in-memory pipes with a
// middlebox on each (byte substitution at given stream offsets, and a cut
// after which the direction delivers EOF). Nothing here depends on time: a
// reader blocks on a condition variable until a byte, an EOF or a stall
// (the only possible writer has finished without closing) is available.
// ---------------------------------------------------------------------------

var errStall = errors.New("harness: reader would block forever (peer proceeded without sending more)")

type hsWorld struct {
	mu   sync.Mutex
	cond *sync.Cond
}

// hsPipe carries bytes in one direction.
type hsPipe struct {
	w        *hsWorld
	buf      []byte       // delivered (post-middlebox) bytes
	rd       int          // read offset into buf
	written  int          // bytes the writer has written (including dropped ones)
	cut      int          // direction delivers only the first cut bytes, then EOF (-1: no cut)
	subs     map[int]byte // stream offset -> replacement value
	wclosed  bool         // writer side closed
	rclosed  bool         // reader side closed
	wdone    bool         // writer's handshake function has returned (it will never write again)
	sent     []byte       // what the writer actually wrote (pre-middlebox)
	lateWrit bool         // a write happened after the reader closed
}

func (p *hsPipe) write(b []byte) (int, error) {
	p.w.mu.Lock()
	defer p.w.mu.Unlock()
	if p.wclosed {
		return 0, io.ErrClosedPipe
	}
	if p.rclosed {
		p.lateWrit = true
		return 0, io.ErrClosedPipe
	}
	for _, c := range b {
		p.sent = append(p.sent, c)
		if p.cut < 0 || p.written < p.cut {
			if v, ok := p.subs[p.written]; ok {
				c = v
			}
			p.buf = append(p.buf, c)
		}
		p.written++
	}
	p.w.cond.Broadcast()
	return len(b), nil
}

func (p *hsPipe) read(b []byte) (int, error) {
	p.w.mu.Lock()
	defer p.w.mu.Unlock()
	for {
		if p.rclosed {
			return 0, io.ErrClosedPipe
		}
		if p.rd < len(p.buf) {
			n := copy(b, p.buf[p.rd:])
			p.rd += n
			return n, nil
		}
		if p.wclosed || (p.cut >= 0 && len(p.buf) >= p.cut) {
			return 0, io.EOF
		}
		if p.wdone {
			return 0, errStall
		}
		p.w.cond.Wait()
	}
}

// hsConn is one side's view: io.ReadWriteCloser.
type hsConn struct {
	in, out *hsPipe
}

func (c *hsConn) Read(b []byte) (int, error)  { return c.in.read(b) }
func (c *hsConn) Write(b []byte) (int, error) { return c.out.write(b) }
func (c *hsConn) Close() error {
	c.in.w.mu.Lock()
	c.in.rclosed = true
	c.out.wclosed = true
	c.in.w.cond.Broadcast()
	c.in.w.mu.Unlock()
	return nil
}
func (c *hsConn) finished() {
	c.in.w.mu.Lock()
	c.out.wdone = true
	c.in.w.cond.Broadcast()
	c.in.w.mu.Unlock()
}

// hsSub is one substituted byte: direction ("sc" server->client, "cs"
// client->server), offset in that direction's stream, new value.
type hsSub struct {
	Dir string
	Off int
	Val byte
}

// hsCase is one perturbation of the exchange.
type hsCase struct {
	Kind  string  // label only: intact, subst, subst2, trunc, skew, skew1, magicswap, model
	Subs  []hsSub `json:",omitempty"`
	CutSC int     // -1 = none
	CutCS int
	// Model, when "server" or "client", replaces that end by a byte-exact model of a
	// peer that genuinely runs version Peer (the real code's version is a compile-time
	// constant, so a differently-versioned real peer cannot exist in-process).
	Model string     `json:",omitempty"`
	Peer  *[3]uint32 `json:",omitempty"`
}

type hsResult struct {
	ClientErr, ServerErr error
	SentSC, SentCS       []byte
	GotSC, GotCS         int // bytes consumed by the receivers
	LateWrite            bool
}

func (r hsResult) class() string {
	f := func(e error) string {
		switch {
		case e == nil:
			return "accept"
		case errors.Is(e, errStall):
			return "stall"
		default:
			return "reject"
		}
	}
	return "client-" + f(r.ClientErr) + "/server-" + f(r.ServerErr)
}

// runHandshake runs the real client and server halves (magic-number handshake
// followed by version handshake, exactly the order used by pkg/agent/dial.go
// and cmd/mutagen-agent) against each other through the middlebox. A side whose
// handshake fails closes its stream, as agent.connect does (stream.Close) and
// as the agent process does by exiting.
func runHandshake(c hsCase) hsResult {
	w := &hsWorld{}
	w.cond = sync.NewCond(&w.mu)
	sc := &hsPipe{w: w, cut: c.CutSC, subs: map[int]byte{}}
	cs := &hsPipe{w: w, cut: c.CutCS, subs: map[int]byte{}}
	for _, s := range c.Subs {
		if s.Dir == "sc" {
			sc.subs[s.Off] = s.Val
		} else {
			cs.subs[s.Off] = s.Val
		}
	}
	client := &hsConn{in: sc, out: cs}
	server := &hsConn{in: cs, out: sc}
	var res hsResult
	var wg sync.WaitGroup
	wg.Add(2)
	go func() {
		defer wg.Done()
		var err error
		if c.Model == "client" {
			err = modelClient(client, *c.Peer)
		} else if err = agent.ClientHandshake(client); err == nil {
			err = mutagen.ClientVersionHandshake(client)
		}
		if err != nil {
			client.Close()
		}
		client.finished()
		res.ClientErr = err
	}()
	go func() {
		defer wg.Done()
		var err error
		if c.Model == "server" {
			err = modelServer(server, *c.Peer)
		} else if err = agent.ServerHandshake(server); err == nil {
			err = mutagen.ServerVersionHandshake(server)
		}
		if err != nil {
			server.Close()
		}
		server.finished()
		res.ServerErr = err
	}()
	wg.Wait()
	res.SentSC, res.SentCS = sc.sent, cs.sent
	res.GotSC, res.GotCS = sc.rd, cs.rd
	res.LateWrite = sc.lateWrit || cs.lateWrit
	return res
}

// The wire protocol as documented (pkg/agent/handshake.go, pkg/mutagen/version.go):
// 3-byte magic numbers and a 12-byte big-endian (major, minor, patch) triple.
var (
	docServerMagic = []byte{0x05, 0x27, 0x87}
	docClientMagic = []byte{0x87, 0x27, 0x05}
)

func encodeVersion(v [3]uint32) []byte {
	b := make([]byte, 12)
	for i := 0; i < 3; i++ {
		binary.BigEndian.PutUint32(b[4*i:], v[i])
	}
	return b
}

var errModelReject = errors.New("model peer: mismatch")

// modelServer / modelClient speak the documented protocol for a build of version v:
// same message order as the real code, reject on any mismatch.
func modelServer(c *hsConn, v [3]uint32) error {
	if _, err := c.Write(docServerMagic); err != nil {
		return err
	}
	var m [3]byte
	if _, err := io.ReadFull(c, m[:]); err != nil {
		return err
	} else if string(m[:]) != string(docClientMagic) {
		return errModelReject
	}
	if _, err := c.Write(encodeVersion(v)); err != nil {
		return err
	}
	var pv [12]byte
	if _, err := io.ReadFull(c, pv[:]); err != nil {
		return err
	} else if string(pv[:]) != string(encodeVersion(v)) {
		return errModelReject
	}
	return nil
}

func modelClient(c *hsConn, v [3]uint32) error {
	var m [3]byte
	if _, err := io.ReadFull(c, m[:]); err != nil {
		return err
	} else if string(m[:]) != string(docServerMagic) {
		return errModelReject
	}
	if _, err := c.Write(docClientMagic); err != nil {
		return err
	}
	var pv [12]byte
	if _, err := io.ReadFull(c, pv[:]); err != nil {
		return err
	}
	if _, err := c.Write(encodeVersion(v)); err != nil {
		return err
	}
	if string(pv[:]) != string(encodeVersion(v)) {
		return errModelReject
	}
	return nil
}

const hsDirLen = 15 // 3 magic bytes + 12 version bytes in each direction

// judgeHandshake is the C34 oracle. intactSC/intactCS are the bytes of the
// unperturbed exchange (used only to decide whether a substitution really
// changes a byte).
func judgeHandshake(c hsCase, r hsResult, intactSC, intactCS []byte) (what string, effective bool) {
	// "both sides send the expected magic numbers and ... versions": whatever a real side
	// transmits is its own magic number and its own version, never something derived from
	// what it received (it may only stop early).
	if c.Model != "server" && !bytes.HasPrefix(intactSC, r.SentSC) {
		return fmt.Sprintf("server transmitted % x, its own handshake bytes are % x", r.SentSC, intactSC), true
	}
	if c.Model != "client" && !bytes.HasPrefix(intactCS, r.SentCS) {
		return fmt.Sprintf("client transmitted % x, its own handshake bytes are % x", r.SentCS, intactCS), true
	}
	if c.Model != "" {
		local := [3]uint32{mutagen.VersionMajor, mutagen.VersionMinor, mutagen.VersionPatch}
		own := append(append([]byte{}, docClientMagic...), encodeVersion(local)...)
		sent := r.SentCS
		if c.Model == "client" {
			own = append(append([]byte{}, docServerMagic...), encodeVersion(local)...)
			sent = r.SentSC
		}
		cAcc, sAcc := r.ClientErr == nil, r.ServerErr == nil
		if *c.Peer == local {
			// Control: a model peer of the same version is accepted and accepts.
			if !cAcc || !sAcc || !bytes.Equal(sent, own) {
				return fmt.Sprintf("same-version model peer: client=%v server=%v, real side sent % x", r.ClientErr, r.ServerErr, sent), false
			}
			return "", false
		}
		// (a) the real side transmits exactly its own magic number and version encoding.
		if !bytes.Equal(sent, own) {
			return fmt.Sprintf("real %s side transmitted % x, expected its own % x", map[string]string{"server": "client", "client": "server"}[c.Model], sent, own), true
		}
		// (b) "Any mismatch ... makes both sides fail rather than proceed."
		if cAcc || sAcc {
			return fmt.Sprintf("peers of different versions (%v vs %v) but client=%v server=%v", *c.Peer, local, r.ClientErr, r.ServerErr), true
		}
		if errors.Is(r.ClientErr, errStall) || errors.Is(r.ServerErr, errStall) {
			return "a side blocked instead of failing against a differently-versioned peer", true
		}
		return "", true
	}
	pertSC, pertCS := c.CutSC >= 0 && c.CutSC < hsDirLen, c.CutCS >= 0 && c.CutCS < hsDirLen
	magic := (c.CutSC >= 0 && c.CutSC < 3) || (c.CutCS >= 0 && c.CutCS < 3)
	for _, s := range c.Subs {
		ref := intactSC
		if s.Dir == "cs" {
			ref = intactCS
		}
		if s.Off >= len(ref) || ref[s.Off] == s.Val {
			continue
		}
		if s.Dir == "sc" {
			pertSC = true
		} else {
			pertCS = true
		}
		if s.Off < 3 {
			magic = true
		}
	}
	cAcc, sAcc := r.ClientErr == nil, r.ServerErr == nil
	if !pertSC && !pertCS {
		// "accepted by both client and server exactly when both sides send the expected
		// magic numbers and identical major, minor and patch versions" (if-direction).
		if !cAcc || !sAcc {
			return fmt.Sprintf("intact exchange not accepted by both: client=%v server=%v", r.ClientErr, r.ServerErr), false
		}
		return "", false
	}
	// "Any mismatch, truncated or corrupted handshake makes both sides fail rather than
	// proceed": the side that received (or should have received) a perturbed or missing
	// byte must fail.
	if pertSC && cAcc {
		return "client accepted although the server->client bytes were perturbed/truncated", true
	}
	if pertCS && sAcc {
		return "server accepted although the client->server bytes were perturbed/truncated", true
	}
	if pertSC && errors.Is(r.ClientErr, errStall) {
		return "client neither failed nor proceeded (blocked) on perturbed server->client bytes", true
	}
	if pertCS && errors.Is(r.ServerErr, errStall) {
		return "server neither failed nor proceeded (blocked) on perturbed client->server bytes", true
	}
	// (only-if direction) never both accept under any perturbation.
	if cAcc && sAcc {
		return "both sides accepted a perturbed handshake", true
	}
	// A perturbed magic number is never the last message of its sender: the receiver fails
	// and closes before the sender's next receive, so the sender must fail too ("both sides
	// fail"). (Not demanded for the version message, the last one each side sends: a sender
	// cannot notice the corruption of the last message it sent.)
	if magic && (cAcc || sAcc) {
		return fmt.Sprintf("magic-number perturbation but one side proceeded: client=%v server=%v", r.ClientErr, r.ServerErr), true
	}
	return "", true
}

func hsKey(c hsCase) string { return vr.J(c) }

// versionFieldValues lists the single-field perturbation values for a 32-bit
// version field with current value v: every single-bit flip, +1, -1, 0,
// 0xFFFFFFFF and the byte-reversed (little-endian) reading.
func versionFieldValues(v uint32) []uint32 {
	set := map[uint32]bool{}
	for b := 0; b < 32; b++ {
		set[v^(1<<uint(b))] = true
	}
	set[v+1] = true
	set[v-1] = true
	set[0] = true
	set[0xFFFFFFFF] = true
	var le [4]byte
	binary.BigEndian.PutUint32(le[:], v)
	set[binary.LittleEndian.Uint32(le[:])] = true
	delete(set, v)
	out := make([]uint32, 0, len(set))
	for x := range set {
		out = append(out, x)
	}
	sort.Slice(out, func(i, j int) bool { return out[i] < out[j] })
	return out
}

// versionSubs returns the substitutions that rewrite the version message of
// direction dir from `from` to `to`.
func versionSubs(dir string, from, to [3]uint32) []hsSub {
	var a, b [12]byte
	for i := 0; i < 3; i++ {
		binary.BigEndian.PutUint32(a[4*i:], from[i])
		binary.BigEndian.PutUint32(b[4*i:], to[i])
	}
	var out []hsSub
	for i := 0; i < 12; i++ {
		if a[i] != b[i] {
			out = append(out, hsSub{dir, 3 + i, b[i]})
		}
	}
	return out
}

func TestC34(t *testing.T) {
	r := vr.New(t, "C34", "exploration")
	defer r.Finish()

	// Intact exchange first: it also yields the reference bytes.
	intact := hsCase{Kind: "intact", CutSC: -1, CutCS: -1}
	ir := runHandshake(intact)
	if len(ir.SentSC) != hsDirLen || len(ir.SentCS) != hsDirLen {
		if ir.ClientErr == nil && ir.ServerErr == nil {
			t.Fatalf("INFRA: handshake layout changed: %d server->client and %d client->server bytes (expected 15 each); the enumeration must be adapted", len(ir.SentSC), len(ir.SentCS))
		}
	}
	iSC, iCS := append([]byte{}, ir.SentSC...), append([]byte{}, ir.SentCS...)
	for len(iSC) < hsDirLen {
		iSC = append(iSC, 0)
	}
	for len(iCS) < hsDirLen {
		iCS = append(iCS, 0)
	}
	evaluate := func(c hsCase, l *vr.Local) {
		res := runHandshake(c)
		what, eff := judgeHandshake(c, res, iSC, iCS)
		// (res.LateWrite - a write that raced with the peer's close - is scheduling dependent
		// and deliberately not part of the outcome class; it never changes a verdict.)
		cls := res.class()
		if l != nil {
			l.Case(hsKey(c), eff)
			l.Outcome(c.Kind + ":" + cls)
		} else {
			r.Case(hsKey(c), eff)
			r.Outcome(c.Kind + ":" + cls)
		}
		if what != "" {
			cc := c
			r.Violate(hsKey(c), what+" ["+cls+"]", cc, func() bool {
				rr := runHandshake(cc)
				w, _ := judgeHandshake(cc, rr, iSC, iCS)
				return w != ""
			})
		}
	}

	if raw := vr.ReplayCase(); raw != nil {
		var c hsCase
		if err := json.Unmarshal(raw, &c); err != nil {
			t.Fatalf("INFRA: replay case does not parse: %v", err)
		}
		res := runHandshake(c)
		what, eff := judgeHandshake(c, res, iSC, iCS)
		t.Logf("replay %s\n intact s->c % x\n intact c->s % x\n sent   s->c % x (client consumed %d)\n sent   c->s % x (server consumed %d)\n client: %v\n server: %v\n verdict: %q",
			vr.J(c), iSC, iCS, res.SentSC, res.GotSC, res.SentCS, res.GotCS, res.ClientErr, res.ServerErr, what)
		r.Case(hsKey(c), eff)
		if what != "" {
			r.Violate(hsKey(c), what, c, nil)
		}
		return
	}

	local := [3]uint32{mutagen.VersionMajor, mutagen.VersionMinor, mutagen.VersionPatch}
	var cases []hsCase
	cases = append(cases, intact)
	dirs := []string{"sc", "cs"}
	// (1) every single-byte substitution at each of the 30 handshake bytes.
	for _, d := range dirs {
		ref := iSC
		if d == "cs" {
			ref = iCS
		}
		for off := 0; off < hsDirLen; off++ {
			for v := 0; v < 256; v++ {
				if byte(v) == ref[off] {
					continue
				}
				cases = append(cases, hsCase{Kind: "subst", Subs: []hsSub{{d, off, byte(v)}}, CutSC: -1, CutCS: -1})
			}
		}
	}
	// (2) truncation: every pair of cut points (0..15 per direction; 15 = not cut).
	for a := 0; a <= hsDirLen; a++ {
		for b := 0; b <= hsDirLen; b++ {
			if a == hsDirLen && b == hsDirLen {
				continue
			}
			cases = append(cases, hsCase{Kind: "trunc", CutSC: a, CutCS: b})
		}
	}
	// (3) version skew: every single-field perturbation, consistently in both
	// directions (the peer "is" another version) and in each direction alone;
	// plus every permutation of the three fields that changes the triple.
	var skews [][3]uint32
	for f := 0; f < 3; f++ {
		for _, v := range versionFieldValues(local[f]) {
			s := local
			s[f] = v
			skews = append(skews, s)
		}
	}
	for _, p := range [][3]int{{0, 2, 1}, {1, 0, 2}, {1, 2, 0}, {2, 0, 1}, {2, 1, 0}} {
		s := [3]uint32{local[p[0]], local[p[1]], local[p[2]]}
		if s != local {
			skews = append(skews, s)
		}
	}
	for _, s := range skews {
		both := append(versionSubs("sc", local, s), versionSubs("cs", local, s)...)
		cases = append(cases, hsCase{Kind: "skew", Subs: both, CutSC: -1, CutCS: -1})
		cases = append(cases, hsCase{Kind: "skew1", Subs: versionSubs("sc", local, s), CutSC: -1, CutCS: -1})
		cases = append(cases, hsCase{Kind: "skew1", Subs: versionSubs("cs", local, s), CutSC: -1, CutCS: -1})
	}
	// (3b) the two ends genuinely run different versions: the real client against a
	// model server of every perturbed version, the real server against a model client.
	for _, s := range append([][3]uint32{local}, skews...) {
		s := s
		cases = append(cases, hsCase{Kind: "model", CutSC: -1, CutCS: -1, Model: "server", Peer: &s})
		cases = append(cases, hsCase{Kind: "model", CutSC: -1, CutCS: -1, Model: "client", Peer: &s})
	}
	// (4) role confusion: a direction carries the other role's magic number.
	swap := func(d string, to []byte) []hsSub {
		var out []hsSub
		for i := 0; i < 3; i++ {
			out = append(out, hsSub{d, i, to[i]})
		}
		return out
	}
	cases = append(cases,
		hsCase{Kind: "magicswap", Subs: swap("sc", iCS), CutSC: -1, CutCS: -1},
		hsCase{Kind: "magicswap", Subs: swap("cs", iSC), CutSC: -1, CutCS: -1},
		hsCase{Kind: "magicswap", Subs: append(swap("sc", iCS), swap("cs", iSC)...), CutSC: -1, CutCS: -1})
	// (5) two substituted bytes: every pair of the 30 positions; quick uses 6 values
	// per position (bit flips 0x01, 0x80, 0xFF, and the values 0x00, 0x01, 0xFF),
	// thorough all 255 x 255.
	type pos struct {
		d   string
		off int
	}
	var positions []pos
	for _, d := range dirs {
		for off := 0; off < hsDirLen; off++ {
			positions = append(positions, pos{d, off})
		}
	}
	refOf := func(p pos) byte {
		if p.d == "cs" {
			return iCS[p.off]
		}
		return iSC[p.off]
	}
	valuesAt := func(p pos) []byte {
		o := refOf(p)
		if vr.Thorough() {
			out := make([]byte, 0, 255)
			for v := 0; v < 256; v++ {
				if byte(v) != o {
					out = append(out, byte(v))
				}
			}
			return out
		}
		set := map[byte]bool{o ^ 0x01: true, o ^ 0x80: true, o ^ 0xFF: true, 0x00: true, 0x01: true, 0xFF: true}
		delete(set, o)
		out := make([]byte, 0, len(set))
		for v := range set {
			out = append(out, v)
		}
		sort.Slice(out, func(i, j int) bool { return out[i] < out[j] })
		return out
	}
	type pair struct{ a, b pos }
	var pairs []pair
	for i := range positions {
		for j := i + 1; j < len(positions); j++ {
			pairs = append(pairs, pair{positions[i], positions[j]})
		}
	}

	vals := "6 values per byte"
	if vr.Thorough() {
		vals = "all 255 x 255 values"
	}
	r.Rule("real agent.ClientHandshake+mutagen.ClientVersionHandshake against real agent.ServerHandshake+mutagen.ServerVersionHandshake over in-memory pipes with a middlebox: " +
		"the intact exchange; every single-byte substitution (255 values) at each of the 30 bytes; every pair of per-direction truncation points (0..15 x 0..15); " +
		"every single-field version perturbation (32 bit flips, +1, -1, 0, 0xFFFFFFFF, byte-reversed, for major/minor/patch) and every field permutation, mapped consistently in both directions and in each direction alone; " +
		"each real side against a byte-exact model peer of every such perturbed version (and of the same version as control), asserting the bytes the real side transmits; swapped magic numbers; every pair of the 30 byte positions with " + vals + ". non-trivial = at least one delivered byte differs from the intact exchange or a direction is cut short; distinct by the perturbation")
	r.Assume("a side whose handshake fails closes its stream (agent.connect calls stream.Close; the agent process exits), which the peer observes as EOF",
		"truncation is modelled as end-of-stream (EOF) after k bytes of a direction, not as a silent stall",
		"the version is a compile-time constant, so both real ends are the same build: a differently-versioned peer is (i) the middlebox rewriting the 12 version bytes and (ii) a harness model peer speaking the documented protocol (magic 05 27 87 / 87 27 05, 12-byte big-endian triple, server sends first) with the other version",
		"a real side's transmitted bytes must be a prefix of what it transmits in the intact exchange (its own magic number and version)",
		"a sender cannot notice corruption of the last message it sent (the version message): the oracle demands failure of the receiver, never-both-accept, and failure of both sides only for magic-number perturbations")

	for _, c := range cases {
		evaluate(c, nil)
	}
	vr.Parallel(len(pairs), func(i int) {
		l := r.Local()
		defer l.Flush()
		p := pairs[i]
		for _, va := range valuesAt(p.a) {
			for _, vb := range valuesAt(p.b) {
				evaluate(hsCase{Kind: "subst2", Subs: []hsSub{{p.a.d, p.a.off, va}, {p.b.d, p.b.off, vb}}, CutSC: -1, CutCS: -1}, l)
			}
		}
	})
	r.Set("handshake_bytes_per_direction", hsDirLen)
	r.Set("single_cases", len(cases))
	r.Sample(cases[1])
	r.Sample(hsCase{Kind: "trunc", CutSC: 11, CutCS: 15})
	r.Sample(cases[len(cases)-4])
}
