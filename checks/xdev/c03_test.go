//go:build verif

package xdev

import (
	"encoding/json"
	"fmt"
	"strings"
	"sync/atomic"
	"testing"

	"github.com/mutagen-io/mutagen/pkg/synchronization/core"

	"verif/internal/vr"
)

// C03, cross-device leg. Statement: "Synchronization never deletes, replaces or
// moves aside filesystem content that it does not track [...]. When propagating
// a change would require removing such content, a conflict is reported instead
// and the content stays on disk."
//
// At the Transition layer the last line of defence for a file CREATION is the
// non-replacing rename of the staged file (or, when the staging area is on
// another device, of the intermediate copy) onto the target name. This leg
// puts an untracked object at the target after the scan the plan was computed
// from - before the transition starts or at a point inside it - and drives the
// real core.Transition through the same-device and the cross-device path.

// judgeC03 returns the violated clause ("" = none) and the outcome class.
func judgeC03(c xcase, res *xresult) (what, outcome string) {
	var bad []string
	// "never deletes, replaces or moves aside filesystem content that it does
	// not track [...] the content stays on disk": every untracked object keeps
	// its type, permission bits, identity, bytes and link target.
	for _, p := range sortedKeys(res.untracked) {
		before := res.untracked[p]
		after, ok := res.post[p]
		switch {
		case !ok:
			bad = append(bad, fmt.Sprintf("untracked object %q (%v) was removed by the transition", p, before))
		case !sameObject(before, after):
			bad = append(bad, fmt.Sprintf("untracked object %q was replaced or modified by the transition: before %v, after %v", p, before, after))
		}
	}
	applied := res.reportsApplied(c)
	if c.Obj != "" && res.whenFired {
		// "a conflict is reported instead": the change needed the untracked
		// object's place, so it cannot have been applied - the transition must
		// say so (a problem) and return what was expected there before (Old).
		if applied {
			bad = append(bad, fmt.Sprintf("the transition reports %q as %s although untracked content (%s) occupied the path", c.filePath(), map[bool]string{true: "replaced", false: "created"}[c.Shape == "swap"], c.Obj))
		}
		if len(res.problems) == 0 {
			bad = append(bad, "the transition over untracked content reported no problem")
		}
		if len(res.results) == 1 && !applied {
			got := res.results[0]
			switch {
			case c.Shape == "create" && got != nil,
				c.Shape == "newdir" && c.When == "pre" && got != nil:
				bad = append(bad, fmt.Sprintf("nothing could be created at %q, but the transition returned %s instead of the old (absent) entry", c.changePath(), describe(got)))
			case c.Shape == "swap" && !got.Equal(res.oldEntry, true):
				bad = append(bad, fmt.Sprintf("the swap at %q was refused, but the transition returned %s instead of the old entry %s", c.changePath(), describe(got), describe(res.oldEntry)))
			case c.Shape == "newdir" && c.When != "pre" && (got == nil || got.Kind != core.EntryKind_Directory || got.Contents["t"] != nil):
				bad = append(bad, fmt.Sprintf("the file inside the new directory could not be created, but the transition returned %s", describe(got)))
			}
		}
	}
	pc := "no-problem"
	if len(res.problems) > 0 {
		pc = problemClass(res.problems[0].Error)
	}
	outcome = fmt.Sprintf("applied=%v/%s/fallback=%v", applied, pc, res.fallback > 0)
	return strings.Join(bad, "; "), outcome
}

func sortedKeys(m map[string]finfo) []string {
	out := make([]string, 0, len(m))
	for k := range m {
		out = append(out, k)
	}
	sortStrings(out)
	return out
}

func sortStrings(s []string) {
	for i := 1; i < len(s); i++ {
		for j := i; j > 0 && s[j] < s[j-1]; j-- {
			s[j], s[j-1] = s[j-1], s[j]
		}
	}
}

// problemClass reduces a problem message to its leading clauses (no names).
func problemClass(msg string) string {
	parts := strings.Split(msg, ": ")
	if len(parts) > 2 {
		parts = parts[:2]
	}
	s := strings.Join(parts, ": ")
	if i := strings.Index(s, ".mutagen-temporary"); i >= 0 {
		s = s[:i] + "<tmp>"
	}
	if len(s) > 80 {
		s = s[:80]
	}
	return s
}

// c03cases enumerates the leg's space in a fixed order.
func c03cases(twoFS bool) []xcase {
	devs := []string{"same", "same-nosup", "inject", "inject-nosup"}
	if twoFS {
		devs = append(devs, "realfs", "realfs-rev")
	}
	sizes := []int{100}
	if vr.Thorough() {
		// thorough: also contents of exactly one, and more than one, copy buffer.
		sizes = []int{0, 100, 32768, 100000}
	}
	var out []xcase
	for _, size := range sizes {
		for depth := 0; depth <= 2; depth++ {
			for _, exec := range []bool{false, true} {
				for _, dev := range devs {
					base := xcase{Depth: depth, Exec: exec, Size: size, Dev: dev}
					crosses := base.crosses()
					nosup := base.nosup()
					for _, shape := range []string{"create", "swap", "newdir"} {
						c := base
						c.Shape = shape
						if shape == "swap" {
							c.OldExec = !exec // the swap also changes the bit, so the chmod-only shortcut is not taken
						}
						// Control: no untracked object; the plan must apply.
						out = append(out, c)
						// When can the object appear?
						whens := []string{"pre"}
						if shape != "swap" {
							// Inside the transition, for creations: the final non-replacing
							// rename is what protects the object. (For a swap the windows
							// after the modification check are the documented RACE.)
							whens = append(whens, "provide", "first-rename")
							if crosses {
								whens = append(whens, "tmp-create", "post-copy")
								if !nosup {
									// With renameat2 unsupported the existence probe precedes the
									// final rename point; an object appearing in between is the
									// documented race of the probe-based fallback.
									whens = append(whens, "final-rename")
								}
							}
						}
						for _, obj := range objectKinds {
							for _, when := range whens {
								d := c
								d.Obj, d.When = obj, when
								out = append(out, d)
							}
						}
					}
				}
			}
		}
	}
	return out
}

func TestC03CrossDevice(t *testing.T) {
	r := vr.New(t, "C03", "exploration")
	defer r.Finish()
	p := newPool(t, vr.Workers())

	if raw := vr.ReplayCase(); raw != nil {
		var c xcase
		if err := json.Unmarshal(raw, &c); err != nil {
			t.Fatalf("INFRA: replay case does not decode: %v", err)
		}
		w := p.get()
		res := w.run(c, t.Logf)
		if res.err != nil || res.skipped != "" {
			t.Fatalf("INFRA: replay: %v %s", res.err, res.skipped)
		}
		what, outcome := judgeC03(c, &res)
		t.Logf("outcome %s; verdict: %q", outcome, what)
		r.Case(c.key(), true)
		if what != "" {
			r.Violate(c.key(), what, c, nil)
		}
		return
	}

	r.Rule("xdev leg: every (file size x depth 0..2 x Executable x device configuration {same device, same device with renameat2 unsupported, EXDEV injected at the first rename aimed at the target, EXDEV injected + renameat2 unsupported, staging really on another filesystem in both directions} x plan shape {create file, swap file over file, create directory holding a file} x untracked object {none, regular file, FIFO, symlink, directory with a file, empty directory, socket} x moment it appears at the target {after the scan and before Transition; for creations also inside Transition: at the Provider callback, at the first rename attempt, and on the cross-device path at the creation of the intermediate file, after the copy, and immediately before the final rename}); real core.Scan, then real core.Transition; a case is non-trivial when an untracked object was put in the plan's way (distinct by the full tuple)")
	r.Assume(
		"xdev leg: an object appearing between the existence probe and the rename of the probe-based fallback (renameat2 unsupported), or after the modification check of a file swap, is the documented RACE and is not enumerated",
		"xdev leg: EXDEV is injected at the pkg/verifhook rename points (the first rename aimed at a target fails before the syscall); the two-filesystem configurations use /dev/shm against the temp directory when their st_dev differ",
		"xdev leg: 'a conflict is reported instead' is read at the Transition layer as: a problem is reported, the change is not reported as applied, and the entry returned for the path is the old one",
	)

	cases := c03cases(p.two)
	r.Set("xdev_leg_two_filesystems", p.two)
	var reached, controls, controlsApplied, whenMissed atomic.Int64
	vr.Parallel(len(cases), func(i int) {
		c := cases[i]
		w := p.get()
		defer p.put(w)
		res := w.run(c, nil)
		if res.err != nil {
			t.Errorf("INFRA: case %s: %v", c.key(), res.err)
			return
		}
		if res.skipped != "" {
			return
		}
		if c.Obj != "" && !res.whenFired {
			// The moment was not reached (cannot happen on the enumerated
			// configurations of the unchanged tree; counted, see below).
			whenMissed.Add(1)
		}
		what, outcome := judgeC03(c, &res)
		r.Case(c.key(), c.Obj != "" && res.whenFired)
		r.Outcome(outcome)
		if res.fallback > 0 {
			reached.Add(1)
		}
		if c.Obj == "" {
			controls.Add(1)
			if res.reportsApplied(c) && len(res.problems) == 0 {
				controlsApplied.Add(1)
			}
		}
		if what != "" {
			r.Violate(c.key(), what, c, func() bool {
				// Synchronous, on the worker's own world (free again at this point).
				res2 := w.run(c, nil)
				if res2.err != nil || res2.skipped != "" {
					return false
				}
				again, _ := judgeC03(c, &res2)
				return again != ""
			})
		}
	})
	r.Set("xdev_leg_cases", len(cases))
	r.Set("xdev_leg_cross_device_copies", reached.Load())
	r.Set("xdev_leg_controls_applied", fmt.Sprintf("%d/%d", controlsApplied.Load(), controls.Load()))
	r.Set("xdev_leg_moment_not_reached", whenMissed.Load())
	r.Sample(map[string]any{"xdev_leg": "root/d1/{keep,zz-pipe}; plan: create d1/t (Executable) with EXDEV injected; a FIFO appears at d1/t after the copy, before the final rename", "case": xcase{Depth: 1, Shape: "create", Exec: true, Size: 100, Dev: "inject", Obj: "fifo", When: "post-copy"}})
	r.Sample(map[string]any{"xdev_leg": "staging really on another filesystem; user file appears at the creation target before Transition", "case": xcase{Depth: 0, Shape: "create", Size: 100, Dev: "realfs", Obj: "file", When: "pre"}})
	// Vacuity guards (infrastructure, not property): the cross-device path must
	// really have been driven, and at least one control must have applied.
	if r.Violations() == 0 {
		if reached.Load() == 0 {
			t.Fatalf("INFRA: no case reached the cross-device copy path")
		}
		if controlsApplied.Load() == 0 {
			t.Fatalf("INFRA: no control case was applied (%d controls)", controls.Load())
		}
	}
}
