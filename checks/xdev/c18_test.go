//go:build verif

package xdev

import (
	"encoding/json"
	"fmt"
	"sync/atomic"
	"testing"

	"verif/internal/vr"
)

// C18, cross-device leg. Statement: "When only one endpoint preserves
// executable bits, a file's executable bit on that endpoint is never changed by
// synchronization while the file exists on both sides. This holds even when the
// file's content is edited on the other endpoint".
//
// The other C18 legs decide which Executable value reaches the preserving
// endpoint's Transition (a content edit on the non-preserving side arrives as a
// file swap whose New.Executable equals the bit the file has); this leg checks
// that the real core.Transition then really leaves the file with that bit when
// the staged file has to be copied across devices (where the new inode's mode
// comes from a separate chmod of the intermediate file), under cancellation at
// every point.

// judgeC18: when the transition reports the planned file as in place, its
// user-executable bit (and "any executable bit", which is what the next scan
// reads) must equal the plan's Executable.
func judgeC18(c xcase, res *xresult) (what, outcome string, compared bool) {
	fp := c.filePath()
	post, exists := res.post[fp]
	applied := res.reportsApplied(c)
	if !applied || !exists || !post.isFile() {
		return "", fmt.Sprintf("applied=%v/not-compared/fallback=%v", applied, res.fallback > 0), false
	}
	user, any := post.Mode&0o100 != 0, post.Mode&0o111 != 0
	outcome = fmt.Sprintf("applied/x=%v/fallback=%v", user, res.fallback > 0)
	if user != c.Exec || any != c.Exec {
		kind := "created"
		if c.Shape == "swap" {
			kind = "replaced (content edit)"
			if c.OldExec == c.Exec {
				kind = "replaced (content edit; the file had this bit before)"
			}
		}
		return fmt.Sprintf("file %q %s with Executable=%v has mode %o afterwards", fp, kind, c.Exec, post.Mode&0o7777), outcome, true
	}
	return "", outcome, true
}

func c18bases(twoFS bool) []xcase {
	devs := []string{"same", "same-nosup", "inject", "inject-nosup"}
	if twoFS {
		devs = append(devs, "realfs", "realfs-rev")
	}
	sizes := []int{1, 100000}
	if vr.Thorough() {
		sizes = []int{0, 1, copyBuffer, 100000, 3 << 20}
	}
	var out []xcase
	for depth := 0; depth <= 2; depth++ {
		for _, dev := range devs {
			for _, size := range sizes {
				for _, exec := range []bool{false, true} {
					for _, shape := range []string{"swap", "create", "newdir"} {
						c := xcase{Depth: depth, Shape: shape, Exec: exec, Size: size, Dev: dev}
						if shape != "swap" {
							out = append(out, c)
							continue
						}
						for _, oldExec := range []bool{false, true} {
							c.OldExec = oldExec
							out = append(out, c)
						}
					}
				}
			}
		}
	}
	return out
}

func TestC18CrossDevice(t *testing.T) {
	r := vr.New(t, "C18", "model_checking")
	defer r.Finish()
	p := newPool(t, vr.Workers())

	if raw := vr.ReplayCase(); raw != nil {
		var c xcase
		if err := json.Unmarshal(raw, &c); err != nil {
			t.Fatalf("INFRA: replay case does not decode: %v", err)
		}
		w := p.get()
		res := w.run(c, t.Logf)
		if res.err != nil || res.skipped != "" {
			t.Fatalf("INFRA: replay: %v %s", res.err, res.skipped)
		}
		what, outcome, _ := judgeC18(c, &res)
		t.Logf("outcome %s; verdict: %q", outcome, what)
		r.Case(c.key(), true)
		r.Set("states", 1)
		r.Set("transitions", 1)
		r.Set("traces_validated_against_impl", 1)
		if what != "" {
			r.Violate(c.key(), what, c, nil)
		}
		return
	}

	r.Rule("xdev leg: every (depth 0..2 x device configuration {same, same + renameat2 unsupported, EXDEV injected, EXDEV injected + renameat2 unsupported, staging really on another filesystem in both directions} x size x planned Executable x shape {swap with the old file's bit in {off,on}, create, create directory holding the file}) x {fault-free, context cancelled before Transition and at every hook point / Provider callback of the fault-free run}: real core.Scan + core.Transition; whenever the planned file is reported in place its user- and any-executable bits are compared with the plan's Executable. Non-trivial: the bits were compared after a cross-device copy; distinct by the full tuple")
	r.Assume("xdev leg: the Executable value of the plan is taken as given (the propagation that computes it is checked by the other C18 legs); for creations the statement's 'exists on both sides' does not apply yet - there the leg checks that the planned bit is what the file gets")

	bases := c18bases(p.two)
	var calls, compared, comparedXdev atomic.Int64
	runOne := func(w *world, c xcase) xresult {
		res := w.run(c, nil)
		if res.err != nil {
			t.Errorf("INFRA: case %s: %v", c.key(), res.err)
			return res
		}
		if res.skipped != "" {
			return res
		}
		calls.Add(1)
		what, outcome, cmp := judgeC18(c, &res)
		if cmp {
			compared.Add(1)
			if res.fallback > 0 {
				comparedXdev.Add(1)
			}
		}
		r.Case(c.key(), cmp && res.fallback > 0)
		r.Outcome(outcome)
		if what != "" {
			r.Violate(c.key(), what, c, func() bool {
				// Synchronous, on the worker's own world (free again at this point).
				res2 := w.run(c, nil)
				if res2.err != nil || res2.skipped != "" {
					return false
				}
				again, _, _ := judgeC18(c, &res2)
				return again != ""
			})
		}
		return res
	}
	vr.Parallel(len(bases), func(i int) {
		w := p.get()
		defer p.put(w)
		res := runOne(w, bases[i])
		if res.err != nil || res.skipped != "" {
			return
		}
		c := bases[i]
		c.Fault = "cancel-pre"
		runOne(w, c)
		for _, pt := range res.log {
			c.Fault = "cancel@" + pt.String()
			runOne(w, c)
		}
	})
	r.Set("states", len(bases))
	r.Set("transitions", calls.Load())
	r.Set("traces_validated_against_impl", compared.Load())
	r.Set("xdev_leg_compared_after_cross_device_copy", comparedXdev.Load())
	r.Sample(map[string]any{"xdev_leg": "executable d1/t edited on the other side: swap with New.Executable=true while staging is on another device", "case": xcase{Depth: 1, Shape: "swap", Exec: true, OldExec: true, Size: 100000, Dev: "inject"}})
	if r.Violations() == 0 && comparedXdev.Load() == 0 {
		t.Fatalf("INFRA: no case compared the bits after a cross-device copy")
	}
}
