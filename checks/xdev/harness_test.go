//go:build verif

// Package xdev holds additional legs for C03, C10 and C18 that drive the real
// core.Transition through its CROSS-DEVICE fallback
// (findAndMoveStagedFileIntoPlace: the rename of the staged file reports EXDEV,
// the file is copied into a temporary next to the target, its permissions are
// set and the temporary is renamed into place). EXDEV is produced either by
// injection at the rename hook points of pkg/verifhook (primary, deterministic)
// or by really staging on another filesystem (/dev/shm vs. the temp directory).
package xdev

import (
	"context"
	"crypto/sha1"
	"encoding/hex"
	"encoding/json"
	"fmt"
	"io"
	"os"
	"os/exec"
	"os/signal"
	"path/filepath"
	"runtime"
	"runtime/debug"
	"sort"
	"strconv"
	"strings"
	"sync"
	"sync/atomic"
	"syscall"
	"testing"
	"time"

	"golang.org/x/sys/unix"

	"github.com/mutagen-io/mutagen/pkg/filesystem"
	"github.com/mutagen-io/mutagen/pkg/filesystem/behavior"
	"github.com/mutagen-io/mutagen/pkg/synchronization/core"
	"github.com/mutagen-io/mutagen/pkg/synchronization/core/ignore"
	mutagenignore "github.com/mutagen-io/mutagen/pkg/synchronization/core/ignore/mutagen"
	"github.com/mutagen-io/mutagen/pkg/verifhook"
)

// ---------------------------------------------------------------------------
// Case description (shared by the three legs; JSON-able for replay files).
// ---------------------------------------------------------------------------

// xcase is one execution: a root, one planned change, an environment
// (device configuration), optionally an untracked object appearing at the
// target after the scan, optionally a fault of the cross-device copy.
type xcase struct {
	Depth   int    `json:"depth"`           // directory depth of the changed path (0..2)
	Shape   string `json:"shape"`           // "create" (nil -> file), "swap" (file -> file), "newdir" (nil -> directory{t: file})
	Exec    bool   `json:"exec"`            // Executable of the planned file
	OldExec bool   `json:"old_exec"`        // swap: executable bit of the file on disk (and in the Old entry)
	Size    int    `json:"size"`            // size of the planned content
	Dev     string `json:"dev"`             // "same", "same-nosup", "inject", "inject-nosup", "realfs", "realfs-rev"
	Obj     string `json:"obj,omitempty"`   // untracked object kind appearing at the target ("" = none)
	When    string `json:"when,omitempty"`  // when it appears: "pre", "provide", "first-rename", "tmp-create", "post-copy", "final-rename"
	Fault   string `json:"fault,omitempty"` // "", "cancel-pre", "cancel@<op> <path> #<occ>", "midcopy:<A>", "wfail:<L>", "readerr", "missing"
}

func (c xcase) key() string {
	return fmt.Sprintf("d%d/%s/x=%v/ox=%v/n=%d/%s/obj=%s@%s/fault=%s", c.Depth, c.Shape, c.Exec, c.OldExec, c.Size, c.Dev, c.Obj, c.When, c.Fault)
}

func (c xcase) injects() bool { return c.Dev == "inject" || c.Dev == "inject-nosup" }
func (c xcase) nosup() bool   { return c.Dev == "same-nosup" || c.Dev == "inject-nosup" }
func (c xcase) realfs() bool  { return c.Dev == "realfs" || c.Dev == "realfs-rev" }
func (c xcase) crosses() bool { return c.injects() || c.realfs() }

// changePath is the path of the planned change; filePath the path of the
// planned FILE (they differ for "newdir", where the change creates a
// directory holding the file).
func (c xcase) changePath() string {
	leaf := "t"
	if c.Shape == "newdir" {
		leaf = "nd"
	}
	return join(depthDir(c.Depth), leaf)
}

func (c xcase) filePath() string {
	if c.Shape == "newdir" {
		return join(c.changePath(), "t")
	}
	return c.changePath()
}

// objPath is where the untracked object appears: at the planned file, except
// that before a "newdir" transition starts the directory does not exist yet,
// so the object then sits at the directory's own path.
func (c xcase) objPath() string {
	if c.Shape == "newdir" && c.When == "pre" {
		return c.changePath()
	}
	return c.filePath()
}

func depthDir(d int) string {
	switch d {
	case 1:
		return "d1"
	case 2:
		return "d1/d2"
	}
	return ""
}

func join(a, b string) string {
	if a == "" {
		return b
	}
	if b == "" {
		return a
	}
	return a + "/" + b
}

// ---------------------------------------------------------------------------
// Deterministic content.
// ---------------------------------------------------------------------------

var (
	patternMu    sync.Mutex
	patternCache = map[int][]byte{}
)

// pattern returns the first n bytes of a fixed byte stream per salt (so the
// shorter contents are prefixes of the longer ones and one buffer serves all
// sizes); different salts give different content at every length >= 1, and no
// 32 KiB block repeats (a copy that loses, repeats or reorders a block changes
// the digest). The returned slice must not be modified.
func pattern(n int, salt int) []byte {
	patternMu.Lock()
	defer patternMu.Unlock()
	if b := patternCache[salt]; len(b) >= n {
		return b[:n:n]
	}
	b := make([]byte, n)
	x := uint32(salt)*2654435761 + 12345
	for i := range b {
		// xorshift32 stream - a fixed sequence, not a source of randomness.
		x ^= x << 13
		x ^= x >> 17
		x ^= x << 5
		b[i] = byte(x >> 11)
	}
	patternCache[salt] = b
	return b
}

const (
	saltNew = 1
	saltOld = 2
	oldSize = 7
)

func sum(b []byte) []byte {
	h := sha1.Sum(b)
	return h[:]
}

// ---------------------------------------------------------------------------
// Independent disk observation (os package only; nothing from mutagen).
// ---------------------------------------------------------------------------

type finfo struct {
	Mode   uint32 // full st_mode
	Size   int64
	Mtime  int64
	Ino    uint64
	Dev    uint64
	Sum    string // hex SHA-1 of a regular file's bytes
	Target string // link target
}

func (f finfo) isDir() bool  { return f.Mode&syscall.S_IFMT == syscall.S_IFDIR }
func (f finfo) isFile() bool { return f.Mode&syscall.S_IFMT == syscall.S_IFREG }
func (f finfo) isLink() bool { return f.Mode&syscall.S_IFMT == syscall.S_IFLNK }

func (f finfo) String() string {
	return fmt.Sprintf("{mode %o size %d mtime %d ino %d sha1 %.8s target %q}", f.Mode, f.Size, f.Mtime, f.Ino, f.Sum, f.Target)
}

// sameObject: type, permission bits, identity, and for non-directories size,
// modification time, bytes and link target. (Directory sizes and times change
// when a sibling entry is created or removed, which no property forbids.)
func sameObject(a, b finfo) bool {
	if a.isDir() || b.isDir() {
		return a.Mode == b.Mode && a.Ino == b.Ino && a.Dev == b.Dev
	}
	return a == b
}

func statOne(abs string) (finfo, error) {
	st, err := os.Lstat(abs)
	if err != nil {
		return finfo{}, err
	}
	sys := st.Sys().(*syscall.Stat_t)
	fi := finfo{Mode: sys.Mode, Size: sys.Size, Mtime: sys.Mtim.Nano(), Ino: sys.Ino, Dev: uint64(sys.Dev)}
	switch {
	case fi.isFile():
		f, err := os.Open(abs)
		if err != nil {
			return fi, err
		}
		h := sha1.New()
		_, err = io.Copy(h, f)
		f.Close()
		if err != nil {
			return fi, err
		}
		fi.Sum = hex.EncodeToString(h.Sum(nil))
	case fi.isLink():
		t, err := os.Readlink(abs)
		if err != nil {
			return fi, err
		}
		fi.Target = t
	}
	return fi, nil
}

// snapshot walks root with lstat/readlink/read; "" is the root itself.
func snapshot(root string) (map[string]finfo, error) {
	out := map[string]finfo{}
	var walk func(abs, rel string) error
	walk = func(abs, rel string) error {
		fi, err := statOne(abs)
		if err != nil {
			if os.IsNotExist(err) && rel == "" {
				return nil
			}
			return err
		}
		out[rel] = fi
		if fi.isDir() {
			ents, err := os.ReadDir(abs)
			if err != nil {
				return err
			}
			for _, e := range ents {
				if err := walk(filepath.Join(abs, e.Name()), join(rel, e.Name())); err != nil {
					return err
				}
			}
		}
		return nil
	}
	return out, walk(root, "")
}

// ---------------------------------------------------------------------------
// World: one worker's scratch areas (one per filesystem) and hook state.
// ---------------------------------------------------------------------------

type point struct {
	Op   string `json:"op"`
	Path string `json:"path"` // "root/..." or "stage/..."; temporary names canonicalised to <tmp>
	Occ  int    `json:"occ"`
}

func (p point) String() string { return fmt.Sprintf("%s %s #%d", p.Op, p.Path, p.Occ) }

type world struct {
	fast string // scratch directory on tmpfs when available (else same as slow)
	slow string // scratch directory under the test's temp directory
	two  bool   // fast and slow are on different devices

	// Per-case locations.
	root  string
	stage string

	// Hook state; only touched from the goroutine that calls core.Transition
	// (hook points and the Provider callback are invoked synchronously).
	hooking  atomic.Bool
	log      []point
	counts   map[string]int
	renameTo map[string]int
	inject   bool // first rename aimed at each target reports EXDEV
	nosup    bool // renameat2 reports ENOTSUP
	onPoint  func(p point, renameOrdinal int)
	fallback int // temporaries created by the cross-device path (vacuity guard)
}

var (
	worldsMu sync.Mutex
	worlds   []*world
)

func newWorld(fastParent, slowParent string, i int) (*world, error) {
	w := &world{
		fast: filepath.Join(fastParent, "w"+strconv.Itoa(i)),
		slow: filepath.Join(slowParent, "w"+strconv.Itoa(i)),
	}
	for _, d := range []string{w.fast, w.slow} {
		if err := os.MkdirAll(d, 0o700); err != nil {
			return nil, err
		}
	}
	var a, b syscall.Stat_t
	if err := syscall.Stat(w.fast, &a); err != nil {
		return nil, err
	}
	if err := syscall.Stat(w.slow, &b); err != nil {
		return nil, err
	}
	w.two = a.Dev != b.Dev
	worldsMu.Lock()
	worlds = append(worlds, w)
	worldsMu.Unlock()
	return w, nil
}

func emptyDir(d string) error {
	ents, err := os.ReadDir(d)
	if err != nil {
		return err
	}
	for _, e := range ents {
		if err := os.RemoveAll(filepath.Join(d, e.Name())); err != nil {
			return err
		}
	}
	return nil
}

// place empties the scratch areas and chooses root and staging directory for
// the device configuration.
func (w *world) place(dev string) error {
	if err := emptyDir(w.fast); err != nil {
		return err
	}
	if w.slow != w.fast {
		if err := emptyDir(w.slow); err != nil {
			return err
		}
	}
	switch dev {
	case "realfs":
		w.root, w.stage = filepath.Join(w.slow, "root"), filepath.Join(w.fast, "stage")
	case "realfs-rev":
		w.root, w.stage = filepath.Join(w.fast, "root"), filepath.Join(w.slow, "stage")
	default:
		w.root, w.stage = filepath.Join(w.fast, "root"), filepath.Join(w.fast, "stage")
	}
	if err := os.Mkdir(w.root, 0o700); err != nil {
		return err
	}
	return os.Mkdir(w.stage, 0o700)
}

// Provide implements core.Provider: the staged file of (path, digest).
func (w *world) Provide(path string, digest []byte) (string, error) {
	if w.hooking.Load() {
		if err := w.point("provide", join("root", path)); err != nil {
			return "", err
		}
	}
	return w.stagedPath(path, digest), nil
}

func (w *world) stagedPath(path string, digest []byte) string {
	ph := sha1.Sum([]byte(path))
	return filepath.Join(w.stage, hex.EncodeToString(digest)[:10]+"-"+hex.EncodeToString(ph[:4]))
}

func resolveFD(fd int, name string) string {
	if fd == unix.AT_FDCWD || fd < 0 {
		return name
	}
	p, err := os.Readlink("/proc/self/fd/" + strconv.Itoa(fd))
	if err != nil {
		return "?fd" + strconv.Itoa(fd) + "/" + name
	}
	p = strings.TrimSuffix(p, " (deleted)")
	if name == "" {
		return p
	}
	return p + "/" + name
}

func canonical(rel string) string {
	if !strings.Contains(rel, filesystem.TemporaryNamePrefix) {
		return rel
	}
	parts := strings.Split(rel, "/")
	for i, c := range parts {
		if strings.HasPrefix(c, filesystem.TemporaryNamePrefix) {
			parts[i] = "<tmp>"
		}
	}
	return strings.Join(parts, "/")
}

func under(abs, dir string) (string, bool) {
	if abs == dir {
		return "", true
	}
	if strings.HasPrefix(abs, dir+"/") {
		return abs[len(dir)+1:], true
	}
	return "", false
}

// hookHandler is the process-global verifhook handler: it dispatches on the
// resolved path to the world (worker) whose root or staging directory holds it.
func hookHandler(op string, fd int, name string) error {
	abs := resolveFD(fd, name)
	worldsMu.Lock()
	ws := worlds
	worldsMu.Unlock()
	for _, w := range ws {
		if !w.hooking.Load() {
			continue
		}
		if rel, ok := under(abs, w.root); ok {
			return w.point(op, canonical(join("root", rel)))
		}
		if rel, ok := under(abs, w.stage); ok {
			return w.point(op, canonical(join("stage", rel)))
		}
	}
	return nil
}

func (w *world) point(op, rel string) error {
	key := op + " " + rel
	occ := w.counts[key]
	w.counts[key] = occ + 1
	p := point{Op: op, Path: rel, Occ: occ}
	w.log = append(w.log, p)
	if op == "openat.create" && strings.HasSuffix(rel, "<tmp>") {
		w.fallback++
	}
	// renameOrdinal: for rename points, how many rename points (of either
	// variant) were aimed at this target before; -1 for other points. The
	// ENOTSUP probe of an unsupported renameat2 is counted as ordinal 0 too (it
	// precedes the fallback's existence probe), but does not advance the count.
	ord := -1
	isRename := op == "renameat" || op == "renameat2"
	if isRename {
		ord = w.renameTo[rel]
	}
	if w.onPoint != nil {
		w.onPoint(p, ord)
	}
	if op == "renameat2" && w.nosup {
		return unix.ENOTSUP
	}
	if isRename {
		w.renameTo[rel] = ord + 1
		// "the staging area is on another device": the rename of the staged file
		// into place - the first rename aimed at this target, whichever variant
		// is used - reports EXDEV; later renames to the same target (the
		// intermediate file's) are performed for real.
		if w.inject && ord == 0 {
			return unix.EXDEV
		}
	}
	return nil
}

func (w *world) startHooks(c xcase, onPoint func(p point, renameOrdinal int)) {
	w.log = nil
	w.counts = map[string]int{}
	w.renameTo = map[string]int{}
	w.inject = c.injects()
	w.nosup = c.nosup()
	w.onPoint = onPoint
	w.fallback = 0
	w.hooking.Store(true)
}

func (w *world) stopHooks() {
	w.hooking.Store(false)
	w.onPoint = nil
}

var emptyIgnorer ignore.Ignorer

func init() {
	debug.SetGCPercent(400)
	i, err := mutagenignore.NewIgnorer(nil)
	if err != nil {
		panic(err)
	}
	emptyIgnorer = i
}

// scan calls core.Scan with the argument shape of the local endpoint's full scan.
func (w *world) scan() (*core.Snapshot, *core.Cache, error) {
	s, c, _, err := core.Scan(
		context.Background(), w.root, nil, nil, sha1.New(),
		&core.Cache{Entries: map[string]*core.CacheEntry{"\x00cold": {}}},
		emptyIgnorer, ignore.IgnoreCache{ignore.IgnoreCacheKey{Path: "\x00cold"}: ignore.IgnoreCacheValue{}},
		behavior.ProbeMode_ProbeModeProbe,
		core.SymbolicLinkMode_SymbolicLinkModePortable,
		core.PermissionsMode_PermissionsModePortable,
	)
	return s, c, err
}

// ---------------------------------------------------------------------------
// Fixtures.
// ---------------------------------------------------------------------------

var (
	baseTime = time.Unix(1_000_000_000, 123_456_789)
	userTime = time.Unix(1_100_000_000, 987_654_321)
)

func writeFile(path string, data []byte, exec bool, mtime time.Time) error {
	mode := os.FileMode(0o600)
	if exec {
		mode = 0o700
	}
	if err := os.WriteFile(path, data, mode); err != nil {
		return err
	}
	if err := os.Chmod(path, mode); err != nil {
		return err
	}
	return os.Chtimes(path, mtime, mtime)
}

// buildRoot creates root/{keep, zz-pipe, d1/{keep, zz-pipe, d2/{keep, zz-pipe}}}:
// tracked files and, in every directory, a FIFO (untracked from the start).
// It returns the relative paths of the FIFOs.
func (w *world) buildRoot() ([]string, error) {
	var fifos []string
	for _, d := range []string{"", "d1", "d1/d2"} {
		abs := filepath.Join(w.root, d)
		if d != "" {
			if err := os.Mkdir(abs, 0o700); err != nil {
				return nil, err
			}
		}
		if err := writeFile(filepath.Join(abs, "keep"), []byte("tracked "+d), false, baseTime); err != nil {
			return nil, err
		}
		if err := syscall.Mkfifo(filepath.Join(abs, "zz-pipe"), 0o640); err != nil {
			return nil, err
		}
		fifos = append(fifos, join(d, "zz-pipe"))
	}
	return fifos, nil
}

// objectKinds are the untracked things a user (or another program) can put at
// a path after the scan.
var objectKinds = []string{"file", "fifo", "symlink", "dir+file", "emptydir", "socket"}

// placeObject creates the untracked object of the given kind at root/rel
// (removing whatever the harness itself had put there before, which models the
// user replacing it) and returns the paths it consists of.
func (w *world) placeObject(kind, rel string) ([]string, error) {
	abs := filepath.Join(w.root, rel)
	if err := os.RemoveAll(abs); err != nil {
		return nil, err
	}
	switch kind {
	case "file":
		// Different size and modification time than anything the harness plans
		// or scanned, so that inode reuse cannot make it look like the old file.
		return []string{rel}, writeFile(abs, []byte("the user's own, unsynchronized notes\n"), false, userTime)
	case "fifo":
		return []string{rel}, syscall.Mkfifo(abs, 0o644)
	case "socket":
		return []string{rel}, syscall.Mknod(abs, syscall.S_IFSOCK|0o600, 0)
	case "symlink":
		return []string{rel}, os.Symlink("elsewhere/precious", abs)
	case "emptydir":
		return []string{rel}, os.Mkdir(abs, 0o750)
	case "dir+file":
		if err := os.Mkdir(abs, 0o750); err != nil {
			return nil, err
		}
		return []string{rel, join(rel, "k")}, writeFile(filepath.Join(abs, "k"), []byte("precious"), false, userTime)
	}
	return nil, fmt.Errorf("bad object kind %q", kind)
}

// ---------------------------------------------------------------------------
// One execution.
// ---------------------------------------------------------------------------

type xresult struct {
	err       error // harness (infrastructure) error
	skipped   string
	results   []*core.Entry
	problems  []*core.Problem
	missing   bool
	log       []point
	fallback  int  // cross-device temporaries created
	whenFired bool // the untracked object's appearance point was reached
	pre, post map[string]finfo
	untracked map[string]finfo // untracked objects as the harness left them (path -> identity)
	scanned   *core.Entry      // scan content (before any post-scan object)
	oldEntry  *core.Entry
	newEntry  *core.Entry // the planned file entry
	change    *core.Change
	planned   []byte
	old       []byte
	tempsLeft int
}

func problemsString(ps []*core.Problem) string {
	out := make([]string, 0, len(ps))
	for _, p := range ps {
		out = append(out, p.Path+": "+p.Error)
	}
	sort.Strings(out)
	return strings.Join(out, " | ")
}

func entryAt(e *core.Entry, path string) *core.Entry {
	if path == "" || e == nil {
		return e
	}
	head, rest, _ := strings.Cut(path, "/")
	return entryAt(e.Contents[head], rest)
}

// whenMatches: is p the point at which the untracked object is to appear?
func whenMatches(c xcase, p point, renameOrdinal int) bool {
	target := join("root", c.filePath())
	switch c.When {
	case "provide":
		return p.Op == "provide" && p.Path == target && p.Occ == 0
	case "first-rename":
		// Immediately before the first rename attempt aimed at the target (with
		// renameat2 unsupported this is the refused renameat2, which precedes the
		// fallback's existence probe).
		return renameOrdinal == 0 && p.Path == target && p.Occ == 0 && (p.Op == "renameat2" || !c.nosup())
	case "tmp-create":
		return p.Op == "openat.create" && strings.HasSuffix(p.Path, "<tmp>") && p.Occ == 0
	case "post-copy":
		// The open that precedes the chmod of the intermediate file: the copy is done.
		return p.Op == "openat" && strings.HasSuffix(p.Path, "<tmp>") && p.Occ == 0
	case "final-rename":
		// Immediately before the rename of the intermediate file into place.
		return renameOrdinal == 1 && p.Path == target
	}
	return false
}

// run executes one case in world w. rlimit < 0: no file size limit.
func (w *world) run(c xcase, verbose func(string, ...any)) (res xresult) {
	if verbose == nil {
		verbose = func(string, ...any) {}
	}
	if c.realfs() && !w.two {
		res.skipped = "no second filesystem"
		return
	}
	fail := func(err error) xresult { res.err = err; return res }
	if err := w.place(c.Dev); err != nil {
		return fail(err)
	}
	fifos, err := w.buildRoot()
	if err != nil {
		return fail(err)
	}
	res.planned = pattern(c.Size, saltNew)
	res.newEntry = &core.Entry{Kind: core.EntryKind_File, Executable: c.Exec, Digest: sum(res.planned)}
	cp, fp := c.changePath(), c.filePath()
	if c.Shape == "swap" {
		res.old = pattern(oldSize, saltOld)
		if err := writeFile(filepath.Join(w.root, fp), res.old, c.OldExec, baseTime); err != nil {
			return fail(err)
		}
	}

	// The scan the plan is based on.
	snap, cache, err := w.scan()
	if err != nil {
		return fail(fmt.Errorf("scan: %w", err))
	}
	res.scanned = snap.Content
	switch c.Shape {
	case "create":
		res.change = &core.Change{Path: cp, New: res.newEntry}
	case "swap":
		res.oldEntry = entryAt(snap.Content, fp)
		if res.oldEntry == nil || res.oldEntry.Kind != core.EntryKind_File || res.oldEntry.Executable != c.OldExec {
			return fail(fmt.Errorf("scan did not report the old file as expected: %v", res.oldEntry))
		}
		res.change = &core.Change{Path: cp, Old: res.oldEntry, New: res.newEntry}
	case "newdir":
		res.change = &core.Change{Path: cp, New: &core.Entry{Kind: core.EntryKind_Directory, Contents: map[string]*core.Entry{"t": res.newEntry}}}
	default:
		return fail(fmt.Errorf("bad shape %q", c.Shape))
	}
	if c.Shape != "swap" && entryAt(snap.Content, cp) != nil {
		return fail(fmt.Errorf("scan reported content at the creation path"))
	}

	// Staging.
	staged := w.stagedPath(fp, res.newEntry.Digest)
	var feeder *fifoFeeder
	switch {
	case c.Fault == "missing":
	case c.Fault == "readerr":
		// A staged "file" whose read fails at offset 0 (EISDIR).
		if err := os.Mkdir(staged, 0o700); err != nil {
			return fail(err)
		}
	case strings.HasPrefix(c.Fault, "midcopy:"):
		if err := syscall.Mkfifo(staged, 0o600); err != nil {
			return fail(err)
		}
	default:
		if err := os.WriteFile(staged, res.planned, 0o600); err != nil {
			return fail(err)
		}
	}

	// Untracked objects: the FIFOs present from the start, and the one appearing later.
	res.untracked = map[string]finfo{}
	record := func(paths []string) error {
		for _, p := range paths {
			fi, err := statOne(filepath.Join(w.root, p))
			if err != nil {
				return err
			}
			res.untracked[p] = fi
		}
		return nil
	}
	if err := record(fifos); err != nil {
		return fail(err)
	}
	appear := func() error {
		paths, err := w.placeObject(c.Obj, c.objPath())
		if err != nil {
			return err
		}
		res.whenFired = true
		return record(paths)
	}
	if c.Obj != "" && c.When == "pre" {
		if err := appear(); err != nil {
			return fail(err)
		}
	}
	if res.pre, err = snapshot(w.root); err != nil {
		return fail(err)
	}

	// The transition.
	ctx, cancel := context.WithCancel(context.Background())
	defer cancel()
	var hookErr error
	w.startHooks(c, func(p point, ord int) {
		if c.Obj != "" && c.When != "pre" && !res.whenFired && whenMatches(c, p, ord) {
			verbose("  object %s appears at %s (point %v)", c.Obj, c.objPath(), p)
			if err := appear(); err != nil && hookErr == nil {
				hookErr = err
			}
		}
		if strings.HasPrefix(c.Fault, "cancel@") && c.Fault == "cancel@"+p.String() {
			verbose("  cancel at %v", p)
			cancel()
		}
	})
	if c.Fault == "cancel-pre" {
		cancel()
	}
	if a, ok := strings.CutPrefix(c.Fault, "midcopy:"); ok {
		n, _ := strconv.Atoi(a)
		feeder = startFeeder(staged, res.planned, n, cancel)
	}
	var restore func()
	if l, ok := strings.CutPrefix(c.Fault, "wfail:"); ok {
		n, _ := strconv.Atoi(l)
		if restore, err = limitFileSize(uint64(n)); err != nil {
			w.stopHooks()
			return fail(err)
		}
	}
	res.results, res.problems, res.missing = core.Transition(
		ctx, w.root, []*core.Change{res.change}, cache,
		core.SymbolicLinkMode_SymbolicLinkModePortable,
		filesystem.Mode(0o600), filesystem.Mode(0o700),
		nil, snap.DecomposesUnicode, w,
	)
	if restore != nil {
		restore()
	}
	w.stopHooks()
	res.log, res.fallback = w.log, w.fallback
	if feeder != nil {
		if err := feeder.stop(); err != nil {
			return fail(err)
		}
	}
	if hookErr != nil {
		return fail(hookErr)
	}
	if res.post, err = snapshot(w.root); err != nil {
		return fail(err)
	}
	for p := range res.post {
		if strings.Contains(p, filesystem.TemporaryNamePrefix) {
			res.tempsLeft++
		}
	}
	verbose("  case %s", c.key())
	for _, p := range res.log {
		verbose("    point %v", p)
	}
	verbose("  results %v problems [%s] missing %v fallback-temporaries %d", describeAll(res.results), problemsString(res.problems), res.missing, res.fallback)
	return res
}

func describe(e *core.Entry) string {
	if e == nil {
		return "-"
	}
	switch e.Kind {
	case core.EntryKind_File:
		s := "F(" + hex.EncodeToString(e.Digest)[:6] + ")"
		if e.Executable {
			s += "x"
		}
		return s
	case core.EntryKind_SymbolicLink:
		return "L(" + e.Target + ")"
	case core.EntryKind_Directory:
		names := make([]string, 0, len(e.Contents))
		for k := range e.Contents {
			names = append(names, k)
		}
		sort.Strings(names)
		parts := make([]string, 0, len(names))
		for _, k := range names {
			parts = append(parts, k+":"+describe(e.Contents[k]))
		}
		return "D{" + strings.Join(parts, ",") + "}"
	}
	return e.Kind.String()
}

func describeAll(es []*core.Entry) string {
	parts := make([]string, len(es))
	for i, e := range es {
		parts[i] = describe(e)
	}
	return "[" + strings.Join(parts, " ") + "]"
}

// reportedFile is the entry the transition reports at the planned FILE's path.
func (res *xresult) reportedFile(c xcase) *core.Entry {
	if len(res.results) != 1 {
		return nil
	}
	if c.Shape == "newdir" {
		return entryAt(res.results[0], "t")
	}
	return res.results[0]
}

// reportsApplied: the transition claims the planned file was created / swapped in.
func (res *xresult) reportsApplied(c xcase) bool {
	e := res.reportedFile(c)
	return e != nil && e.Kind == core.EntryKind_File && hex.EncodeToString(e.Digest) == hex.EncodeToString(res.newEntry.Digest)
}

// ---------------------------------------------------------------------------
// Mid-copy cancellation: the staged "file" is a FIFO fed by the harness, which
// lets the harness cancel the context while the copy loop is running.
// ---------------------------------------------------------------------------

type fifoFeeder struct {
	done chan struct{}
	quit chan struct{}
	err  error
}

// startFeeder writes data[:a] into the FIFO, waits until the copier has taken
// all of it, cancels, and then offers the rest (which must be long enough for
// the copier to reach its next preemption check).
func startFeeder(path string, data []byte, a int, cancel context.CancelFunc) *fifoFeeder {
	f := &fifoFeeder{done: make(chan struct{}), quit: make(chan struct{})}
	go func() {
		defer close(f.done)
		var w *os.File
		for {
			// Non-blocking open: ENXIO until the copier opens the read end.
			var err error
			w, err = os.OpenFile(path, os.O_WRONLY|syscall.O_NONBLOCK, 0)
			if err == nil {
				break
			}
			select {
			case <-f.quit:
				return
			default:
			}
			if !isErrno(err, syscall.ENXIO) && !os.IsNotExist(err) {
				f.err = err
				return
			}
			runtime.Gosched()
			time.Sleep(50 * time.Microsecond) // pacing only; nothing depends on the duration
		}
		defer w.Close()
		if _, err := w.Write(data[:a]); err != nil {
			return // reader went away; the oracle judges the outcome
		}
		// Wait until the pipe is drained: the copier has read everything offered.
		raw, err := w.SyscallConn()
		if err != nil {
			f.err = err
			return
		}
		for {
			n := -1
			raw.Control(func(fd uintptr) { n, _ = unix.IoctlGetInt(int(fd), unix.TIOCINQ) })
			if n == 0 {
				break
			}
			select {
			case <-f.quit:
				return
			default:
			}
			runtime.Gosched()
		}
		cancel()
		w.Write(data[a:]) // EPIPE once the copier has noticed the cancellation
	}()
	return f
}

func (f *fifoFeeder) stop() error {
	close(f.quit)
	<-f.done
	return f.err
}

func isErrno(err error, e syscall.Errno) bool {
	for err != nil {
		if en, ok := err.(syscall.Errno); ok {
			return en == e
		}
		u, ok := err.(interface{ Unwrap() error })
		if !ok {
			return false
		}
		err = u.Unwrap()
	}
	return false
}

// ---------------------------------------------------------------------------
// Write failures: RLIMIT_FSIZE in a re-executed child process.
// ---------------------------------------------------------------------------

// limitFileSize sets the soft RLIMIT_FSIZE of this process (SIGXFSZ must be
// ignored) and returns the function restoring it. Only used in child processes.
func limitFileSize(n uint64) (func(), error) {
	if os.Getenv(childEnv) == "" {
		return nil, fmt.Errorf("file size limits are only applied in child processes")
	}
	var old syscall.Rlimit
	if err := syscall.Getrlimit(syscall.RLIMIT_FSIZE, &old); err != nil {
		return nil, err
	}
	if err := syscall.Setrlimit(syscall.RLIMIT_FSIZE, &syscall.Rlimit{Cur: n, Max: old.Max}); err != nil {
		return nil, err
	}
	return func() { syscall.Setrlimit(syscall.RLIMIT_FSIZE, &old) }, nil
}

const childEnv = "VERIF_XDEV_CHILD"

// childVerdict is what a child reports per case.
type childVerdict struct {
	Key      string `json:"key"`
	What     string `json:"what"`    // violation ("" = none)
	Outcome  string `json:"outcome"` // outcome class
	Fallback int    `json:"fallback"`
	Temps    int    `json:"temps"`
	Skipped  string `json:"skipped,omitempty"`
	Err      string `json:"err,omitempty"`
	Trace    string `json:"trace,omitempty"`
}

// TestXdevChild is the entry point of the re-executed test binary: it runs the
// cases named in the spec file (which carry file size limits) one after the
// other, judges each with the C10 oracle and prints one RESULT line per case.
func TestXdevChild(t *testing.T) {
	spec := os.Getenv(childEnv)
	if spec == "" {
		t.Skip("only meaningful in a re-executed child process")
	}
	signal.Ignore(syscall.SIGXFSZ)
	var in struct {
		Fast, Slow string
		Verbose    bool
		Cases      []xcase
	}
	data, err := os.ReadFile(spec)
	if err == nil {
		err = json.Unmarshal(data, &in)
	}
	if err != nil {
		fmt.Fprintln(os.Stderr, "bad child spec:", err)
		os.Exit(3)
	}
	verifhook.Set(hookHandler)
	w, err := newWorld(in.Fast, in.Slow, 0)
	if err != nil {
		fmt.Fprintln(os.Stderr, "child world:", err)
		os.Exit(3)
	}
	for _, c := range in.Cases {
		var trace strings.Builder
		var verbose func(string, ...any)
		if in.Verbose {
			verbose = func(f string, a ...any) { fmt.Fprintf(&trace, f+"\n", a...) }
		}
		res := w.run(c, verbose)
		v := childVerdict{Key: c.key(), Fallback: res.fallback, Temps: res.tempsLeft, Skipped: res.skipped, Trace: trace.String()}
		if res.err != nil {
			v.Err = res.err.Error()
		} else if res.skipped == "" {
			v.What, v.Outcome = judgeC10(c, &res)
		}
		out, _ := json.Marshal(v)
		fmt.Println("RESULT " + string(out))
	}
	os.Exit(0)
}

// runInChild runs the cases in one re-executed child and returns its verdicts in order.
func runInChild(fast, slow string, cases []xcase, verbose bool) ([]childVerdict, error) {
	dir, err := os.MkdirTemp(slow, "child-")
	if err != nil {
		return nil, err
	}
	defer os.RemoveAll(dir)
	cfast, err := os.MkdirTemp(fast, "child-")
	if err != nil {
		return nil, err
	}
	defer os.RemoveAll(cfast)
	spec := filepath.Join(dir, "spec.json")
	data, _ := json.Marshal(map[string]any{"Fast": cfast, "Slow": dir, "Verbose": verbose, "Cases": cases})
	if err := os.WriteFile(spec, data, 0o600); err != nil {
		return nil, err
	}
	exe, err := os.Executable()
	if err != nil {
		exe = os.Args[0]
	}
	cmd := exec.Command(exe, "-test.run=^TestXdevChild$")
	cmd.Env = append(os.Environ(), childEnv+"="+spec)
	var stderr strings.Builder
	cmd.Stderr = &stderr
	out, err := cmd.Output()
	if err != nil {
		return nil, fmt.Errorf("child: %v: %s", err, stderr.String())
	}
	var vs []childVerdict
	for _, line := range strings.Split(string(out), "\n") {
		if rest, ok := strings.CutPrefix(line, "RESULT "); ok {
			var v childVerdict
			if err := json.Unmarshal([]byte(rest), &v); err != nil {
				return nil, err
			}
			vs = append(vs, v)
		}
	}
	if len(vs) != len(cases) {
		return nil, fmt.Errorf("child returned %d verdicts for %d cases: %s", len(vs), len(cases), stderr.String())
	}
	return vs, nil
}

// ---------------------------------------------------------------------------
// Scratch directories.
// ---------------------------------------------------------------------------

// scratch returns (fast, slow): a fresh directory on tmpfs (/dev/shm) when
// available and one under the test's temp directory. When there is no tmpfs
// both are under the temp directory (and the two-filesystem configurations
// are skipped, which is recorded).
func scratch(t *testing.T) (fast, slow string) {
	slow = t.TempDir()
	if s, err := filepath.EvalSymlinks(slow); err == nil {
		slow = s
	}
	if st, err := os.Stat("/dev/shm"); err == nil && st.IsDir() {
		if d, err := os.MkdirTemp("/dev/shm", "verif-xdev-"); err == nil {
			t.Cleanup(func() { os.RemoveAll(d) })
			if s, err := filepath.EvalSymlinks(d); err == nil {
				d = s
			}
			return d, slow
		}
	}
	fast = filepath.Join(slow, "fast")
	os.Mkdir(fast, 0o700)
	return fast, filepath.Join(slow, "slow")
}

// pool is a set of worlds; a worker borrows one per unit of work.
type pool struct {
	fast, slow string
	ws         []*world
	free       chan *world
	two        bool
}

func (p *pool) get() *world  { return <-p.free }
func (p *pool) put(w *world) { p.free <- w }

func newPool(t *testing.T, n int) *pool {
	fast, slow := scratch(t)
	p := &pool{fast: fast, slow: slow}
	for i := 0; i < n; i++ {
		w, err := newWorld(fast, slow, i)
		if err != nil {
			t.Fatalf("INFRA: %v", err)
		}
		p.ws = append(p.ws, w)
	}
	p.two = p.ws[0].two
	p.free = make(chan *world, n)
	for _, w := range p.ws {
		p.free <- w
	}
	verifhook.Set(hookHandler)
	t.Cleanup(func() {
		verifhook.Set(nil)
		worldsMu.Lock()
		worlds = nil
		worldsMu.Unlock()
	})
	return p
}
