//go:build verif

package xdev

import (
	"crypto/sha1"
	"encoding/hex"
	"encoding/json"
	"fmt"
	"strings"
	"sync"
	"sync/atomic"
	"testing"

	"verif/internal/vr"
)

// C10, cross-device leg. Statement: "Every file that synchronization creates or
// replaces in a synchronization root has content whose digest equals the digest
// named in the plan. Corrupt, truncated or mismatched transfers never reach the
// root; they are reported as missing files instead."
//
// Between the (content-addressed, verified) staging area and the root there is
// one more transfer when the two are on different devices: the copy into an
// intermediate file next to the target. This leg fails that copy in every way
// the harness can own and looks at what ends up under the planned name.

const copyBuffer = 32 * 1024       // transitionCopyBufferSize
const preemptionInterval = 1024    // transitionCopyPreemptionInterval: the cancellation poll precedes write #1025, #2050, ...
const firstPollSize = preemptionInterval*copyBuffer + 1 // smallest file whose copy reaches a cancellation poll

// judgeC10 returns the violated clause ("" = none) and the outcome class.
func judgeC10(c xcase, res *xresult) (what, outcome string) {
	fp := c.filePath()
	plannedSum := hex.EncodeToString(sum(res.planned))
	post, exists := res.post[fp]
	applied := res.reportsApplied(c)
	var bad []string
	state := "absent"
	switch {
	case exists && post.isFile():
		pre, had := res.pre[fp]
		switch {
		case post.Sum == plannedSum && post.Size == int64(len(res.planned)):
			state = "planned"
		case c.Shape == "swap" && had && sameObject(pre, post):
			state = "old-untouched"
		default:
			// "has content whose digest equals the digest named in the plan.
			// Corrupt, truncated or mismatched transfers never reach the root".
			state = "wrong-content"
			detail := ""
			if post.Size < int64(len(res.planned)) {
				h := sha1.Sum(res.planned[:post.Size])
				if hex.EncodeToString(h[:]) == post.Sum {
					detail = " - it is a truncated prefix of the planned content"
				}
			}
			bad = append(bad, fmt.Sprintf("the file at planned path %q holds %d bytes (sha1 %.10s), which is neither the planned content (%d bytes, sha1 %.10s) nor the untouched previous content%s", fp, post.Size, post.Sum, len(res.planned), plannedSum, detail))
		}
	case exists:
		state = "non-regular"
	}
	if applied && state != "planned" {
		bad = append(bad, fmt.Sprintf("the transition reports %q as %s with the planned digest, but the path is %s", fp, map[bool]string{true: "replaced", false: "created"}[c.Shape == "swap"], state))
	}
	if c.Fault == "missing" {
		// "they are reported as missing files instead".
		if !res.missing || len(res.problems) == 0 {
			bad = append(bad, fmt.Sprintf("the staged file was missing, but the transition reported missing=%v and problems [%s]", res.missing, problemsString(res.problems)))
		}
	}
	pc := "no-problem"
	if len(res.problems) > 0 {
		pc = problemClass(res.problems[0].Error)
	}
	outcome = fmt.Sprintf("applied=%v/%s/%s/fallback=%v", applied, state, pc, res.fallback > 0)
	return strings.Join(bad, "; "), outcome
}

// c10group is one (configuration, shape, size): the fault-free run yields the
// points at which the context is then cancelled, one run per point.
type c10group struct {
	base   xcase
	faults []string // further faults to run in-process
}

func c10groups(twoFS bool) (groups []c10group, child []xcase) {
	cross := []string{"inject", "inject-nosup"}
	if twoFS {
		cross = append(cross, "realfs", "realfs-rev")
	}
	devs := append([]string{"same"}, cross...)
	shapes := []string{"create", "swap", "newdir"}
	depths := []int{1}
	small := []int{0, 1, 100, copyBuffer - 1, copyBuffer, copyBuffer + 1, 2 * copyBuffer, 100000, 3 << 20}
	big := []int{firstPollSize - 1, firstPollSize}
	midA := []int{0, 1, copyBuffer, 1 << 20}
	if vr.Thorough() {
		depths = []int{0, 1, 2}
		big = append(big, firstPollSize+4096, 2*firstPollSize-1, 2*firstPollSize)
		midA = append(midA, copyBuffer+1, 5<<20, firstPollSize)
	}
	for _, depth := range depths {
		for _, dev := range devs {
			for _, shape := range shapes {
				mk := func(size int) xcase {
					c := xcase{Depth: depth, Shape: shape, Size: size, Dev: dev, Exec: size%2 == 1}
					if shape == "swap" {
						c.OldExec = c.Exec
					}
					return c
				}
				for _, size := range small {
					g := c10group{base: mk(size), faults: []string{"cancel-pre"}}
					if size == 100 {
						g.faults = append(g.faults, "missing")
					}
					if dev != "same" && (size == 1 || size == 100000) {
						// The staged "file" cannot be read (EISDIR at offset 0).
						g.faults = append(g.faults, "readerr")
					}
					groups = append(groups, g)
				}
				if dev == "same" || dev == "inject-nosup" || (depth != 1 && dev != "inject") {
					continue
				}
				// Files long enough for the copy's cancellation poll to be reached.
				for _, size := range big {
					groups = append(groups, c10group{base: mk(size)})
				}
				// Cancellation while the copy loop is running: A bytes are copied,
				// then the context is cancelled, then at least 1026 more buffers are
				// offered, so a poll certainly follows the cancellation.
				if shape != "newdir" {
					for _, a := range midA {
						c := mk(a + (preemptionInterval+2)*copyBuffer)
						c.Fault = fmt.Sprintf("midcopy:%d", a)
						groups = append(groups, c10group{base: c})
					}
				}
			}
		}
	}
	// Write failures (child processes): the write that would carry the
	// intermediate file past L bytes fails with EFBIG.
	for _, dev := range cross {
		for _, shape := range shapes {
			for _, size := range []int{1, 100, copyBuffer, copyBuffer + 1, 100000, 3 << 20} {
				limits := []int{0, 1, 4096, copyBuffer, copyBuffer + 1, 2 * copyBuffer, size - 1, size}
				if vr.Thorough() {
					limits = append(limits, 4095, 4097, copyBuffer-1, 99999, 1<<20, 1<<20+1, 3<<20-4096)
				}
				seen := map[int]bool{}
				for _, l := range limits {
					if l < 0 || l > size || seen[l] {
						continue
					}
					seen[l] = true
					c := xcase{Depth: 1, Shape: shape, Size: size, Dev: dev, Fault: fmt.Sprintf("wfail:%d", l)}
					child = append(child, c)
				}
			}
		}
	}
	return
}

func TestC10CrossDevice(t *testing.T) {
	r := vr.New(t, "C10", "fault_enumeration")
	defer r.Finish()
	p := newPool(t, vr.Workers())

	if raw := vr.ReplayCase(); raw != nil {
		var c xcase
		if err := json.Unmarshal(raw, &c); err != nil {
			t.Fatalf("INFRA: replay case does not decode: %v", err)
		}
		r.Case(c.key(), true)
		if strings.HasPrefix(c.Fault, "wfail:") {
			vs, err := runInChild(p.fast, p.slow, []xcase{c}, true)
			if err != nil {
				t.Fatalf("INFRA: %v", err)
			}
			t.Logf("%s\noutcome %s; verdict: %q %s", vs[0].Trace, vs[0].Outcome, vs[0].What, vs[0].Err)
			if vs[0].What != "" {
				r.Violate(c.key(), vs[0].What, c, nil)
			}
			return
		}
		w := p.get()
		res := w.run(c, t.Logf)
		if res.err != nil || res.skipped != "" {
			t.Fatalf("INFRA: replay: %v %s", res.err, res.skipped)
		}
		what, outcome := judgeC10(c, &res)
		t.Logf("outcome %s; verdict: %q", outcome, what)
		if what != "" {
			r.Violate(c.key(), what, c, nil)
		}
		return
	}

	r.Rule("xdev leg: every (planned size in {0, 1, 100, one copy buffer -1/+0/+1, two buffers, 100000, 3 MiB} x plan shape {create file, swap file over file, create directory holding a file} x device configuration {same device (control), EXDEV injected at the first rename aimed at the target, EXDEV injected + renameat2 unsupported, staging really on another filesystem in both directions}) x copy outcome {complete; context cancelled before Transition; cancelled at every hook point / Provider callback the fault-free run passes; staged file missing; staged file unreadable (EISDIR)}; plus sizes around the copy's first (thorough: second) cancellation poll (1024 x 32 KiB +0/+1) with cancellation at every point, plus cancellation while the copy loop runs after A copied bytes (staged file is a FIFO fed by the harness), plus write failure of the intermediate file at byte limit L (RLIMIT_FSIZE in re-executed child processes, SIGXFSZ ignored) for L in {0, 1, 4096, one buffer +0/+1, two buffers, size-1, size}. Non-trivial: the cross-device copy path was entered (or, on the same device, the plan applied); distinct by the full tuple")
	r.Assume(
		"xdev leg: the copy of the staged file (os.Open / io.Copy) passes no hook point: cancellation strictly inside the copy is driven through a FIFO as staged file (cancel after A bytes were taken, then enough data for the next poll); read errors other than at offset 0 (EIO in the middle of the staged file) are not owned",
		"xdev leg: write failures are EFBIG from RLIMIT_FSIZE, standing in for ENOSPC/EDQUOT/EIO: the failing write is partial up to the limit, later writes fail",
		"xdev leg: temporaries (.mutagen-temporary-*) left in the root are counted, not judged",
	)

	groups, childCases := c10groups(p.two)
	r.Set("xdev_leg_two_filesystems", p.two)
	var reached, copyFailed, temps, ran atomic.Int64
	record := func(c xcase, what, outcome string, fallback, tempsLeft int, rerun func() bool) {
		ran.Add(1)
		nontrivial := fallback > 0 || (c.Dev == "same" && strings.HasPrefix(outcome, "applied=true"))
		r.Case(c.key(), nontrivial)
		r.Outcome(outcome)
		if fallback > 0 {
			reached.Add(1)
		}
		if fallback > 0 && (strings.Contains(outcome, "transition cancelled") || strings.Contains(outcome, "unable to copy")) {
			copyFailed.Add(1)
		}
		temps.Add(int64(tempsLeft))
		if what != "" {
			r.Violate(c.key(), what, c, rerun)
		}
	}
	runOne := func(w *world, c xcase) (xresult, bool) {
		res := w.run(c, nil)
		if res.err != nil {
			t.Errorf("INFRA: case %s: %v", c.key(), res.err)
			return res, false
		}
		if res.skipped != "" {
			return res, false
		}
		what, outcome := judgeC10(c, &res)
		record(c, what, outcome, res.fallback, res.tempsLeft, func() bool {
			// Synchronous, on the worker's own world (free again at this point).
			res2 := w.run(c, nil)
			if res2.err != nil || res2.skipped != "" {
				return false
			}
			again, _ := judgeC10(c, &res2)
			return again != ""
		})
		return res, true
	}

	// Write-failure cases run in child processes, concurrently with the rest.
	var wg sync.WaitGroup
	shards := 4
	if len(childCases) < shards {
		shards = 1
	}
	for s := 0; s < shards; s++ {
		var mine []xcase
		for i, c := range childCases {
			if i%shards == s {
				mine = append(mine, c)
			}
		}
		wg.Add(1)
		go func() {
			defer wg.Done()
			vs, err := runInChild(p.fast, p.slow, mine, false)
			if err != nil {
				t.Errorf("INFRA: %v", err)
				return
			}
			for i, v := range vs {
				c := mine[i]
				if v.Err != "" {
					t.Errorf("INFRA: child case %s: %s", c.key(), v.Err)
					continue
				}
				if v.Skipped != "" {
					continue
				}
				record(c, v.What, v.Outcome, v.Fallback, v.Temps, func() bool {
					again, err := runInChild(p.fast, p.slow, []xcase{c}, false)
					return err == nil && again[0].What != ""
				})
			}
		}()
	}

	vr.Parallel(len(groups), func(i int) {
		g := groups[i]
		w := p.get()
		defer p.put(w)
		res, ok := runOne(w, g.base)
		if !ok || g.base.Fault != "" {
			return
		}
		// Cancellation at every point the fault-free run passed.
		for _, pt := range res.log {
			c := g.base
			c.Fault = "cancel@" + pt.String()
			runOne(w, c)
		}
		for _, f := range g.faults {
			c := g.base
			c.Fault = f
			runOne(w, c)
		}
	})
	wg.Wait()

	r.Set("xdev_leg_cases", ran.Load())
	r.Set("xdev_leg_cross_device_copies", reached.Load())
	r.Set("xdev_leg_failed_copies_observed", copyFailed.Load())
	r.Set("xdev_leg_write_failure_cases", len(childCases))
	r.Set("xdev_leg_temporaries_left", temps.Load())
	r.Sample(map[string]any{"xdev_leg": "swap d1/t for 32 MiB + 1 byte with EXDEV injected; context cancelled at the Provider callback, so the copy is preempted at write #1025", "case": xcase{Depth: 1, Shape: "swap", Size: firstPollSize, Dev: "inject", Exec: true, OldExec: true, Fault: "cancel@provide root/d1/t #0"}})
	r.Sample(map[string]any{"xdev_leg": "create d1/t (100000 bytes), staging on another filesystem, write of the intermediate file fails at byte 32769", "case": xcase{Depth: 1, Shape: "create", Size: 100000, Dev: "realfs", Fault: "wfail:32769"}})
	if r.Violations() == 0 {
		if reached.Load() == 0 {
			t.Fatalf("INFRA: no case reached the cross-device copy path")
		}
		if copyFailed.Load() == 0 {
			t.Fatalf("INFRA: no case made the cross-device copy fail")
		}
	}
}
