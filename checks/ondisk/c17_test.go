//go:build verif

package ondisk

import (
	"bytes"
	"context"
	"crypto/sha1"
	"encoding/json"
	"fmt"
	"io"
	"os"
	"path"
	"path/filepath"
	"sort"
	"strings"
	"testing"
	"unsafe"

	"golang.org/x/sys/unix"
	"google.golang.org/protobuf/proto"

	"github.com/mutagen-io/mutagen/pkg/filesystem"
	"github.com/mutagen-io/mutagen/pkg/synchronization"
	"github.com/mutagen-io/mutagen/pkg/synchronization/core"
	"github.com/mutagen-io/mutagen/pkg/synchronization/endpoint/local"
	"github.com/mutagen-io/mutagen/pkg/synchronization/endpoint/local/staging/store"
	"github.com/mutagen-io/mutagen/pkg/synchronization/rsync"

	"verif/internal/vr"
)

// ---------------------------------------------------------------------------
// Canary: a directory outside the root, observed by inotify and by an
// lstat+bytes snapshot.
// ---------------------------------------------------------------------------

type canaryGuard struct {
	w      *world
	dir    string
	before map[string]finfo
	fd     int
	wds    map[int32]string
	points []point
}

// guard snapshots the canary, puts an inotify watch on every directory and
// file in it, and starts recording hook points that resolve into it.
func (w *world) guard() *canaryGuard {
	g := &canaryGuard{w: w, dir: filepath.Join(w.base, "canary"), wds: map[int32]string{}}
	var err error
	if g.before, err = snapshot(g.dir); err != nil {
		panic("INFRA: canary snapshot: " + err.Error())
	}
	if g.fd, err = unix.InotifyInit1(unix.IN_NONBLOCK | unix.IN_CLOEXEC); err != nil {
		panic("INFRA: inotify_init1: " + err.Error())
	}
	rels := make([]string, 0, len(g.before))
	for rel := range g.before {
		rels = append(rels, rel)
	}
	sort.Strings(rels)
	for _, rel := range rels {
		fi := g.before[rel]
		if !fi.isDir() && !fi.isFile() {
			continue // a link cannot be watched without following it
		}
		wd, err := unix.InotifyAddWatch(g.fd, filepath.Join(g.dir, rel), unix.IN_ALL_EVENTS|unix.IN_DONT_FOLLOW)
		if err != nil {
			panic("INFRA: inotify_add_watch: " + err.Error())
		}
		g.wds[int32(wd)] = rel
	}
	w.onPoint = func(p point) {
		if within(p.Path, "canary") {
			g.points = append(g.points, p)
		}
	}
	w.xdev, w.nosup = false, false
	w.startHooks(nil, nil)
	return g
}

var inotifyNames = []struct {
	bit  uint32
	name string
}{
	{unix.IN_ACCESS, "ACCESS"}, {unix.IN_MODIFY, "MODIFY"}, {unix.IN_ATTRIB, "ATTRIB"}, {unix.IN_CLOSE_WRITE, "CLOSE_WRITE"},
	{unix.IN_CLOSE_NOWRITE, "CLOSE_NOWRITE"}, {unix.IN_OPEN, "OPEN"}, {unix.IN_MOVED_FROM, "MOVED_FROM"}, {unix.IN_MOVED_TO, "MOVED_TO"},
	{unix.IN_CREATE, "CREATE"}, {unix.IN_DELETE, "DELETE"}, {unix.IN_DELETE_SELF, "DELETE_SELF"}, {unix.IN_MOVE_SELF, "MOVE_SELF"},
	{unix.IN_Q_OVERFLOW, "Q_OVERFLOW"}, {unix.IN_IGNORED, "IGNORED"}, {unix.IN_UNMOUNT, "UNMOUNT"},
}

// verdict stops observation and returns every sign that the canary was
// touched: inotify events (queued synchronously by the kernel inside the
// syscall that caused them, so none can arrive late), snapshot differences,
// and hook points whose descriptor resolved into the canary.
func (g *canaryGuard) verdict() []string {
	g.w.stopHooks()
	g.w.onPoint = nil
	var out []string
	buf := make([]byte, 1<<16)
	for {
		n, err := unix.Read(g.fd, buf)
		if err == unix.EINTR {
			continue
		}
		if err != nil || n <= 0 {
			break
		}
		for off := 0; off+unix.SizeofInotifyEvent <= n; {
			ev := (*unix.InotifyEvent)(unsafe.Pointer(&buf[off]))
			name := string(bytes.TrimRight(buf[off+unix.SizeofInotifyEvent:off+unix.SizeofInotifyEvent+int(ev.Len)], "\x00"))
			var bits []string
			for _, b := range inotifyNames {
				if ev.Mask&b.bit != 0 {
					bits = append(bits, b.name)
				}
			}
			out = append(out, fmt.Sprintf("inotify %s on canary/%s", strings.Join(bits, "|"), join(g.wds[ev.Wd], name)))
			off += unix.SizeofInotifyEvent + int(ev.Len)
		}
	}
	unix.Close(g.fd)
	after, err := snapshot(g.dir)
	if err != nil {
		panic("INFRA: canary snapshot: " + err.Error())
	}
	seen := map[string]bool{}
	for p := range g.before {
		seen[p] = true
	}
	for p := range after {
		seen[p] = true
	}
	keys := make([]string, 0, len(seen))
	for p := range seen {
		keys = append(keys, p)
	}
	sort.Strings(keys)
	for _, p := range keys {
		a, okA := g.before[p]
		b, okB := after[p]
		switch {
		case okA && !okB:
			out = append(out, fmt.Sprintf("canary/%s deleted", p))
		case !okA && okB:
			out = append(out, fmt.Sprintf("canary/%s created", p))
		case a != b: // strict: also directory size and times, owner, group
			out = append(out, fmt.Sprintf("canary/%s changed %v -> %v", p, a, b))
		}
	}
	for _, p := range g.points {
		out = append(out, "filesystem call inside the canary: "+p.String())
	}
	// Deduplicate (a file watch and its directory's watch report the same access).
	sort.Strings(out)
	uniq := out[:0]
	for i, s := range out {
		if i == 0 || s != out[i-1] {
			uniq = append(uniq, s)
		}
	}
	return uniq
}

// linkTarget computes the target of the link that replaces root/L.
func (w *world) linkTarget(L string, abs bool) string {
	name := path.Base(L)
	if abs {
		return filepath.Join(w.base, "canary", name)
	}
	return strings.Repeat("../", strings.Count(L, "/")+1) + "canary/" + name
}

// swapOut moves root/L out of the root (it becomes canary/<name>, keeping its
// inodes, times and bytes, so every cached expectation still matches it) and
// puts a symbolic link to it in its place.
func (w *world) swapOut(L string, abs bool) error {
	canary := filepath.Join(w.base, "canary")
	if err := os.MkdirAll(canary, 0o700); err != nil {
		return err
	}
	if err := os.Rename(filepath.Join(w.root, L), filepath.Join(canary, path.Base(L))); err != nil {
		return err
	}
	return os.Symlink(w.linkTarget(L, abs), filepath.Join(w.root, L))
}

// makeTwin creates canary/<name> as a copy of the model subtree with
// recognisable contents.
func (w *world) makeTwin(L string, n *node) error {
	canary := filepath.Join(w.base, "canary")
	if err := os.MkdirAll(canary, 0o700); err != nil {
		return err
	}
	var mark func(n *node) *node
	mark = func(n *node) *node {
		c := n.clone()
		if c.Kind == "f" {
			c.Data = "CANARY:" + c.Data
		}
		for k, v := range c.Kids {
			c.Kids[k] = mark(v)
		}
		return c
	}
	return materialize(filepath.Join(canary, path.Base(L)), mark(n))
}

// swapTwin renames root/L aside (inside the root) and links L to the twin.
func (w *world) swapTwin(L string, abs bool) error {
	if err := os.Rename(filepath.Join(w.root, L), filepath.Join(w.root, L+".old")); err != nil {
		return err
	}
	return os.Symlink(w.linkTarget(L, abs), filepath.Join(w.root, L))
}

// ---------------------------------------------------------------------------
// Cases.
// ---------------------------------------------------------------------------

const (
	c3 = "charlie-unique"
	c4 = "delta"
)

// tree17 is the root used by every C17 case.
func tree17() *node {
	sub := func(x string) *node {
		return nD("x", nF(x), "y", nF(c4), "l", nL(t1), "d", nD("y", nF(c2)))
	}
	a := sub(c1)
	a.Kids["s"] = sub(c3)
	return nD("a", a, "b", nF(c2))
}

type c17case struct {
	Leg     string   `json:"leg"`               // scan, transition, opener, transmit, receive, endpoint
	Link    string   `json:"link"`              // the in-root path that is (or becomes) a link to the canary
	Abs     bool     `json:"abs"`               // absolute link target
	When    string   `json:"when,omitempty"`    // transition/scan: "after-scan" or "before-scan"
	Op      string   `json:"op,omitempty"`      // transition operation / scan variant
	Path    string   `json:"path,omitempty"`    // planned path
	New     *node    `json:"new,omitempty"`     // planned new value
	Seq     []string `json:"seq,omitempty"`     // opener sequence / transmitted paths
	K       int      `json:"k,omitempty"`       // opener: the link appears before operation K
	Recheck []string `json:"recheck,omitempty"` // accelerated scan: re-check paths

	// Intra-operation legs (intra-transition, intra-scan, intra-opener): the
	// swap happens inside the operation, at hook point At.
	Tree    *node  `json:"tree,omitempty"`
	Plan    plan   `json:"plan,omitempty"`
	Cfg     config `json:"cfg,omitempty"`
	Env     string `json:"env,omitempty"`
	At      *point `json:"at,omitempty"`
	Variant string `json:"variant,omitempty"` // "leaf": the object named by the point; "parent": its parent directory
}

func (c c17case) key() string {
	if strings.HasPrefix(c.Leg, "intra-") {
		at := "record"
		if c.At != nil {
			at = c.At.String()
		}
		return fmt.Sprintf("leg=%s tree=%s plan=%s owner=%s env=%s seq=%v op=%s swap=%s at=[%s]", c.Leg, c.Tree, c.Plan, c.Cfg.Owner, c.Env, c.Seq, c.Op, c.Variant, at)
	}
	return fmt.Sprintf("leg=%s link=%s abs=%v when=%s op=%s path=%s new=%s seq=%v k=%d recheck=%v", c.Leg, c.Link, c.Abs, c.When, c.Op, c.Path, c.New, c.Seq, c.K, c.Recheck)
}

func c17cases(thorough bool) []c17case {
	var out []c17case
	tree := tree17()
	absRel := []bool{false, true}

	// Transition leg.
	type op struct {
		name string
		leaf string
		new  func(old *node) *node
	}
	ops := []op{
		{"remove-file", "x", func(*node) *node { return nil }},
		{"swap-file", "x", func(*node) *node { return nF(c2) }},
		{"swap-exec", "x", func(o *node) *node { n := o.clone(); n.Exec = true; return n }},
		{"file-to-dir", "x", func(*node) *node { return nD() }},
		{"remove-link", "l", func(*node) *node { return nil }},
		{"retarget-link", "l", func(*node) *node { return nL(t2) }},
		{"remove-dir", "d", func(*node) *node { return nil }},
		{"dir-to-file", "d", func(*node) *node { return nF(c1) }},
		{"create-file", "n", func(*node) *node { return nF(c2) }},
		{"create-dir", "n", func(*node) *node { return nD("y", nF(c1)) }},
		{"create-link", "n", func(*node) *node { return nL(t1) }},
	}
	for _, dir := range []string{"a", "a/s"} {
		for _, o := range ops {
			p := dir + "/" + o.leaf
			old := tree.at(p)
			// Link positions: every directory component on the way, and the leaf itself when it is a file or directory.
			var links []string
			for q := dir; ; q = path.Dir(q) {
				links = append(links, q)
				if !strings.Contains(q, "/") {
					break
				}
			}
			if old != nil && old.Kind != "l" {
				links = append(links, p)
			}
			for _, L := range links {
				for _, when := range []string{"after-scan", "before-scan"} {
					for _, abs := range absRel {
						out = append(out, c17case{Leg: "transition", Link: L, Abs: abs, When: when, Op: o.name, Path: p, New: o.new(old)})
					}
				}
			}
		}
	}
	// Removal / replacement of a directory that is, or contains, the link.
	for _, pl := range []struct{ L, P string }{{"a", "a"}, {"a/s", "a/s"}, {"a/s", "a"}, {"a/s/d", "a/s"}, {"a/s/d", "a"}, {"a/s/x", "a/s"}} {
		for _, nw := range []*node{nil, nF(c2)} {
			for _, when := range []string{"after-scan", "before-scan"} {
				for _, abs := range absRel {
					out = append(out, c17case{Leg: "transition", Link: pl.L, Abs: abs, When: when, Op: "remove-above", Path: pl.P, New: nw})
				}
			}
		}
	}

	// Scan leg.
	for _, L := range []string{"a", "a/s", "a/s/d", "a/x", "a/s/x"} {
		for _, abs := range absRel {
			for _, v := range []string{"cold-portable", "cold-posix-raw", "cold-ignore", "warm-portable", "warm-posix-raw"} {
				out = append(out, c17case{Leg: "scan", Link: L, Abs: abs, Op: v})
			}
			child := L + "/y"
			if tree.at(L).Kind != "d" {
				child = L
			}
			for _, rc := range [][]string{{L}, {child}, {path.Dir(L)}, {L, "b"}} {
				if rc[0] == "." {
					rc = []string{""}
				}
				out = append(out, c17case{Leg: "scan", Link: L, Abs: abs, Op: "accelerated", Recheck: rc})
			}
		}
	}

	// Opener leg: every sequence of up to three opens, the link appearing before operation K.
	alphabet := []string{"a/x", "a/s/x", "a/s/y", "a/s/d/y", "b"}
	maxSeq := 3
	if thorough {
		maxSeq = 4
	}
	var seqs [][]string
	var gen func(prefix []string)
	gen = func(prefix []string) {
		if len(prefix) > 0 {
			seqs = append(seqs, append([]string(nil), prefix...))
		}
		if len(prefix) == maxSeq {
			return
		}
		for _, p := range alphabet {
			gen(append(prefix, p))
		}
	}
	gen(nil)
	for _, L := range []string{"a", "a/s", "a/s/d", "a/s/x"} {
		for _, seq := range seqs {
			crosses := false
			for _, p := range seq {
				crosses = crosses || within(p, L)
			}
			if !crosses {
				continue
			}
			for k := 0; k < len(seq); k++ {
				for _, abs := range absRel {
					out = append(out, c17case{Leg: "opener", Link: L, Abs: abs, Seq: seq, K: k})
				}
			}
		}
	}

	// Transmit / receive / endpoint legs.
	all := []string{"a/s/d/y", "a/s/x", "a/s/y", "a/x", "b"}
	for _, L := range []string{"a", "a/s", "a/s/d", "a/s/x"} {
		for _, abs := range absRel {
			out = append(out, c17case{Leg: "transmit", Link: L, Abs: abs, Seq: all})
			out = append(out, c17case{Leg: "receive", Link: L, Abs: abs, Seq: all})
		}
	}
	for _, L := range []string{"a", "a/s"} {
		for _, abs := range absRel {
			out = append(out, c17case{Leg: "endpoint", Link: L, Abs: abs})
		}
	}
	// Staging through the local endpoint: staging mode x what is planted (a
	// link to the canary) on the staging path before the first Stage.
	for _, mode := range []string{"mutagen", "neighboring", "internal"} {
		for _, plant := range []string{"none", "root", "prefix", "file"} {
			for _, when := range []string{"after-scan", "before-scan"} {
				out = append(out, c17case{Leg: "endpoint-staging", Op: mode, Link: plant, When: when})
			}
		}
	}
	return out
}

// recordingEncoder is the Encoder behind rsync.NewEncodingReceiver.
type recordingEncoder struct{ got []*rsync.Transmission }

func (e *recordingEncoder) Encode(t *rsync.Transmission) error {
	e.got = append(e.got, proto.Clone(t).(*rsync.Transmission))
	return nil
}
func (e *recordingEncoder) Finalize() error { return nil }

// perFile splits a transmission stream into per-file (data, error, done).
func (e *recordingEncoder) perFile() (data []string, errs []string) {
	var cur bytes.Buffer
	for _, t := range e.got {
		if t.Done {
			data = append(data, cur.String())
			errs = append(errs, t.Error)
			cur.Reset()
			continue
		}
		if t.Operation != nil {
			cur.Write(t.Operation.Data)
		}
	}
	return
}

// recordingSinker is an rsync.Sinker keeping what was staged per path.
type recordingSinker struct {
	done map[string]string
}
type recordingSink struct {
	s    *recordingSinker
	path string
	buf  bytes.Buffer
}

func (s *recordingSinker) Sink(p string) (io.WriteCloser, error) {
	return &recordingSink{s: s, path: p}, nil
}
func (k *recordingSink) Write(b []byte) (int, error) { return k.buf.Write(b) }
func (k *recordingSink) Close() error                { k.s.done[k.path] = k.buf.String(); return nil }

// runC17 executes one case; it returns the violation text ("" = held), an
// outcome class and whether the case was non-trivial.
func runC17(w *world, c c17case, verbose func(string, ...any)) (what string, class string, nontrivial bool) {
	infra := func(err error) {
		if err != nil {
			panic(fmt.Sprintf("INFRA: %v (case %s)", err, c.key()))
		}
	}
	logf := func(f string, a ...any) {
		if verbose != nil {
			verbose(f, a...)
		}
	}
	if strings.HasPrefix(c.Leg, "intra-") {
		res := runC17Intra(w, c, verbose)
		return res.what, res.class, res.swapped
	}
	tree := tree17()
	infra(w.reset())
	infra(materialize(w.root, tree))
	var bad []string
	var touched []string

	switch c.Leg {
	case "transition":
		var snap *core.Snapshot
		var cache *core.Cache
		var err error
		if c.When == "after-scan" {
			snap, cache, err = w.scan(nil)
			infra(err)
			infra(w.swapOut(c.Link, c.Abs))
		} else {
			infra(w.swapOut(c.Link, c.Abs))
			snap, cache, err = w.scan(nil)
			infra(err)
		}
		// The plan is what a controller that believes in the original tree sends.
		change := &core.Change{Path: c.Path, Old: tree.at(c.Path).entry(), New: c.New.entry()}
		infra(w.stageFor(c.Path, c.New, nil))
		g := w.guard()
		results, problems, _, err := w.transition(context.Background(), []*core.Change{change}, cache, snap, config{})
		touched = g.verdict()
		infra(err)
		logf("results %s problems %s", describe(results[0]), problemsString(problems))
		// "Operations whose path crosses such a link fail instead."
		reported := false
		for _, pr := range problems {
			if within(pr.Path, c.Link) || within(c.Link, pr.Path) {
				reported = true
			}
		}
		if !reported {
			bad = append(bad, fmt.Sprintf("no problem reported on the branch of the link %q (problems: %s)", c.Link, problemsString(problems)))
		}
		if len(results) != 1 || results[0].Equal(change.New, true) {
			bad = append(bad, fmt.Sprintf("the transition of %q across the link was reported as applied", c.Path))
		}
		class = fmt.Sprintf("transition refused, %d problem(s)", min(len(problems), 3))
		nontrivial = true

	case "scan":
		slm := core.SymbolicLinkMode_SymbolicLinkModePortable
		switch {
		case strings.HasSuffix(c.Op, "posix-raw"):
			slm = core.SymbolicLinkMode_SymbolicLinkModePOSIXRaw
		case strings.HasSuffix(c.Op, "ignore"):
			slm = core.SymbolicLinkMode_SymbolicLinkModeIgnore
		}
		var baseline *core.Snapshot
		var cache *core.Cache
		var recheck map[string]bool
		dirty := true
		if !strings.HasPrefix(c.Op, "cold") {
			s, ch, err := w.scanWith(nil, nil, nil, nil, slm)
			infra(err)
			cache = ch
			if c.Op == "accelerated" {
				baseline = s
				recheck = map[string]bool{}
				dirty = false
				for _, p := range c.Recheck {
					recheck[p] = true
					dirty = dirty || within(p, c.Link)
				}
			}
		}
		infra(w.swapOut(c.Link, c.Abs))
		g := w.guard()
		s, _, err := w.scanWith(baseline, recheck, cache, nil, slm)
		touched = g.verdict()
		if err != nil {
			class = "scan error"
			logf("scan error: %v", err)
		} else {
			e := entryAt(s.Content, c.Link)
			logf("entry at link: %s", describe(e))
			class = "scan sees " + func() string {
				if e == nil {
					return "nothing"
				}
				return e.Kind.String()
			}()
			// The link itself is what is in the root now: a scan that looked at it
			// must not describe the content behind it.
			if dirty && e != nil && (e.Kind == core.EntryKind_Directory || e.Kind == core.EntryKind_File) {
				bad = append(bad, fmt.Sprintf("scan describes the link %q as %s", c.Link, describe(e)))
			}
		}
		nontrivial = dirty

	case "opener":
		infra(w.makeTwin(c.Link, tree.at(c.Link)))
		g := w.guard()
		opener := filesystem.NewOpener(w.root)
		var outcomes []string
		for i, p := range c.Seq {
			if i == c.K {
				infra(w.swapTwin(c.Link, c.Abs))
			}
			f, _, err := opener.OpenFile(p)
			if err != nil {
				outcomes = append(outcomes, "fail")
				if i < c.K {
					bad = append(bad, fmt.Sprintf("open %d of %q failed before any link existed: %v", i, p, err))
				}
				continue
			}
			data, rerr := io.ReadAll(f)
			f.Close()
			infra(rerr)
			outcomes = append(outcomes, "ok")
			if string(data) != tree.at(p).Data {
				bad = append(bad, fmt.Sprintf("open %d of %q returned %q, the root's file holds %q", i, p, data, tree.at(p).Data))
			}
			// "Operations whose path crosses such a link fail instead": demanded
			// when no handle opened before the link appeared can be in use (K = 0).
			if c.K == 0 && within(p, c.Link) {
				bad = append(bad, fmt.Sprintf("open %d of %q succeeded although %q is a link", i, p, c.Link))
			}
		}
		opener.Close()
		touched = g.verdict()
		class = "opens " + strings.Join(outcomes, ",")
		nontrivial = true

	case "transmit":
		infra(w.swapOut(c.Link, c.Abs))
		g := w.guard()
		enc := &recordingEncoder{}
		sigs := make([]*rsync.Signature, len(c.Seq))
		for i := range sigs {
			sigs[i] = &rsync.Signature{}
		}
		err := rsync.Transmit(w.root, c.Seq, sigs, rsync.NewEncodingReceiver(enc))
		touched = g.verdict()
		infra(err)
		data, errs := enc.perFile()
		if len(data) != len(c.Seq) {
			bad = append(bad, fmt.Sprintf("%d files transmitted for %d paths", len(data), len(c.Seq)))
		} else {
			for i, p := range c.Seq {
				if within(p, c.Link) {
					if errs[i] == "" || data[i] != "" {
						bad = append(bad, fmt.Sprintf("transmission of %q across the link did not fail (error %q, %d bytes)", p, errs[i], len(data[i])))
					}
				} else if errs[i] != "" || data[i] != tree.at(p).Data {
					bad = append(bad, fmt.Sprintf("transmission of in-root %q wrong: error %q data %q", p, errs[i], data[i]))
				}
			}
		}
		class = "transmit"
		nontrivial = true

	case "receive":
		// Receiving side: bases are opened in the root (which holds the link);
		// the new contents come from a second, ordinary root.
		src := filepath.Join(w.base, "src")
		srcTree := tree17()
		var mark func(n *node)
		mark = func(n *node) {
			if n.Kind == "f" {
				n.Data = n.Data + "+new"
			}
			for _, k := range n.Kids {
				mark(k)
			}
		}
		mark(srcTree)
		infra(materialize(src, srcTree))
		engine := rsync.NewEngine()
		sigs := make([]*rsync.Signature, len(c.Seq))
		for i, p := range c.Seq {
			sigs[i] = engine.BytesSignature([]byte(tree.at(p).Data), 0)
		}
		infra(w.swapOut(c.Link, c.Abs))
		g := w.guard()
		sinker := &recordingSinker{done: map[string]string{}}
		recv, err := rsync.NewReceiver(w.root, c.Seq, sigs, sinker)
		infra(err)
		err = rsync.Transmit(src, c.Seq, sigs, recv)
		touched = g.verdict()
		infra(err)
		for _, p := range c.Seq {
			got, ok := sinker.done[p]
			want := srcTree.at(p).Data
			if within(p, c.Link) {
				if ok && got == want {
					bad = append(bad, fmt.Sprintf("reception of %q succeeded although its base lies across the link", p))
				}
			} else if !ok || got != want {
				bad = append(bad, fmt.Sprintf("reception of in-root %q wrong: %q", p, got))
			}
		}
		class = "receive"
		nontrivial = true

	case "endpoint":
		bad, touched = runC17Endpoint(w, c, tree, logf)
		class = "endpoint"
		nontrivial = true

	case "endpoint-staging":
		bad, touched, class = runC17Staging(w, c, tree, logf)
		nontrivial = c.Link != "none"
		if c.Op != "internal" {
			// Only the internal staging root lives inside the synchronization
			// root; a link planted in the data directory or next to the root is
			// not "a symbolic link that lives inside the root", so what happens
			// to the canary there is recorded but not judged by this property.
			if len(touched) > 0 {
				class += " [outside-root link followed: not judged]"
			}
			touched = nil
			nontrivial = false
		}

	default:
		panic("INFRA: unknown leg " + c.Leg)
	}

	// "never open, read, create, modify or delete anything outside the synchronization root"
	for _, s := range touched {
		bad = append(bad, s)
	}
	if len(bad) > 0 {
		what = strings.Join(bad, "; ")
	}
	return what, class, nontrivial
}

// stagedNames computes, with the real staging store, the prefix directory and
// file name under which content with the given path and bytes is staged (the
// scheme is digest- and path-hash based; it does not depend on the root).
func stagedNames(scratch, path, data string) (prefix, name string, err error) {
	st := store.NewStore(scratch, false, 1<<30, sha1.New)
	if err = st.Initialize(); err != nil {
		return
	}
	sto, err := st.Allocate()
	if err != nil {
		return
	}
	if _, err = sto.Write([]byte(data)); err != nil {
		return
	}
	if err = sto.Commit(path); err != nil {
		return
	}
	ents, err := os.ReadDir(scratch)
	if err != nil {
		return
	}
	for _, e := range ents {
		if e.IsDir() {
			sub, _ := os.ReadDir(filepath.Join(scratch, e.Name()))
			if len(sub) == 1 {
				return e.Name(), sub[0].Name(), nil
			}
		}
	}
	return "", "", fmt.Errorf("staged file not found under %s", scratch)
}

// runC17Staging: real local endpoint in the given staging mode; a link to the
// canary is planted at the staging root, at the prefix directory or at the
// staged file's own path; then Scan, Stage, reception and Transition of one
// new file.
func runC17Staging(w *world, c c17case, tree *node, logf func(string, ...any)) (bad []string, touched []string, class string) {
	infra := func(err error) {
		if err != nil {
			panic(fmt.Sprintf("INFRA: %v (case %s)", err, c.key()))
		}
	}
	const newPath, newData = "n2", "echo: freshly staged bytes"
	canary := filepath.Join(w.base, "canary")
	infra(w.makeIntraCanary())
	prefix, name, err := stagedNames(filepath.Join(w.base, "names"), newPath, newData)
	infra(err)
	infra(os.RemoveAll(filepath.Join(w.base, "names")))
	src := filepath.Join(w.base, "src")
	infra(materialize(src, nD(newPath, nF(newData))))

	w.seq++
	session := fmt.Sprintf("sync_verifstage_%s_%d", filepath.Base(w.base), w.seq)
	cfg := &synchronization.Configuration{WatchMode: synchronization.WatchMode_WatchModeNoWatch}
	var stagingRoot string
	switch c.Op {
	case "mutagen":
		cfg.StageMode = synchronization.StageMode_StageModeMutagen
		stagingRoot = filepath.Join(os.Getenv("MUTAGEN_DATA_DIRECTORY"), "staging", session+"-beta")
		infra(os.MkdirAll(filepath.Dir(stagingRoot), 0o700))
	case "neighboring":
		cfg.StageMode = synchronization.StageMode_StageModeNeighboring
		stagingRoot = filepath.Join(w.base, filesystem.TemporaryNamePrefix+"staging-"+session+"-beta")
	case "internal":
		cfg.StageMode = synchronization.StageMode_StageModeInternal
		stagingRoot = filepath.Join(w.root, filesystem.TemporaryNamePrefix+"staging-"+session+"-beta")
	}
	plant := func() {
		switch c.Link {
		case "root":
			infra(os.Symlink(filepath.Join(canary, "d"), stagingRoot))
		case "prefix":
			infra(os.Mkdir(stagingRoot, 0o700))
			infra(os.Symlink(filepath.Join(canary, "d"), filepath.Join(stagingRoot, prefix)))
		case "file":
			infra(os.MkdirAll(filepath.Join(stagingRoot, prefix), 0o700))
			infra(os.Symlink(filepath.Join(canary, "f0"), filepath.Join(stagingRoot, prefix, name)))
		}
	}
	if c.When == "before-scan" {
		plant()
	}
	ep, err := local.NewEndpoint(nil, w.root, session, synchronization.Version_Version1, cfg, false)
	infra(err)
	defer ep.Shutdown()
	defer os.RemoveAll(stagingRoot)
	snap, err, _ := ep.Scan(context.Background(), nil, true)
	infra(err)
	if !snap.Content.Equal(tree.entry(), true) {
		bad = append(bad, "endpoint scan differs from the generated tree: "+describe(snap.Content))
	}
	if c.When == "after-scan" {
		plant()
	}
	g := w.guard()
	outcome := "staged"
	fpaths, sigs, recv, err := ep.Stage([]string{newPath}, [][]byte{digestOf(newData)})
	if err != nil {
		outcome = "stage refused"
		logf("stage error: %v", err)
	} else if recv != nil {
		infra(rsync.Transmit(src, fpaths, sigs, recv))
	}
	results, problems, _, terr := ep.Transition(context.Background(), []*core.Change{{Path: newPath, New: nF(newData).entry()}})
	touched = g.verdict()
	infra(terr)
	created := len(results) == 1 && results[0] != nil
	logf("results %v problems %s", created, problemsString(problems))
	if created {
		outcome += ", created"
		if got, err := os.ReadFile(filepath.Join(w.root, newPath)); err != nil || string(got) != newData {
			bad = append(bad, fmt.Sprintf("created %q holds %q (%v)", newPath, got, err))
		}
	} else {
		outcome += ", not created"
	}
	switch c.Link {
	case "none":
		if !created {
			bad = append(bad, "staging without any planted link failed: "+problemsString(problems))
		}
	case "root", "prefix":
		// "Operations whose path crosses such a link fail instead."
		if created && c.Op == "internal" {
			bad = append(bad, fmt.Sprintf("file staged and created although the staging %s is a link", c.Link))
		}
	}
	return bad, touched, fmt.Sprintf("staging %s/%s: %s", c.Op, c.Link, outcome)
}

// runC17Endpoint drives a real local endpoint: Scan, link swap, Stage
// (including its local-copy shortcut), reception, Supply and Transition.
func runC17Endpoint(w *world, c c17case, tree *node, logf func(string, ...any)) (bad []string, touched []string) {
	infra := func(err error) {
		if err != nil {
			panic(fmt.Sprintf("INFRA: %v (case %s)", err, c.key()))
		}
	}
	// MUTAGEN_DATA_DIRECTORY (cache and staging location) was set by TestC17.
	w.seq++
	ep, err := local.NewEndpoint(nil, w.root, fmt.Sprintf("sync_verif_%s_%d", filepath.Base(w.base), w.seq), synchronization.Version_Version1,
		&synchronization.Configuration{WatchMode: synchronization.WatchMode_WatchModeNoWatch}, false)
	infra(err)
	defer ep.Shutdown()
	snap, err, _ := ep.Scan(context.Background(), nil, true)
	infra(err)
	if !snap.Content.Equal(tree.entry(), true) {
		panic("INFRA: endpoint scan differs from the generated tree")
	}
	infra(w.swapOut(c.Link, c.Abs))

	// Files to create: one across the link, one in the root; both have the
	// digest of a/s/x, which the endpoint's cache places behind the link, so
	// Stage's copy-from-root shortcut is aimed at a path that crosses the link.
	across, inside := c.Link+"/n", "n2"
	newData := tree.at("a/s/x").Data
	src := filepath.Join(w.base, "src")
	infra(materialize(src, nD("n2", nF(newData), path.Base(c.Link), nil)))
	infra(os.MkdirAll(filepath.Join(src, c.Link), 0o700))
	infra(writeFile(filepath.Join(src, across), newData, false, baseTime))

	g := w.guard()
	paths := []string{across, inside}
	sort.Strings(paths)
	digests := [][]byte{digestOf(newData), digestOf(newData)}
	fpaths, sigs, recv, err := ep.Stage(paths, digests)
	infra(err)
	logf("stage wants %v", fpaths)
	if recv != nil {
		infra(rsync.Transmit(src, fpaths, sigs, recv))
	}
	// Supplying from the endpoint: paths across the link must yield errors.
	enc := &recordingEncoder{}
	supply := []string{c.Link + "/x", "b"}
	sort.Strings(supply)
	infra(ep.Supply(supply, []*rsync.Signature{{}, {}}, rsync.NewEncodingReceiver(enc)))
	data, errs := enc.perFile()
	for i, p := range supply {
		if i >= len(data) {
			bad = append(bad, "supply stream incomplete")
			break
		}
		if within(p, c.Link) && (errs[i] == "" || data[i] != "") {
			bad = append(bad, fmt.Sprintf("supply of %q across the link did not fail", p))
		}
		if !within(p, c.Link) && (errs[i] != "" || data[i] != tree.at(p).Data) {
			bad = append(bad, fmt.Sprintf("supply of in-root %q wrong", p))
		}
	}
	changes := []*core.Change{
		{Path: across, New: nF(newData).entry()},
		{Path: inside, New: nF(newData).entry()},
		{Path: c.Link + "/x", Old: tree.at(c.Link + "/x").entry()},
	}
	results, problems, _, err := ep.Transition(context.Background(), changes)
	touched = g.verdict()
	infra(err)
	logf("results %s %s %s problems %s", describe(results[0]), describe(results[1]), describe(results[2]), problemsString(problems))
	if results[0] != nil {
		bad = append(bad, fmt.Sprintf("creation of %q across the link reported as %s", across, describe(results[0])))
	}
	if !results[1].Equal(changes[1].New, true) {
		bad = append(bad, fmt.Sprintf("creation of in-root %q failed: %s", inside, problemsString(problems)))
	}
	if results[2] == nil {
		bad = append(bad, fmt.Sprintf("removal of %q across the link reported as done", changes[2].Path))
	}
	if got, err := os.ReadFile(filepath.Join(w.root, inside)); err != nil || string(got) != newData {
		bad = append(bad, fmt.Sprintf("in-root %q holds %q (%v)", inside, got, err))
	}
	return bad, touched
}

func TestC17(t *testing.T) {
	r := vr.New(t, "C17", "fault_enumeration")
	defer r.Finish()
	parent := scratchDir(t)
	installHooks()
	defer uninstallHooks()
	if old, ok := os.LookupEnv("MUTAGEN_DATA_DIRECTORY"); ok {
		defer os.Setenv("MUTAGEN_DATA_DIRECTORY", old)
	} else {
		defer os.Unsetenv("MUTAGEN_DATA_DIRECTORY")
	}

	os.Setenv("MUTAGEN_DATA_DIRECTORY", filepath.Join(parent, "data"))
	worlds = nil
	nw := vr.Workers()
	pool := make(chan *world, nw)
	for i := 0; i < nw; i++ {
		wi, err := newWorld(parent, i)
		if err != nil {
			t.Fatalf("INFRA: %v", err)
		}
		worlds = append(worlds, wi)
		pool <- wi
	}
	w := worlds[0]

	if raw := vr.ReplayCase(); raw != nil {
		var c c17case
		if err := json.Unmarshal(raw, &c); err != nil {
			t.Fatalf("INFRA: replay case does not parse: %v", err)
		}
		what, class, _ := runC17(w, c, t.Logf)
		t.Logf("replay %s: class %q verdict %q", c.key(), class, what)
		r.Case(c.key(), true)
		if what != "" {
			r.Violate(c.key(), what, c, nil)
		}
		return
	}

	cases := c17cases(vr.Thorough())
	// Self-test of the detector: touching the canary directly must be seen
	// (otherwise "no event" would mean nothing). Not counted as a case.
	{
		infra := func(err error) {
			if err != nil {
				t.Fatalf("INFRA: %v", err)
			}
		}
		infra(w.reset())
		infra(materialize(w.root, tree17()))
		infra(w.swapOut("a/s", false))
		g := w.guard()
		_, err := os.ReadFile(filepath.Join(w.root, "a/s/x")) // follows the link on purpose
		infra(err)
		seen := g.verdict()
		if len(seen) == 0 {
			t.Fatalf("INFRA: the canary detector did not notice a read through the link")
		}
		r.Set("detector_selftest_events", len(seen))
	}

	r.Rule(fmt.Sprintf("one fixed root (a/{x,y,l,d/y,s/{x,y,l,d/y}}, b) in which one path component is, or becomes between the scan and the operation, a symbolic link (relative and absolute) to a canary outside the root; %d cases: Transition (11 operations x {a/, a/s/} x every link position on the planned path incl. the leaf x {link appears after the scan: the directory/file itself is moved out and becomes the canary, so inodes, times and the cache all match; link already there at scan time} + removal/replacement of a directory that is or contains the link), core.Scan (cold in 3 link modes, warm, accelerated with 4 re-check sets x 5 link positions), filesystem.Opener (every sequence of <=3 (thorough: <=4) opens over 5 paths that crosses the link x link appearing before open K), rsync.Transmit, rsync receiver (bases across the link), and a real local endpoint (Scan, Stage with copy-from-root shortcut, reception, Supply, Transition; plus staging modes {mutagen, neighboring, internal} x a link to the canary planted at {nothing, the staging root, the staged file's prefix directory, the staged file's own path} x {before, after the scan}, judged for the internal mode, whose staging root lives inside the root). Intra-operation legs: for every quick-tier tree x single-change plan x {no ownership, DefaultOwner+Group} (thorough: also EXDEV staging), every tree scanned in 2 link modes, and every Opener sequence of <=2 opens, a recording run yields the hook points; plus 9 multi-transition plans on the fixed root whose transitions share a parent two or three levels deep; then one run per point (syscall-wrapper hook points and the Provider callback) x {the named object, its parent, the ancestors two and three levels up} in which, at that point and before the real call proceeds, that object is moved aside and replaced by a link to a canary file/directory of the matching type (canary modes 0755/0644, owner root, so chmod/chown show); only canary integrity is judged there. Non-trivial = the operation was aimed across the link (for accelerated scans: the link position was marked dirty; for intra-operation runs: the swap was carried out); distinct by all case parameters", len(cases)))
	r.Assume("the canary is observed by inotify (IN_ALL_EVENTS on every directory and file; events are queued by the kernel inside the causing syscall), by a strict lstat+bytes snapshot, and by the verif hook points (descriptor resolves into the canary)",
		"stat/lstat of the link itself is not an access outside the root; O_PATH opens and stat calls are invisible to inotify",
		"link swaps happen between operations or, in the intra-operation legs, at hook points immediately before a filesystem call; windows inside the kernel during one call are not explored",
		"Opener handles opened before a directory was replaced keep addressing the old (in-root, renamed aside) directory; failure of a crossing open is demanded only when the link existed before the first open")

	vr.Parallel(len(cases), func(i int) {
		c := cases[i]
		w := <-pool
		defer func() { pool <- w }()
		what, class, nt := runC17(w, c, nil)
		r.Case(c.key(), nt)
		r.Outcome(c.Leg + ": " + class)
		r.Add("cases_"+c.Leg, 1)
		if what != "" {
			cc := c
			r.Violate(c.key(), what, cc, func() bool { v, _, _ := runC17(w, cc, nil); return v != "" })
		}
	})
	r.Sample(cases[0])

	// Intra-operation legs: per group one recording run, then one run per hook
	// point and variant with the swap performed at that point.
	groups := intraGroups(vr.Thorough())
	r.Set("intra_groups", len(groups))
	vr.Parallel(len(groups), func(gi int) {
		g := groups[gi]
		w := <-pool
		defer func() { pool <- w }()
		judge := func(c c17case) intraResult {
			res := runC17Intra(w, c, nil)
			r.Case(c.key(), res.swapped)
			r.Outcome(c.Leg + ": " + res.class)
			r.Add("cases_"+c.Leg, 1)
			if res.what != "" {
				cc := c
				r.Violate(c.key(), res.what, cc, func() bool { return runC17Intra(w, cc, nil).what != "" })
			}
			return res
		}
		rec := judge(g)
		for _, p := range rec.log {
			for _, variant := range swapVariants {
				if swapTarget(p.Path, variant) == "" {
					continue // staging area, the root itself, or its parent
				}
				c := g
				at := p
				c.At, c.Variant = &at, variant
				judge(c)
				if gi%211 == 0 && variant == "leaf" && p.Op == "openat" {
					r.Sample(c)
				}
			}
		}
	})
	for _, leg := range []string{"scan", "opener", "transmit", "receive", "endpoint"} {
		for _, c := range cases {
			if c.Leg == leg {
				r.Sample(c)
				break
			}
		}
	}
}
