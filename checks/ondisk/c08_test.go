//go:build verif

package ondisk

import (
	"context"
	"encoding/json"
	"fmt"
	"os"
	"path/filepath"
	"sort"
	"strconv"
	"strings"
	"sync/atomic"
	"testing"
	"time"

	"github.com/mutagen-io/mutagen/pkg/synchronization/core"

	"verif/internal/vr"
)

// mod is one modification applied to the root between core.Scan and
// core.Transition (the quantifier of C08).
type mod struct {
	Path string `json:"path"`
	Kind string `json:"kind"`
}

func (m mod) String() string { return m.Kind + "@" + m.Path }

// modsFor lists the modifications applicable to the object n found at path
// (n == nil: the path is a planned creation target that does not exist yet).
func modsFor(path string, n *node) []mod {
	var kinds []string
	switch {
	case n == nil:
		kinds = []string{"appear-file", "appear-dir", "appear-link"}
	case n.Kind == "f":
		// size / mtime / content+mtime / permission bits / executability / identity / type
		// "touch-ns", "touch-1ns" and "rewrite-ns" keep the new modification time
		// inside the SAME SECOND as the scanned one (+250/500 ms, -1 ns, +100/200 ms):
		// a difference at any granularity the filesystem stores must protect the file.
		kinds = []string{"append", "touch", "touch-ns", "touch-1ns", "rewrite", "rewrite-ns", "chmod", "chmodx", "newinode", "to-dir", "to-link"}
	case n.Kind == "l":
		// other target / one byte longer / only the last byte differs / cut to
		// the first 128 bytes (readlink buffer boundary) / type
		kinds = []string{"retarget", "retarget-extend", "retarget-lastbyte", "to-file", "to-dir"}
		if len(n.Target) > 128 {
			kinds = append(kinds, "retarget-trunc128")
		}
	case n.Kind == "d":
		kinds = []string{"add-file", "add-dir", "add-link", "to-file", "to-link"}
	}
	out := make([]mod, 0, len(kinds))
	for _, k := range kinds {
		out = append(out, mod{path, k})
	}
	return out
}

func isAdd(m mod) bool { return strings.HasPrefix(m.Kind, "add-") }

// applyMod performs the modification with plain os calls. phase (1 = before
// the last scan, in warm-cache histories; 2 = after the last scan) selects the
// new modification time and link target, so that a phase-2 modification always
// differs from the state a phase-1 modification of the same kind produced.
// Modifications that replace the inode first hard-link the old inode to
// keep (when non-empty) so that the earlier state can be restored exactly.
func applyMod(root string, m mod, phase int, keep string) error {
	p := filepath.Join(root, filepath.FromSlash(m.Path))
	later := baseTime.Add(time.Duration(phase) * time.Second)
	newTarget := "t" + strconv.Itoa(7+phase)
	switch m.Kind {
	case "append": // size changes; mtime put back so that only the size differs
		f, err := os.OpenFile(p, os.O_WRONLY|os.O_APPEND, 0)
		if err != nil {
			return err
		}
		if _, err := f.Write([]byte("+")); err != nil {
			return err
		}
		if err := f.Close(); err != nil {
			return err
		}
		return os.Chtimes(p, baseTime, baseTime)
	case "touch": // only the modification time differs
		return os.Chtimes(p, later, later)
	case "touch-ns": // only the sub-second part of the modification time differs
		t := baseTime.Add(time.Duration(phase) * 250 * time.Millisecond)
		return os.Chtimes(p, t, t)
	case "touch-1ns": // the modification time differs by one (two) nanosecond(s)
		t := baseTime.Add(-time.Duration(phase))
		return os.Chtimes(p, t, t)
	case "rewrite", "rewrite-ns": // same size, other bytes, new modification time (-ns: within the same second)
		if m.Kind == "rewrite-ns" {
			later = baseTime.Add(time.Duration(phase) * 100 * time.Millisecond)
		}
		b, err := os.ReadFile(p)
		if err != nil {
			return err
		}
		for i := range b {
			b[i] ^= 0x20
		}
		f, err := os.OpenFile(p, os.O_WRONLY, 0)
		if err != nil {
			return err
		}
		if _, err := f.WriteAt(b, 0); err != nil {
			return err
		}
		if err := f.Close(); err != nil {
			return err
		}
		return os.Chtimes(p, later, later)
	case "chmod": // permission bits other than executability
		st, err := os.Lstat(p)
		if err != nil {
			return err
		}
		return os.Chmod(p, st.Mode().Perm()^0o040)
	case "chmodx": // executability toggled
		st, err := os.Lstat(p)
		if err != nil {
			return err
		}
		return os.Chmod(p, st.Mode().Perm()^0o100)
	case "newinode": // replaced by a new file with the same bytes, mode and mtime: only the identity differs
		st, err := os.Lstat(p)
		if err != nil {
			return err
		}
		b, err := os.ReadFile(p)
		if err != nil {
			return err
		}
		if keep != "" {
			if err := os.Link(p, keep); err != nil {
				return err
			}
		}
		tmp := filepath.Join(filepath.Dir(root), "newinode.tmp")
		if err := os.WriteFile(tmp, b, st.Mode().Perm()); err != nil {
			return err
		}
		if err := os.Chmod(tmp, st.Mode().Perm()); err != nil {
			return err
		}
		if err := os.Chtimes(tmp, st.ModTime(), st.ModTime()); err != nil {
			return err
		}
		return os.Rename(tmp, p)
	case "to-dir", "appear-dir":
		if err := os.RemoveAll(p); err != nil {
			return err
		}
		if err := os.Mkdir(p, 0o700); err != nil {
			return err
		}
		return writeFile(filepath.Join(p, "n"), "user data", false, later)
	case "to-link", "appear-link":
		if err := os.RemoveAll(p); err != nil {
			return err
		}
		return os.Symlink("t9", p)
	case "to-file", "appear-file":
		if err := os.RemoveAll(p); err != nil {
			return err
		}
		return writeFile(p, "user data", false, later)
	case "retarget":
		if err := os.Remove(p); err != nil {
			return err
		}
		return os.Symlink(newTarget, p)
	case "retarget-extend", "retarget-lastbyte", "retarget-trunc128":
		cur, err := os.Readlink(p)
		if err != nil {
			return err
		}
		switch m.Kind {
		case "retarget-extend":
			cur += string(rune('d' + phase))
		case "retarget-lastbyte":
			cur = cur[:len(cur)-1] + string(rune('p'+phase)) // q, r: never the old last byte
		default:
			if len(cur) > 128 {
				cur = cur[:128]
			} else {
				cur = cur[:len(cur)-1]
			}
		}
		if err := os.Remove(p); err != nil {
			return err
		}
		return os.Symlink(cur, p)
	case "add-file":
		return writeFile(filepath.Join(p, "n"), "user data", false, later)
	case "add-dir":
		return os.Mkdir(filepath.Join(p, "n"), 0o700)
	case "add-link":
		return os.Symlink("t9", filepath.Join(p, "n"))
	}
	return fmt.Errorf("unknown modification %q", m.Kind)
}

// restoreState puts the object at path back into exactly the state prior
// (type, permission bits, size, modification time, identity, bytes, target)
// that it had before a metadata-only modification of the given kind. For
// "newinode" the earlier inode was kept as a hard link at keep; the inode that
// is displaced now is itself kept at keepCurrent (when non-empty).
func restoreState(root, path, kind string, prior finfo, keep, keepCurrent string) error {
	p := filepath.Join(root, filepath.FromSlash(path))
	switch kind {
	case "retarget", "retarget-extend", "retarget-lastbyte":
		if err := os.Remove(p); err != nil {
			return err
		}
		return os.Symlink(prior.Target, p)
	case "newinode":
		if keepCurrent != "" {
			if err := os.Link(p, keepCurrent); err != nil {
				return err
			}
		}
		return os.Rename(keep, p)
	}
	// In-place kinds (chmod, chmodx, touch, rewrite): same inode.
	if b, err := os.ReadFile(p); err != nil {
		return err
	} else if string(b) != prior.Data {
		f, err := os.OpenFile(p, os.O_WRONLY, 0)
		if err != nil {
			return err
		}
		if _, err := f.WriteAt([]byte(prior.Data), 0); err != nil {
			return err
		}
		if err := f.Close(); err != nil {
			return err
		}
	}
	if err := os.Chmod(p, os.FileMode(prior.Mode&0o7777)); err != nil {
		return err
	}
	t := time.Unix(0, prior.Mtime)
	return os.Chtimes(p, t, t)
}

// warmSpec describes a warm-cache history: two scans chained the way the
// local endpoint chains them (scan #2 receives scan #1's cache and ignore
// cache), with the metadata-only modification M1 separating them.
//
//	Dir "fwd": scan #1 . M1 . scan #2 . mods . Transition   (scan-time state = tree with M1)
//	Dir "rev": M1 . scan #1 . undo M1 . scan #2 . mods . Transition   (scan-time state = tree)
//
// The modification kind "restore1" in Mods puts the object back into exactly
// the state scan #1 saw - the one post-scan modification that a cold scan can
// never be confused by, but a stale cache entry can.
type warmSpec struct {
	Dir   string `json:"dir"`
	M1    mod    `json:"m1"`
	Accel bool   `json:"accel,omitempty"` // scan #2 is accelerated: baseline = snapshot #1, re-check path = M1.Path
}

// m1KindsFor lists the metadata-only modifications usable as M1.
func m1KindsFor(n *node) []string {
	switch {
	case n == nil:
		return nil
	case n.Kind == "f":
		return []string{"chmod", "chmodx", "touch", "touch-ns", "rewrite", "newinode"}
	case n.Kind == "l":
		return []string{"retarget", "retarget-extend", "retarget-lastbyte"}
	}
	return nil
}

// scanMismatches counts cold scans whose snapshot differed from the generated tree.
var scanMismatches atomic.Int64

// c8case is one execution of C08.
type c8case struct {
	Tree *node     `json:"tree"`
	Plan plan      `json:"plan"`
	Mods []mod     `json:"mods"`
	Env  string    `json:"env"`
	Warm *warmSpec `json:"warm,omitempty"`
}

func (c c8case) key() string {
	ms := make([]string, 0, len(c.Mods))
	for _, m := range c.Mods {
		ms = append(ms, m.String())
	}
	k := fmt.Sprintf("tree=%s plan=%s mods=[%s] env=%s", c.Tree, c.Plan, strings.Join(ms, ","), c.Env)
	if c.Warm != nil {
		k += fmt.Sprintf(" warm=%s:%s accel=%v", c.Warm.Dir, c.Warm.M1, c.Warm.Accel)
	}
	return k
}

// runC8 executes one case and applies the C08 oracle. With no modifications it
// is the control run: it returns applied=true when the plan was applied fully
// and without problems (so the modified paths really are in harm's way).
func runC8(w *world, c c8case, verbose func(string, ...any)) (what string, applied bool, nproblems int) {
	infra := func(err error) {
		if err != nil {
			panic(fmt.Sprintf("INFRA: %v (case %s)", err, c.key()))
		}
	}
	infra(w.reset())
	infra(materialize(w.root, c.Tree))
	keep0, keep1 := filepath.Join(w.base, "keep0"), filepath.Join(w.base, "keep1")
	var snap *core.Snapshot
	var cache *core.Cache
	var state1 finfo // the M1 object as scan #1 saw it
	if c.Warm == nil {
		// Cold history: one scan.
		var err error
		snap, cache, err = w.scan(nil)
		infra(err)
		if !snap.Content.Equal(c.Tree.entry(), true) {
			// What a scan must say is C12's subject; C08 is about what happens
			// relative to whatever the scan recorded, so this is only counted.
			scanMismatches.Add(1)
		}
	} else {
		m1 := c.Warm.M1
		slm := core.SymbolicLinkMode_SymbolicLinkModePortable
		var state0 finfo
		if c.Warm.Dir == "rev" {
			s0, err := snapshot(w.root)
			infra(err)
			state0 = s0[m1.Path]
			infra(applyMod(w.root, m1, 1, keep0))
		}
		s1, err := snapshot(w.root)
		infra(err)
		state1 = s1[m1.Path]
		snap1, cache1, ic1, err := w.scanFull(nil, nil, nil, nil, slm)
		infra(err)
		if c.Warm.Dir == "rev" {
			infra(restoreState(w.root, m1.Path, m1.Kind, state0, keep0, keep1))
		} else {
			infra(applyMod(w.root, m1, 1, keep1))
		}
		// Scan #2 - "the preceding scan" - is chained on scan #1's caches.
		var baseline *core.Snapshot
		var recheck map[string]bool
		if c.Warm.Accel {
			baseline, recheck = snap1, map[string]bool{m1.Path: true}
		}
		snap, cache, _, err = w.scanFull(baseline, recheck, cache1, ic1, slm)
		infra(err)
	}
	changes := make([]*core.Change, len(c.Plan))
	for i, ch := range c.Plan {
		changes[i] = &core.Change{Path: ch.Path, Old: entryAt(snap.Content, ch.Path), New: ch.New.entry()}
		infra(w.stageFor(ch.Path, ch.New, nil))
	}

	if c.Warm != nil {
		// A plan whose new value equals what scan #2 recorded is no change at all.
		for _, ch := range changes {
			if ch.New.Equal(ch.Old, true) {
				return "", false, -1
			}
		}
	}

	// The modifications happen after the (last) scan and before the transition.
	for _, m := range c.Mods {
		if m.Kind == "restore1" {
			infra(restoreState(w.root, m.Path, c.Warm.M1.Kind, state1, keep1, ""))
		} else {
			infra(applyMod(w.root, m, 2, ""))
		}
	}
	modSnap, err := snapshot(w.root)
	infra(err)

	w.xdev, w.nosup = c.Env == "xdev", c.Env == "nosup"
	w.startHooks(nil, nil)
	results, problems, _, err := w.transition(context.Background(), changes, cache, snap, config{})
	w.stopHooks()
	infra(err)
	post, err := snapshot(w.root)
	infra(err)
	if verbose != nil {
		verbose("after modification: %s", describe(entryFromSnapshot(modSnap, "")))
		verbose("after transition:   %s", describe(entryFromSnapshot(post, "")))
		verbose("problems: %s", problemsString(problems))
	}

	applied = len(problems) == 0
	for i := range changes {
		if i >= len(results) || !results[i].Equal(changes[i].New, true) {
			applied = false
		}
	}

	var bad []string
	for _, m := range c.Mods {
		// Paths that must be left as they are: the modified object itself (with
		// everything below it when it changed type), or - for a new child - the
		// directory that now "contains entries the plan did not know about" and
		// that child.
		var protected []string
		for p := range modSnap {
			switch {
			case isAdd(m):
				if p == m.Path || within(p, join(m.Path, "n")) {
					protected = append(protected, p)
				}
			case within(p, m.Path):
				protected = append(protected, p)
			}
		}
		sort.Strings(protected)
		for _, p := range protected {
			before := modSnap[p]
			after, ok := post[p]
			if !ok {
				// "never deletes ..."
				bad = append(bad, fmt.Sprintf("%s: %q was deleted (it was %v)", m, p, before))
			} else if !sameObject(before, after) {
				// "... or replaces"; "left as they are"
				bad = append(bad, fmt.Sprintf("%s: %q was altered: %v -> %v", m, p, before, after))
			}
		}
		// "such paths are reported as problems"
		reported := false
		for _, pr := range problems {
			if within(pr.Path, m.Path) {
				reported = true
			}
		}
		if !reported {
			bad = append(bad, fmt.Sprintf("%s: no problem reported at or below %q", m, m.Path))
		}
	}
	if len(bad) > 0 {
		what = strings.Join(bad, "; ") + " [problems: " + problemsString(problems) + "]"
	}
	return what, applied, len(problems)
}

// modSets enumerates the modification sets for (tree, plan): every single
// modification at every path inside the plan's targets, and (pairs=true)
// every pair of modifications at two different paths that can both be applied.
func modSets(tree *node, p plan, pairs bool) [][]mod {
	var singles []mod
	for _, q := range affectedPaths(tree, p) {
		singles = append(singles, modsFor(q, tree.at(q))...)
	}
	for _, ch := range p {
		if tree.at(ch.Path) == nil {
			singles = append(singles, modsFor(ch.Path, nil)...)
		}
	}
	var out [][]mod
	for _, m := range singles {
		out = append(out, []mod{m})
	}
	if pairs {
		for i, m1 := range singles {
			for _, m2 := range singles[i+1:] {
				if m1.Path == m2.Path {
					continue
				}
				// A modification that changes the type of an object destroys
				// what is below it; only "new child" modifications nest.
				if within(m2.Path, m1.Path) && !isAdd(m1) {
					continue
				}
				if within(m1.Path, m2.Path) && !isAdd(m2) {
					continue
				}
				out = append(out, []mod{m1, m2})
			}
		}
	}
	return out
}

func TestC08(t *testing.T) {
	r := vr.New(t, "C08", "fault_enumeration")
	defer r.Finish()
	parent := scratchDir(t)
	installHooks()
	defer uninstallHooks()

	if raw := vr.ReplayCase(); raw != nil {
		var c c8case
		if err := json.Unmarshal(raw, &c); err != nil {
			t.Fatalf("INFRA: replay case does not parse: %v", err)
		}
		w, err := newWorld(parent, 0)
		if err != nil {
			t.Fatalf("INFRA: %v", err)
		}
		worlds = []*world{w}
		what, applied, np := runC8(w, c, t.Logf)
		t.Logf("replay %s: applied=%v problems=%d verdict %q", c.key(), applied, np, what)
		r.Case(c.key(), true)
		if what != "" {
			r.Violate(c.key(), what, c, nil)
		}
		return
	}

	thorough := vr.Thorough()
	deadline := vr.Deadline(55*time.Second, 8*time.Minute)
	type group struct {
		tree *node
		plan plan
	}
	var groups []group
	// First (so that a time cap never cuts them): links whose targets sit at the readlink buffer boundary (127..247 bytes).
	for _, tree := range longLinkTrees() {
		for _, p := range singlePlans(tree) {
			if within(p[0].Path, "a") {
				groups = append(groups, group{tree, p})
			}
		}
	}
	for _, tree := range trees(thorough) {
		plans := singlePlans(tree)
		if thorough {
			plans = append(plans, pairPlans(tree, false)...)
		}
		for _, p := range plans {
			groups = append(groups, group{tree, p})
		}
	}
	r.Rule(fmt.Sprintf("every base tree (%d, plus 7 trees whose link targets are 127/128/129/200/247 bytes long with a common prefix) x every single-change plan on every path (thorough: also two-change plans, and the trees without the bystander b) x every modification set applied between core.Scan and core.Transition: one modification, and for single-change plans every applicable pair at two different paths, from {file: append(size), touch(mtime +1s), mtime within the same second (+250/500 ms; -1 ns), rewrite(same size, new mtime; also with the new mtime inside the same second), chmod, chmod +-x, new inode with identical bytes/mode/mtime, ->dir, ->link; link: retarget, target extended by one byte, only the last byte changed, target cut to its first 128 bytes, ->file, ->dir; directory: new child file/dir/link, ->file, ->link; planned creation target: a file/dir/link appears} at every path inside the plan's targets; creation targets additionally under {EXDEV staging, no RENAME_NOREPLACE}. Warm-cache histories for single-change plans: two scans chained as the local endpoint chains them (scan #2 gets scan #1's cache and ignore cache; thorough: also accelerated with baseline + re-check path), separated by a metadata-only modification M1 in {chmod, chmod +-x, mtime only, same-size rewrite, new inode with same bytes; link retarget} at every file/link path in the plan's targets, in both orders (scan #1 . M1 . scan #2, and M1 . scan #1 . undo . scan #2), followed by one post-scan modification from the full list plus 'restore exactly the state scan #1 saw'. Non-trivial = the same plan without modification was applied completely and without problems (control run), so the modified object is one the plan deletes or replaces (for warm histories: the control run of the same history); distinct by (tree, plan, modifications, env, warm history)", len(trees(thorough))))
	r.Assume("modifications are applied between the scan and the transition, never inside one operation (the documented check-to-unlink RACE windows are excluded by the property's quantifier)",
		"every modification changes at least one of type, permission bits, size, modification time, file identity, link target or adds a directory entry; a same-size rewrite that also restores the modification time is outside the property",
		"'reported as problems' is read as: at least one returned problem whose path is the modified path or lies below it",
		"symbolic link mode portable, permissions mode portable, default modes 0600/0700, no ownership")

	worlds = nil
	nw := vr.Workers()
	pool := make(chan *world, nw)
	for i := 0; i < nw; i++ {
		w, err := newWorld(parent, i)
		if err != nil {
			t.Fatalf("INFRA: %v", err)
		}
		worlds = append(worlds, w)
		pool <- w
	}
	var capped atomic.Bool
	vr.Parallel(len(groups), func(gi int) {
		if time.Now().After(deadline) {
			capped.Store(true)
			return
		}
		g := groups[gi]
		w := <-pool
		defer func() { pool <- w }()
		l := r.Local()
		defer l.Flush()

		// Control run: no modification.
		ctl := c8case{Tree: g.tree, Plan: g.plan, Env: "plain"}
		what, applied, _ := runC8(w, ctl, nil)
		if what != "" {
			panic("INFRA: control run judged: " + what)
		}
		if applied {
			l.Outcome("control-applied")
		} else {
			l.Outcome("control-not-applied")
			r.Add("control_not_applied", 1)
		}
		l.Case("", false)

		for _, ms := range modSets(g.tree, g.plan, len(g.plan) == 1) {
			envs := []string{"plain"}
			if strings.HasPrefix(ms[0].Kind, "appear-") && len(ms) == 1 {
				envs = []string{"plain", "xdev", "nosup"}
			}
			for _, env := range envs {
				c := c8case{Tree: g.tree, Plan: g.plan, Mods: ms, Env: env}
				what, _, np := runC8(w, c, nil)
				l.Case(c.key(), applied)
				if what != "" {
					l.Outcome("violation")
					cc := c
					r.Violate(c.key(), what, cc, func() bool { v, _, _ := runC8(w, cc, nil); return v != "" })
				} else {
					l.Outcome(fmt.Sprintf("kept,%d-problem(s)", min(np, 3)))
				}
				if gi%53 == 0 && len(ms) == 1 && ms[0].Kind != "append" {
					r.Sample(c)
				}
			}
		}

		// Warm-cache histories (single-change plans): scan #1, the metadata-only
		// modification M1 (or its undoing), scan #2 chained on scan #1's caches,
		// then one post-scan modification - among them the exact restoration of
		// the state scan #1 saw - and the transition.
		if len(g.plan) != 1 {
			return
		}
		accels := []bool{false}
		if thorough {
			accels = []bool{false, true}
		}
		for _, q := range affectedPaths(g.tree, g.plan) {
			n := g.tree.at(q)
			for _, k1 := range m1KindsFor(n) {
				for _, dir := range []string{"fwd", "rev"} {
					for _, accel := range accels {
						ws := &warmSpec{Dir: dir, M1: mod{q, k1}, Accel: accel}
						// Control: the same history without a post-scan modification.
						_, wapplied, np := runC8(w, c8case{Tree: g.tree, Plan: g.plan, Env: "plain", Warm: ws}, nil)
						l.Case("", false)
						if np < 0 {
							l.Outcome("warm-plan-is-no-change")
							continue
						}
						if wapplied {
							l.Outcome("warm-control-applied")
						} else {
							l.Outcome("warm-control-refused")
						}
						m2s := []mod{{q, "restore1"}}
						for _, m := range modsFor(q, n) {
							if m.Kind != "touch-1ns" && m.Kind != "rewrite-ns" { // those two run in the cold histories only
								m2s = append(m2s, m)
							}
						}
						for _, m2 := range m2s {
							c := c8case{Tree: g.tree, Plan: g.plan, Mods: []mod{m2}, Env: "plain", Warm: ws}
							what, _, np := runC8(w, c, nil)
							l.Case(c.key(), wapplied)
							if what != "" {
								l.Outcome("violation(warm)")
								cc := c
								r.Violate(c.key(), what, cc, func() bool { v, _, _ := runC8(w, cc, nil); return v != "" })
							} else {
								l.Outcome(fmt.Sprintf("warm kept,%d-problem(s)", min(np, 3)))
							}
							if gi%101 == 0 && m2.Kind == "restore1" && k1 == "chmod" {
								r.Sample(c)
							}
						}
					}
				}
			}
		}
	})
	if capped.Load() {
		r.NotExhaustive("time budget reached before all (tree, plan) groups were explored")
	}
	r.Set("groups", len(groups))
	r.Set("scan_differs_from_generated_tree", scanMismatches.Load())
}
