//go:build verif

package ondisk

import (
	"context"
	"encoding/json"
	"fmt"
	"os"
	"path/filepath"
	"sort"
	"strings"
	"sync/atomic"
	"testing"
	"time"

	"github.com/mutagen-io/mutagen/pkg/synchronization/core"

	"verif/internal/vr"
)

// mod is one modification applied to the root between core.Scan and
// core.Transition (the quantifier of C08).
type mod struct {
	Path string `json:"path"`
	Kind string `json:"kind"`
}

func (m mod) String() string { return m.Kind + "@" + m.Path }

// modsFor lists the modifications applicable to the object n found at path
// (n == nil: the path is a planned creation target that does not exist yet).
func modsFor(path string, n *node) []mod {
	var kinds []string
	switch {
	case n == nil:
		kinds = []string{"appear-file", "appear-dir", "appear-link"}
	case n.Kind == "f":
		// size / mtime / content+mtime / permission bits / executability / identity / type
		kinds = []string{"append", "touch", "rewrite", "chmod", "chmodx", "newinode", "to-dir", "to-link"}
	case n.Kind == "l":
		kinds = []string{"retarget", "to-file", "to-dir"}
	case n.Kind == "d":
		kinds = []string{"add-file", "add-dir", "add-link", "to-file", "to-link"}
	}
	out := make([]mod, 0, len(kinds))
	for _, k := range kinds {
		out = append(out, mod{path, k})
	}
	return out
}

func isAdd(m mod) bool { return strings.HasPrefix(m.Kind, "add-") }

// applyMod performs the modification with plain os calls.
func applyMod(root string, m mod) error {
	p := filepath.Join(root, filepath.FromSlash(m.Path))
	later := baseTime.Add(time.Second)
	switch m.Kind {
	case "append": // size changes; mtime put back so that only the size differs
		f, err := os.OpenFile(p, os.O_WRONLY|os.O_APPEND, 0)
		if err != nil {
			return err
		}
		if _, err := f.Write([]byte("+")); err != nil {
			return err
		}
		if err := f.Close(); err != nil {
			return err
		}
		return os.Chtimes(p, baseTime, baseTime)
	case "touch": // only the modification time differs
		return os.Chtimes(p, later, later)
	case "rewrite": // same size, other bytes, new modification time
		b, err := os.ReadFile(p)
		if err != nil {
			return err
		}
		for i := range b {
			b[i] ^= 0x20
		}
		f, err := os.OpenFile(p, os.O_WRONLY, 0)
		if err != nil {
			return err
		}
		if _, err := f.WriteAt(b, 0); err != nil {
			return err
		}
		if err := f.Close(); err != nil {
			return err
		}
		return os.Chtimes(p, later, later)
	case "chmod": // permission bits other than executability
		st, err := os.Lstat(p)
		if err != nil {
			return err
		}
		return os.Chmod(p, st.Mode().Perm()|0o040)
	case "chmodx": // executability toggled
		st, err := os.Lstat(p)
		if err != nil {
			return err
		}
		return os.Chmod(p, st.Mode().Perm()^0o100)
	case "newinode": // replaced by a new file with the same bytes, mode and mtime: only the identity differs
		st, err := os.Lstat(p)
		if err != nil {
			return err
		}
		b, err := os.ReadFile(p)
		if err != nil {
			return err
		}
		tmp := filepath.Join(filepath.Dir(root), "newinode.tmp")
		if err := os.WriteFile(tmp, b, st.Mode().Perm()); err != nil {
			return err
		}
		if err := os.Chmod(tmp, st.Mode().Perm()); err != nil {
			return err
		}
		if err := os.Chtimes(tmp, st.ModTime(), st.ModTime()); err != nil {
			return err
		}
		return os.Rename(tmp, p)
	case "to-dir", "appear-dir":
		if err := os.RemoveAll(p); err != nil {
			return err
		}
		if err := os.Mkdir(p, 0o700); err != nil {
			return err
		}
		return writeFile(filepath.Join(p, "n"), "user data", false, later)
	case "to-link", "appear-link":
		if err := os.RemoveAll(p); err != nil {
			return err
		}
		return os.Symlink("t9", p)
	case "to-file", "appear-file":
		if err := os.RemoveAll(p); err != nil {
			return err
		}
		return writeFile(p, "user data", false, later)
	case "retarget":
		if err := os.Remove(p); err != nil {
			return err
		}
		return os.Symlink("t9", p)
	case "add-file":
		return writeFile(filepath.Join(p, "n"), "user data", false, later)
	case "add-dir":
		return os.Mkdir(filepath.Join(p, "n"), 0o700)
	case "add-link":
		return os.Symlink("t9", filepath.Join(p, "n"))
	}
	return fmt.Errorf("unknown modification %q", m.Kind)
}

// c8case is one execution of C08.
type c8case struct {
	Tree *node  `json:"tree"`
	Plan plan   `json:"plan"`
	Mods []mod  `json:"mods"`
	Env  string `json:"env"`
}

func (c c8case) key() string {
	ms := make([]string, 0, len(c.Mods))
	for _, m := range c.Mods {
		ms = append(ms, m.String())
	}
	return fmt.Sprintf("tree=%s plan=%s mods=[%s] env=%s", c.Tree, c.Plan, strings.Join(ms, ","), c.Env)
}

// runC8 executes one case and applies the C08 oracle. With no modifications it
// is the control run: it returns applied=true when the plan was applied fully
// and without problems (so the modified paths really are in harm's way).
func runC8(w *world, c c8case, verbose func(string, ...any)) (what string, applied bool, nproblems int) {
	infra := func(err error) {
		if err != nil {
			panic(fmt.Sprintf("INFRA: %v (case %s)", err, c.key()))
		}
	}
	infra(w.reset())
	infra(materialize(w.root, c.Tree))
	snap, cache, err := w.scan(nil)
	infra(err)
	if !snap.Content.Equal(c.Tree.entry(), true) {
		panic(fmt.Sprintf("INFRA: initial scan %s differs from generated tree %s", describe(snap.Content), c.Tree))
	}
	changes := make([]*core.Change, len(c.Plan))
	for i, ch := range c.Plan {
		changes[i] = &core.Change{Path: ch.Path, Old: entryAt(snap.Content, ch.Path), New: ch.New.entry()}
		infra(w.stageFor(ch.Path, ch.New, nil))
	}

	// The modifications happen after the scan and before the transition.
	for _, m := range c.Mods {
		infra(applyMod(w.root, m))
	}
	modSnap, err := snapshot(w.root)
	infra(err)

	w.xdev, w.nosup = c.Env == "xdev", c.Env == "nosup"
	w.startHooks(nil, nil)
	results, problems, _, err := w.transition(context.Background(), changes, cache, snap, config{})
	w.stopHooks()
	infra(err)
	post, err := snapshot(w.root)
	infra(err)
	if verbose != nil {
		verbose("after modification: %s", describe(entryFromSnapshot(modSnap, "")))
		verbose("after transition:   %s", describe(entryFromSnapshot(post, "")))
		verbose("problems: %s", problemsString(problems))
	}

	applied = len(problems) == 0
	for i := range changes {
		if i >= len(results) || !results[i].Equal(changes[i].New, true) {
			applied = false
		}
	}

	var bad []string
	for _, m := range c.Mods {
		// Paths that must be left as they are: the modified object itself (with
		// everything below it when it changed type), or - for a new child - the
		// directory that now "contains entries the plan did not know about" and
		// that child.
		var protected []string
		for p := range modSnap {
			switch {
			case isAdd(m):
				if p == m.Path || within(p, join(m.Path, "n")) {
					protected = append(protected, p)
				}
			case within(p, m.Path):
				protected = append(protected, p)
			}
		}
		sort.Strings(protected)
		for _, p := range protected {
			before := modSnap[p]
			after, ok := post[p]
			if !ok {
				// "never deletes ..."
				bad = append(bad, fmt.Sprintf("%s: %q was deleted (it was %v)", m, p, before))
			} else if !sameObject(before, after) {
				// "... or replaces"; "left as they are"
				bad = append(bad, fmt.Sprintf("%s: %q was altered: %v -> %v", m, p, before, after))
			}
		}
		// "such paths are reported as problems"
		reported := false
		for _, pr := range problems {
			if within(pr.Path, m.Path) {
				reported = true
			}
		}
		if !reported {
			bad = append(bad, fmt.Sprintf("%s: no problem reported at or below %q", m, m.Path))
		}
	}
	if len(bad) > 0 {
		what = strings.Join(bad, "; ") + " [problems: " + problemsString(problems) + "]"
	}
	return what, applied, len(problems)
}

// modSets enumerates the modification sets for (tree, plan): every single
// modification at every path inside the plan's targets, and (pairs=true)
// every pair of modifications at two different paths that can both be applied.
func modSets(tree *node, p plan, pairs bool) [][]mod {
	var singles []mod
	for _, q := range affectedPaths(tree, p) {
		singles = append(singles, modsFor(q, tree.at(q))...)
	}
	for _, ch := range p {
		if tree.at(ch.Path) == nil {
			singles = append(singles, modsFor(ch.Path, nil)...)
		}
	}
	var out [][]mod
	for _, m := range singles {
		out = append(out, []mod{m})
	}
	if pairs {
		for i, m1 := range singles {
			for _, m2 := range singles[i+1:] {
				if m1.Path == m2.Path {
					continue
				}
				// A modification that changes the type of an object destroys
				// what is below it; only "new child" modifications nest.
				if within(m2.Path, m1.Path) && !isAdd(m1) {
					continue
				}
				if within(m1.Path, m2.Path) && !isAdd(m2) {
					continue
				}
				out = append(out, []mod{m1, m2})
			}
		}
	}
	return out
}

func TestC08(t *testing.T) {
	r := vr.New(t, "C08", "fault_enumeration")
	defer r.Finish()
	parent := scratchDir(t)
	installHooks()
	defer uninstallHooks()

	if raw := vr.ReplayCase(); raw != nil {
		var c c8case
		if err := json.Unmarshal(raw, &c); err != nil {
			t.Fatalf("INFRA: replay case does not parse: %v", err)
		}
		w, err := newWorld(parent, 0)
		if err != nil {
			t.Fatalf("INFRA: %v", err)
		}
		worlds = []*world{w}
		what, applied, np := runC8(w, c, t.Logf)
		t.Logf("replay %s: applied=%v problems=%d verdict %q", c.key(), applied, np, what)
		r.Case(c.key(), true)
		if what != "" {
			r.Violate(c.key(), what, c, nil)
		}
		return
	}

	thorough := vr.Thorough()
	deadline := vr.Deadline(45*time.Second, 8*time.Minute)
	type group struct {
		tree *node
		plan plan
	}
	var groups []group
	for _, tree := range trees(thorough) {
		plans := singlePlans(tree)
		if thorough {
			plans = append(plans, pairPlans(tree, false)...)
		}
		for _, p := range plans {
			groups = append(groups, group{tree, p})
		}
	}
	r.Rule(fmt.Sprintf("every base tree (%d) x every single-change plan on every path (thorough: also two-change plans, and the trees without the bystander b) x every modification set applied between core.Scan and core.Transition: one modification, and for single-change plans every applicable pair at two different paths, from {file: append(size), touch(mtime), rewrite(same size, new mtime), chmod, chmod +-x, new inode with identical bytes/mode/mtime, ->dir, ->link; link: retarget, ->file, ->dir; directory: new child file/dir/link, ->file, ->link; planned creation target: a file/dir/link appears} at every path inside the plan's targets; creation targets additionally under {EXDEV staging, no RENAME_NOREPLACE}. Non-trivial = the same plan without modification was applied completely and without problems (control run), so the modified object is one the plan deletes or replaces; distinct by (tree, plan, modifications, env)", len(trees(thorough))))
	r.Assume("modifications are applied between the scan and the transition, never inside one operation (the documented check-to-unlink RACE windows are excluded by the property's quantifier)",
		"every modification changes at least one of type, permission bits, size, modification time, file identity, link target or adds a directory entry; a same-size rewrite that also restores the modification time is outside the property",
		"'reported as problems' is read as: at least one returned problem whose path is the modified path or lies below it",
		"symbolic link mode portable, permissions mode portable, default modes 0600/0700, no ownership")

	worlds = nil
	nw := vr.Workers()
	pool := make(chan *world, nw)
	for i := 0; i < nw; i++ {
		w, err := newWorld(parent, i)
		if err != nil {
			t.Fatalf("INFRA: %v", err)
		}
		worlds = append(worlds, w)
		pool <- w
	}
	var capped atomic.Bool
	vr.Parallel(len(groups), func(gi int) {
		if time.Now().After(deadline) {
			capped.Store(true)
			return
		}
		g := groups[gi]
		w := <-pool
		defer func() { pool <- w }()
		l := r.Local()
		defer l.Flush()

		// Control run: no modification.
		ctl := c8case{Tree: g.tree, Plan: g.plan, Env: "plain"}
		what, applied, _ := runC8(w, ctl, nil)
		if what != "" {
			panic("INFRA: control run judged: " + what)
		}
		if applied {
			l.Outcome("control-applied")
		} else {
			l.Outcome("control-not-applied")
			r.Add("control_not_applied", 1)
		}
		l.Case("", false)

		for _, ms := range modSets(g.tree, g.plan, len(g.plan) == 1) {
			envs := []string{"plain"}
			if strings.HasPrefix(ms[0].Kind, "appear-") && len(ms) == 1 {
				envs = []string{"plain", "xdev", "nosup"}
			}
			for _, env := range envs {
				c := c8case{Tree: g.tree, Plan: g.plan, Mods: ms, Env: env}
				what, _, np := runC8(w, c, nil)
				l.Case(c.key(), applied)
				if what != "" {
					l.Outcome("violation")
					cc := c
					r.Violate(c.key(), what, cc, func() bool { v, _, _ := runC8(w, cc, nil); return v != "" })
				} else {
					l.Outcome(fmt.Sprintf("kept,%d-problem(s)", min(np, 3)))
				}
				if gi%53 == 0 && len(ms) == 1 && ms[0].Kind != "append" {
					r.Sample(c)
				}
			}
		}
	})
	if capped.Load() {
		r.NotExhaustive("time budget reached before all (tree, plan) groups were explored")
	}
	r.Set("groups", len(groups))
}
