//go:build verif

// Package ondisk holds the bounded-exhaustive on-disk checks: C08 (transitions
// never destroy content changed after the scan), C09 (transition results
// describe the disk exactly under any fault) and C17 (no escape outside the
// root through in-root symbolic links). All of them run the real core.Scan /
// core.Transition (and filesystem.Opener, rsync.Transmit, the local endpoint)
// on real temporary directories.
package ondisk

import (
	"context"
	"crypto/sha1"
	"encoding/hex"
	"fmt"
	"os"
	"path/filepath"
	"runtime/debug"
	"sort"
	"strconv"
	"strings"
	"sync/atomic"
	"syscall"
	"testing"
	"time"

	"golang.org/x/sys/unix"

	"github.com/mutagen-io/mutagen/pkg/filesystem"
	"github.com/mutagen-io/mutagen/pkg/filesystem/behavior"
	"github.com/mutagen-io/mutagen/pkg/synchronization/core"
	"github.com/mutagen-io/mutagen/pkg/synchronization/core/ignore"
	mutagenignore "github.com/mutagen-io/mutagen/pkg/synchronization/core/ignore/mutagen"
	"github.com/mutagen-io/mutagen/pkg/verifhook"
)

// ---------------------------------------------------------------------------
// Tree model (harness side, independent of core.Entry).
// ---------------------------------------------------------------------------

// node is one filesystem object of a generated tree. A nil *node is "nothing".
type node struct {
	Kind   string           `json:"k"`           // "f" file, "l" symbolic link, "d" directory
	Data   string           `json:"d,omitempty"` // file bytes
	Exec   bool             `json:"x,omitempty"` // user-executable file
	Target string           `json:"t,omitempty"` // link target
	Kids   map[string]*node `json:"c,omitempty"` // directory contents
}

func nF(data string) *node  { return &node{Kind: "f", Data: data} }
func nFx(data string) *node { return &node{Kind: "f", Data: data, Exec: true} }
func nL(target string) *node {
	return &node{Kind: "l", Target: target}
}
func nD(kv ...interface{}) *node {
	d := &node{Kind: "d", Kids: map[string]*node{}}
	for i := 0; i+1 < len(kv); i += 2 {
		if c, _ := kv[i+1].(*node); c != nil {
			d.Kids[kv[i].(string)] = c
		}
	}
	return d
}

// String is a compact canonical notation used in case keys.
func (n *node) String() string {
	if n == nil {
		return "-"
	}
	switch n.Kind {
	case "f":
		s := "F(" + n.Data + ")"
		if n.Exec {
			s += "x"
		}
		return s
	case "l":
		return "L(" + n.Target + ")"
	}
	names := make([]string, 0, len(n.Kids))
	for k := range n.Kids {
		names = append(names, k)
	}
	sort.Strings(names)
	var b strings.Builder
	b.WriteString("D{")
	for i, k := range names {
		if i > 0 {
			b.WriteByte(',')
		}
		b.WriteString(k + ":" + n.Kids[k].String())
	}
	b.WriteString("}")
	return b.String()
}

func (n *node) clone() *node {
	if n == nil {
		return nil
	}
	c := &node{Kind: n.Kind, Data: n.Data, Exec: n.Exec, Target: n.Target}
	if n.Kids != nil {
		c.Kids = map[string]*node{}
		for k, v := range n.Kids {
			c.Kids[k] = v.clone()
		}
	}
	return c
}

// at returns the node at a slash separated path ("" = n itself).
func (n *node) at(path string) *node {
	if path == "" || n == nil {
		return n
	}
	head, rest, _ := strings.Cut(path, "/")
	if n.Kind != "d" {
		return nil
	}
	return n.Kids[head].at(rest)
}

// paths lists every path of the subtree, parents before children, sorted.
func (n *node) paths(prefix string, out *[]string) {
	if n == nil {
		return
	}
	*out = append(*out, prefix)
	if n.Kind == "d" {
		names := make([]string, 0, len(n.Kids))
		for k := range n.Kids {
			names = append(names, k)
		}
		sort.Strings(names)
		for _, k := range names {
			n.Kids[k].paths(join(prefix, k), out)
		}
	}
}

func join(a, b string) string {
	if a == "" {
		return b
	}
	return a + "/" + b
}

func digestOf(data string) []byte {
	h := sha1.Sum([]byte(data))
	return h[:]
}

// entry converts a node into the core.Entry a controller would plan with.
func (n *node) entry() *core.Entry {
	if n == nil {
		return nil
	}
	switch n.Kind {
	case "f":
		return &core.Entry{Kind: core.EntryKind_File, Executable: n.Exec, Digest: digestOf(n.Data)}
	case "l":
		return &core.Entry{Kind: core.EntryKind_SymbolicLink, Target: n.Target}
	}
	e := &core.Entry{Kind: core.EntryKind_Directory}
	if len(n.Kids) > 0 {
		e.Contents = map[string]*core.Entry{}
		for k, v := range n.Kids {
			e.Contents[k] = v.entry()
		}
	}
	return e
}

// baseTime is the modification time given to every generated file.
var baseTime = time.Unix(1_000_000_000, 123_456_789)

// materialize creates the node at path (which must not exist).
func materialize(path string, n *node) error {
	if n == nil {
		return nil
	}
	switch n.Kind {
	case "f":
		return writeFile(path, n.Data, n.Exec, baseTime)
	case "l":
		return os.Symlink(n.Target, path)
	case "d":
		if err := os.Mkdir(path, 0o700); err != nil {
			return err
		}
		if err := os.Chmod(path, 0o700); err != nil {
			return err
		}
		for k, v := range n.Kids {
			if err := materialize(filepath.Join(path, k), v); err != nil {
				return err
			}
		}
		return nil
	}
	return fmt.Errorf("bad node kind %q", n.Kind)
}

func writeFile(path, data string, exec bool, mtime time.Time) error {
	mode := os.FileMode(0o600)
	if exec {
		mode = 0o700
	}
	if err := os.WriteFile(path, []byte(data), mode); err != nil {
		return err
	}
	if err := os.Chmod(path, mode); err != nil {
		return err
	}
	return os.Chtimes(path, mtime, mtime)
}

// ---------------------------------------------------------------------------
// Independent disk observation (os package only; nothing from mutagen).
// ---------------------------------------------------------------------------

// finfo is what the harness records about one on-disk object.
type finfo struct {
	Mode   uint32 // full st_mode (type and permission bits)
	Size   int64
	Mtime  int64 // nanoseconds
	Ino    uint64
	UID    uint32
	GID    uint32
	Data   string // file bytes
	Target string // link target
}

func (f finfo) isDir() bool  { return f.Mode&syscall.S_IFMT == syscall.S_IFDIR }
func (f finfo) isFile() bool { return f.Mode&syscall.S_IFMT == syscall.S_IFREG }
func (f finfo) isLink() bool { return f.Mode&syscall.S_IFMT == syscall.S_IFLNK }

func (f finfo) String() string {
	return fmt.Sprintf("{mode %o size %d mtime %d ino %d data %q target %q}", f.Mode, f.Size, f.Mtime, f.Ino, vrShort(f.Data), f.Target)
}

func vrShort(s string) string {
	if len(s) > 24 {
		return s[:24] + "..."
	}
	return s
}

// sameObject compares everything the properties speak about: type, permission
// bits, size, modification time, identity, bytes and link target. Directory
// sizes and modification times are excluded (they change when a sibling entry
// is created or removed, which is not a change of the directory's content that
// any property forbids).
func sameObject(a, b finfo) bool {
	if a.isDir() || b.isDir() {
		return a.Mode == b.Mode && a.Ino == b.Ino
	}
	return a.Mode == b.Mode && a.Size == b.Size && a.Mtime == b.Mtime && a.Ino == b.Ino && a.Data == b.Data && a.Target == b.Target
}

// snapshot walks the tree at root with lstat/readlink/read and returns a map
// from relative path ("" = root itself) to finfo. A missing root gives an
// empty map.
func snapshot(root string) (map[string]finfo, error) {
	out := map[string]finfo{}
	var walk func(abs, rel string) error
	walk = func(abs, rel string) error {
		st, err := os.Lstat(abs)
		if err != nil {
			if os.IsNotExist(err) && rel == "" {
				return nil
			}
			return err
		}
		sys := st.Sys().(*syscall.Stat_t)
		fi := finfo{Mode: sys.Mode, Size: sys.Size, Mtime: sys.Mtim.Nano(), Ino: sys.Ino, UID: sys.Uid, GID: sys.Gid}
		switch {
		case fi.isFile():
			b, err := os.ReadFile(abs)
			if err != nil {
				return err
			}
			fi.Data = string(b)
		case fi.isLink():
			t, err := os.Readlink(abs)
			if err != nil {
				return err
			}
			fi.Target = t
		}
		out[rel] = fi
		if fi.isDir() {
			ents, err := os.ReadDir(abs)
			if err != nil {
				return err
			}
			for _, e := range ents {
				if err := walk(filepath.Join(abs, e.Name()), join(rel, e.Name())); err != nil {
					return err
				}
			}
		}
		return nil
	}
	return out, walk(root, "")
}

// hasTemporaryComponent reports whether any component of rel carries mutagen's
// temporary-name prefix.
func hasTemporaryComponent(rel string) bool {
	for _, c := range strings.Split(rel, "/") {
		if strings.HasPrefix(c, filesystem.TemporaryNamePrefix) {
			return true
		}
	}
	return false
}

// entryFromSnapshot builds, from the harness's own walk, the entry a correct
// description of the disk at rel would be (portable permissions: executable =
// any executable bit; temporary names are not content).
func entryFromSnapshot(snap map[string]finfo, rel string) *core.Entry {
	fi, ok := snap[rel]
	if !ok {
		return nil
	}
	switch {
	case fi.isFile():
		return &core.Entry{Kind: core.EntryKind_File, Executable: fi.Mode&0o111 != 0, Digest: digestOf(fi.Data)}
	case fi.isLink():
		return &core.Entry{Kind: core.EntryKind_SymbolicLink, Target: fi.Target}
	case fi.isDir():
		e := &core.Entry{Kind: core.EntryKind_Directory, Contents: map[string]*core.Entry{}}
		prefix := rel
		if prefix != "" {
			prefix += "/"
		}
		for p := range snap {
			if p == rel || !strings.HasPrefix(p, prefix) {
				continue
			}
			name := p[len(prefix):]
			if strings.Contains(name, "/") || strings.HasPrefix(name, filesystem.TemporaryNamePrefix) {
				continue
			}
			e.Contents[name] = entryFromSnapshot(snap, p)
		}
		return e
	}
	return &core.Entry{Kind: core.EntryKind_Untracked}
}

// entryAt returns the entry at path inside e.
func entryAt(e *core.Entry, path string) *core.Entry {
	if path == "" || e == nil {
		return e
	}
	head, rest, _ := strings.Cut(path, "/")
	return entryAt(e.Contents[head], rest)
}

// describe renders an entry for messages.
func describe(e *core.Entry) string {
	if e == nil {
		return "-"
	}
	switch e.Kind {
	case core.EntryKind_File:
		s := "F(" + hex.EncodeToString(e.Digest)[:6] + ")"
		if e.Executable {
			s += "x"
		}
		return s
	case core.EntryKind_SymbolicLink:
		return "L(" + e.Target + ")"
	case core.EntryKind_Directory:
		names := make([]string, 0, len(e.Contents))
		for k := range e.Contents {
			names = append(names, k)
		}
		sort.Strings(names)
		parts := make([]string, 0, len(names))
		for _, k := range names {
			parts = append(parts, k+":"+describe(e.Contents[k]))
		}
		return "D{" + strings.Join(parts, ",") + "}"
	}
	return e.Kind.String() + "(" + e.Problem + ")"
}

// ---------------------------------------------------------------------------
// World: one worker's scratch area with root, staging directory and the
// call shapes of the local endpoint.
// ---------------------------------------------------------------------------

// config is the endpoint configuration dimension used by the checks.
type config struct {
	Owner string `json:"owner,omitempty"` // DefaultOwner, e.g. "id:4242"
	Group string `json:"group,omitempty"` // DefaultGroup
}

type world struct {
	base  string // scratch directory of this worker
	root  string // base/root  : synchronization root
	stage string // base/stage : staged files handed out by the provider
	seq   int

	// Hook state (used only while a handler is installed; accessed from the
	// worker's own goroutine because hook points are called synchronously).
	hooking atomic.Bool
	log     []point
	counts  map[string]int
	armed   []fault
	fired   []bool
	xdev    bool // first rename into each target reports EXDEV
	nosup   bool // renameat2 reports ENOTSUP (no RENAME_NOREPLACE support)
	cancel  context.CancelFunc
	onPoint func(p point) // optional observer (C17)
	onFault func(f fault, p point) // action for fault kinds other than eio/cancel
}

// point is one hook point reached, identified by content, not by ordinal.
type point struct {
	Op   string `json:"op"`
	Path string `json:"path"` // relative to the worker's base; temporary names canonicalised
	Occ  int    `json:"occ"`  // occurrence number among points with the same (op, path)
}

func (p point) String() string { return fmt.Sprintf("%s %s #%d", p.Op, p.Path, p.Occ) }

// fault is an action armed at a point.
type fault struct {
	At  point  `json:"at"`
	Act string `json:"act"` // "eio" or "cancel"
}

func (f fault) String() string { return f.Act + "@" + f.At.String() }

var worlds []*world // registry for the process-global hook handler (read-only while checks run)

func newWorld(parent string, i int) (*world, error) {
	w := &world{base: filepath.Join(parent, "w"+strconv.Itoa(i))}
	w.root = filepath.Join(w.base, "root")
	w.stage = filepath.Join(w.base, "stage")
	if err := os.MkdirAll(w.base, 0o700); err != nil {
		return nil, err
	}
	return w, nil
}

// reset removes everything in the worker's scratch area and recreates the staging directory.
func (w *world) reset() error {
	ents, err := os.ReadDir(w.base)
	if err != nil {
		return err
	}
	for _, e := range ents {
		if err := os.RemoveAll(filepath.Join(w.base, e.Name())); err != nil {
			return err
		}
	}
	return os.Mkdir(w.stage, 0o700)
}

// Provide implements core.Provider over the staging directory.
func (w *world) Provide(path string, digest []byte) (string, error) {
	// The provider callback is itself a point at which the environment can act
	// (pseudo hook point "provide", named by the path being provided).
	if w.hooking.Load() {
		if err := w.point("provide", join("root", path)); err != nil {
			return "", err
		}
	}
	return w.stagedPath(path, digest), nil
}

func (w *world) stagedPath(path string, digest []byte) string {
	ph := sha1.Sum([]byte(path))
	return filepath.Join(w.stage, hex.EncodeToString(digest)[:10]+"-"+hex.EncodeToString(ph[:4]))
}

// stageFor writes the staged file of every file in the subtree n planned at path.
func (w *world) stageFor(path string, n *node, skip map[string]bool) error {
	if n == nil {
		return nil
	}
	switch n.Kind {
	case "f":
		if skip[path] {
			return nil
		}
		return os.WriteFile(w.stagedPath(path, digestOf(n.Data)), []byte(n.Data), 0o600)
	case "d":
		for k, v := range n.Kids {
			if err := w.stageFor(join(path, k), v, skip); err != nil {
				return err
			}
		}
	}
	return nil
}

var emptyIgnorer ignore.Ignorer

func init() {
	// core.Scan and core.Transition allocate a 32 KiB copy buffer per call; a
	// larger GC percentage keeps the collector from dominating the run time.
	debug.SetGCPercent(400)
	i, err := mutagenignore.NewIgnorer(nil)
	if err != nil {
		panic(err)
	}
	emptyIgnorer = i
}

// scan calls core.Scan with the argument shape of the local endpoint's full scan.
func (w *world) scan(cache *core.Cache) (*core.Snapshot, *core.Cache, error) {
	return w.scanWith(nil, nil, cache, nil, core.SymbolicLinkMode_SymbolicLinkModePortable)
}

func (w *world) scanWith(baseline *core.Snapshot, recheck map[string]bool, cache *core.Cache, ic ignore.IgnoreCache, slm core.SymbolicLinkMode) (*core.Snapshot, *core.Cache, error) {
	s, c, _, err := w.scanFull(baseline, recheck, cache, ic, slm)
	return s, c, err
}

// scanFull additionally returns the new ignore cache, so that scans can be
// chained the way the local endpoint chains them (cache and ignore cache of
// one scan are the inputs of the next).
func (w *world) scanFull(baseline *core.Snapshot, recheck map[string]bool, cache *core.Cache, ic ignore.IgnoreCache, slm core.SymbolicLinkMode) (*core.Snapshot, *core.Cache, ignore.IgnoreCache, error) {
	// A cold scan is requested by passing caches whose only entry can never be
	// looked up (no path contains a NUL byte). Semantically this is the nil
	// cache; it only keeps core.Scan from allocating 1024-slot maps per call,
	// which dominated the run time of the checks.
	if cache == nil {
		cache = &core.Cache{Entries: map[string]*core.CacheEntry{"\x00cold": {}}}
	}
	if ic == nil {
		ic = ignore.IgnoreCache{ignore.IgnoreCacheKey{Path: "\x00cold"}: ignore.IgnoreCacheValue{}}
	}
	return core.Scan(
		context.Background(),
		w.root,
		baseline, recheck,
		sha1.New(), cache,
		emptyIgnorer, ic,
		behavior.ProbeMode_ProbeModeProbe,
		slm,
		core.PermissionsMode_PermissionsModePortable,
	)
}

// transition calls core.Transition with the argument shape of the local endpoint.
func (w *world) transition(ctx context.Context, changes []*core.Change, cache *core.Cache, snap *core.Snapshot, cfg config) ([]*core.Entry, []*core.Problem, bool, error) {
	own, err := filesystem.NewOwnershipSpecification(cfg.Owner, cfg.Group)
	if err != nil {
		return nil, nil, false, err
	}
	r, p, m := core.Transition(
		ctx,
		w.root,
		changes,
		cache,
		core.SymbolicLinkMode_SymbolicLinkModePortable,
		filesystem.Mode(0o600),
		filesystem.Mode(0o700),
		own,
		snap.DecomposesUnicode,
		w,
	)
	return r, p, m, nil
}

// ---------------------------------------------------------------------------
// Hook handler (E-fault): points are keyed by (op, resolved path, occurrence).
// ---------------------------------------------------------------------------

func resolveFD(fd int, name string) string {
	if fd == unix.AT_FDCWD || fd < 0 {
		return name
	}
	p, err := os.Readlink("/proc/self/fd/" + strconv.Itoa(fd))
	if err != nil {
		return "?fd" + strconv.Itoa(fd) + "/" + name
	}
	p = strings.TrimSuffix(p, " (deleted)")
	if name == "" {
		return p
	}
	return p + "/" + name
}

// canonical replaces temporary-name components (random suffix) by a fixed token.
func canonical(rel string) string {
	if !strings.Contains(rel, filesystem.TemporaryNamePrefix) {
		return rel
	}
	parts := strings.Split(rel, "/")
	for i, c := range parts {
		if strings.HasPrefix(c, filesystem.TemporaryNamePrefix) {
			parts[i] = "<tmp>"
		}
	}
	return strings.Join(parts, "/")
}

func hookHandler(op string, fd int, name string) error {
	abs := resolveFD(fd, name)
	for _, w := range worlds {
		if w.hooking.Load() && (abs == w.base || strings.HasPrefix(abs, w.base+"/")) {
			return w.point(op, canonical(strings.TrimPrefix(strings.TrimPrefix(abs, w.base), "/")))
		}
	}
	return nil
}

func (w *world) point(op, rel string) error {
	key := op + " " + rel
	occ := w.counts[key]
	w.counts[key] = occ + 1
	p := point{Op: op, Path: rel, Occ: occ}
	w.log = append(w.log, p)
	if w.onPoint != nil {
		w.onPoint(p)
	}
	for i, f := range w.armed {
		if !w.fired[i] && f.At == p {
			w.fired[i] = true
			switch f.Act {
			case "cancel":
				if w.cancel != nil {
					w.cancel()
				}
			case "eio":
				return unix.EIO
			default:
				// Harness-defined action (e.g. C17's intra-operation link swap),
				// performed before the real syscall proceeds.
				if w.onFault != nil {
					w.onFault(f, p)
				}
			}
		}
	}
	if op == "renameat2" && w.nosup {
		return unix.ENOTSUP
	}
	if w.xdev && (op == "renameat" || op == "renameat2") {
		// "a rename crosses devices": the rename of the staged file into place -
		// the first rename aimed at this target, whichever rename variant is
		// used - reports EXDEV; later renames to the same target (the
		// intermediate file's) proceed for real.
		n := w.counts["rename-to "+rel]
		w.counts["rename-to "+rel] = n + 1
		if n == 0 {
			return unix.EXDEV
		}
	}
	return nil
}

// startHooks arms the given faults and starts logging points for this world.
func (w *world) startHooks(armed []fault, cancel context.CancelFunc) {
	w.log = w.log[:0]
	w.counts = map[string]int{}
	w.armed = armed
	w.fired = make([]bool, len(armed))
	w.cancel = cancel
	w.hooking.Store(true)
}

func (w *world) stopHooks() {
	w.hooking.Store(false)
	w.cancel = nil
}

func installHooks()   { verifhook.Set(hookHandler) }
func uninstallHooks() { verifhook.Set(nil) }

// problemsString renders problems sorted by path (order-insensitive).
func problemsString(ps []*core.Problem) string {
	out := make([]string, 0, len(ps))
	for _, p := range ps {
		out = append(out, p.Path+": "+p.Error)
	}
	sort.Strings(out)
	return strings.Join(out, " | ")
}

// within reports whether path equals root or lies below it ("" contains everything).
func within(path, root string) bool {
	return root == "" || path == root || strings.HasPrefix(path, root+"/")
}

// scratchDir returns the directory under which the workers' scratch areas are
// created: a fresh directory on tmpfs (/dev/shm) when available - the checks
// create and delete some millions of small files, which is about three times
// faster there than on the ext4 root and does not wear the disk - otherwise
// t.TempDir(). VERIF_SCRATCH=tmp forces t.TempDir(). Removed when the test ends.
func scratchDir(t *testing.T) string {
	if os.Getenv("VERIF_SCRATCH") != "tmp" {
		if st, err := os.Stat("/dev/shm"); err == nil && st.IsDir() {
			if d, err := os.MkdirTemp("/dev/shm", "verif-ondisk-"); err == nil {
				t.Cleanup(func() { os.RemoveAll(d) })
				return d
			}
		}
	}
	return t.TempDir()
}
