//go:build verif

package ondisk

import (
	"encoding/json"
	"fmt"
	"strings"
	"sync/atomic"
	"testing"
	"time"

	"github.com/mutagen-io/mutagen/pkg/synchronization/core"

	"verif/internal/vr"
)

// C18, disk leg: executability as applied by core.Transition. The other C18
// legs work on entries; this one runs the real transition on disk, with the
// C09 fault machinery, and compares what is REPORTED about a file's
// executability with the permission bits the file really has afterwards.

// execOracle walks the reported entries: for every file the transition reports
// at a path, the on-disk object must be a regular file whose user-executable
// bit (and "any executable bit", which is what a scan reads) equals the
// reported Executable.
func execOracle(path string, e *core.Entry, post map[string]finfo, bad *[]string, files *int) {
	if e == nil {
		return
	}
	switch e.Kind {
	case core.EntryKind_File:
		*files++
		fi, ok := post[path]
		if !ok || !fi.isFile() {
			return // whether the file exists at all is C09's question
		}
		if user := fi.Mode&0o100 != 0; user != e.Executable {
			*bad = append(*bad, fmt.Sprintf("%q reported Executable=%v but its mode is %o", path, e.Executable, fi.Mode&0o7777))
		} else if any := fi.Mode&0o111 != 0; any != e.Executable {
			*bad = append(*bad, fmt.Sprintf("%q reported Executable=%v but a scan would read mode %o", path, e.Executable, fi.Mode&0o7777))
		}
	case core.EntryKind_Directory:
		for name, c := range e.Contents {
			execOracle(join(path, name), c, post, bad, files)
		}
	}
}

func runC18(w *world, c c9case, verbose func(string, ...any)) (what string, res c9result, files int) {
	res = runC9(w, c, verbose)
	var bad []string
	for i, ch := range c.Plan {
		if i < len(res.results) {
			execOracle(ch.Path, res.results[i], res.post, &bad, &files)
		}
	}
	return strings.Join(bad, "; "), res, files
}

// c18groups: every plan that creates or replaces a file, with and without the
// executable bit, at an existing path of every kind and at a fresh name.
func c18groups() []c9group {
	news := []*node{nF(c1), nFx(c1), nF(c2), nFx(c2), nD("x", nFx(c1), "y", nF(c2)), nD("x", nD("y", nFx(c2)))}
	var out []c9group
	for _, a := range []*node{nil, nF(c1), nFx(c1), nF(c2), nFx(c2), nL(t1), nD("x", nF(c1)), nD("x", nFx(c1))} {
		tree := nD("a", a, "b", nF(c2))
		var plans []plan
		for _, n := range news {
			if a != nil && n.String() == a.String() {
				continue
			}
			plans = append(plans, plan{{"a", n.clone()}})
		}
		if a != nil && a.Kind == "d" {
			for _, n := range news[:4] {
				if n.String() != a.Kids["x"].String() {
					plans = append(plans, plan{{"a/x", n.clone()}})
				}
				plans = append(plans, plan{{"a/n", n.clone()}})
			}
		}
		for _, p := range plans {
			for _, cfg := range c9configs() {
				for _, env := range []string{"plain", "xdev", "nosup"} {
					out = append(out, c9group{Tree: tree, Plan: p, Cfg: cfg, Env: env})
				}
			}
		}
	}
	return out
}

func TestC18TransitionExec(t *testing.T) {
	r := vr.New(t, "C18", "model_checking")
	defer r.Finish()
	parent := scratchDir(t)
	installHooks()
	defer uninstallHooks()

	if raw := vr.ReplayCase(); raw != nil {
		var c c9case
		if err := json.Unmarshal(raw, &c); err != nil {
			t.Fatalf("INFRA: replay case does not parse: %v", err)
		}
		w, err := newWorld(parent, 0)
		if err != nil {
			t.Fatalf("INFRA: %v", err)
		}
		worlds = []*world{w}
		what, res, files := runC18(w, c, t.Logf)
		t.Logf("replay %s: fired=%v files=%d verdict %q", c.key(), res.firedAt, files, what)
		r.Case(c.key(), true)
		r.Set("states", 1)
		r.Set("transitions", 1)
		r.Set("traces_validated_against_impl", 1)
		if what != "" {
			r.Violate(c.key(), what, c, nil)
		}
		return
	}

	groups := c18groups()
	deadline := vr.Deadline(45*time.Second, 6*time.Minute)
	r.Rule(fmt.Sprintf("disk leg of C18: %d groups = {a absent, file (2 contents, +-x), link, directory with a file} x every plan that creates or replaces a file or a directory of files with Executable in {true,false} (at a, a/x, a/n) x {no ownership, DefaultOwner+Group} x {plain, staged rename reports EXDEV (cross-device copy path), renameat2 unsupported}; per group the fault-free run, then EIO and cancellation at every recorded hook point (thorough: a second fault after the first). For every file the real core.Transition reports, the on-disk permission bits must agree with the reported Executable. Non-trivial = at least one file was reported; distinct by (tree, plan, cfg, env, faults)", len(groups)))
	r.Assume("portable permissions mode, default file mode 0600, tmpfs/ext4 preserve executability", "whether the reported file exists at all is judged by C09, not here")

	worlds = nil
	nw := vr.Workers()
	pool := make(chan *world, nw)
	for i := 0; i < nw; i++ {
		w, err := newWorld(parent, i)
		if err != nil {
			t.Fatalf("INFRA: %v", err)
		}
		worlds = append(worlds, w)
		pool <- w
	}
	depth := 1
	if vr.Thorough() {
		depth = 2
	}
	var capped atomic.Bool
	var execs atomic.Int64
	vr.Parallel(len(groups), func(gi int) {
		g := groups[gi]
		w := <-pool
		defer func() { pool <- w }()
		l := r.Local()
		defer l.Flush()
		eval := func(c c9case) c9result {
			what, res, files := runC18(w, c, nil)
			execs.Add(1)
			l.Case(c.key(), files > 0)
			switch {
			case what != "":
				l.Outcome("violation")
				cc := c
				r.Violate(c.key(), what, cc, func() bool { v, _, _ := runC18(w, cc, nil); return v != "" })
			case files > 0:
				l.Outcome("reported files agree with disk")
			default:
				l.Outcome("no file reported")
			}
			return res
		}
		base := c9case{Tree: g.Tree, Plan: g.Plan, Cfg: g.Cfg, Env: g.Env}
		b := eval(base)
		if gi%61 == 0 {
			r.Sample(map[string]interface{}{"case": base, "points": fmt.Sprint(b.log)})
		}
		var explore func(prefix []fault, log []point, from, level int)
		explore = func(prefix []fault, log []point, from, level int) {
			for _, q := range log[from:] {
				for _, act := range []string{"eio", "cancel"} {
					if act == "cancel" && len(prefix) > 0 && prefix[0].Act == "cancel" {
						continue
					}
					if time.Now().After(deadline) {
						capped.Store(true)
						return
					}
					c := base
					c.Faults = append(append([]fault(nil), prefix...), fault{At: q, Act: act})
					res := eval(c)
					if last := res.firedAt[len(res.firedAt)-1]; level < depth && last >= 0 {
						explore(c.Faults, res.log, last+1, level+1)
					}
				}
			}
		}
		explore(nil, b.log, 0, 1)
	})
	if capped.Load() {
		r.NotExhaustive("time budget reached before every group was explored to the stated depth")
	}
	// model_checking evidence keys, as in the other C18 legs: states = distinct
	// (tree, plan, configuration, environment) inputs, transitions = executions
	// of the real core.Transition, each of which was checked against the disk.
	r.Set("states", len(groups))
	r.Set("transitions", execs.Load())
	r.Set("traces_validated_against_impl", execs.Load())
}
