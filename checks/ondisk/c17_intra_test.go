//go:build verif

package ondisk

import (
	"context"
	"fmt"
	"io"
	"os"
	"path"
	"path/filepath"
	"strings"

	"github.com/mutagen-io/mutagen/pkg/filesystem"
	"github.com/mutagen-io/mutagen/pkg/synchronization/core"
)

// Intra-operation legs of C17: the object a filesystem call is about to
// operate on (or its parent directory) is swapped for a symbolic link to the
// canary at a hook point, i.e. immediately before that call, inside one
// Transition / Scan / Opener sequence. Every open in the code under test is
// O_NOFOLLOW and relative to a directory descriptor, so no call may reach the
// canary whatever the point. Only "nothing outside the root was touched" is
// judged here; any error or problem outcome of the operation is accepted.

type intraResult struct {
	what    string
	class   string
	swapped bool    // the armed swap fired and was carried out
	log     []point // hook points reached (recording runs)
}

// makeIntraCanary creates the canary used by the intra legs: a directory and
// a file with non-default modes (so that a chmod to 0700/0600 or a chown shows).
func (w *world) makeIntraCanary() error {
	c := filepath.Join(w.base, "canary")
	for _, d := range []string{c, filepath.Join(c, "d"), filepath.Join(c, "d", "s")} {
		if err := os.Mkdir(d, 0o755); err != nil {
			return err
		}
		if err := os.Chmod(d, 0o755); err != nil {
			return err
		}
	}
	// d mirrors the names used under root/a in the multi-transition plans
	// (s/x, s/y, s/d/y), so that an operation that followed a link planted at
	// root/a or root/a/s would find what it is looking for.
	if err := os.Mkdir(filepath.Join(c, "d", "s", "d"), 0o755); err != nil {
		return err
	}
	for _, f := range []string{filepath.Join(c, "f0"), filepath.Join(c, "d", "f"), filepath.Join(c, "d", "x"), filepath.Join(c, "d", "y"),
		filepath.Join(c, "d", "s", "x"), filepath.Join(c, "d", "s", "y"), filepath.Join(c, "d", "s", "d", "y")} {
		if err := os.WriteFile(f, []byte("CANARY"), 0o644); err != nil {
			return err
		}
		if err := os.Chmod(f, 0o644); err != nil {
			return err
		}
		if err := os.Chtimes(f, baseTime, baseTime); err != nil {
			return err
		}
	}
	return nil
}

// resolveTemporary turns a canonicalised point path (temporary names shown as
// "<tmp>") back into the real path by looking the temporary name up.
func (w *world) resolveTemporary(rel string) (string, bool) {
	parts := strings.Split(rel, "/")
	cur := w.base
	for i, c := range parts {
		if c == "<tmp>" {
			ents, err := os.ReadDir(cur)
			if err != nil {
				return "", false
			}
			found := ""
			for _, e := range ents {
				if strings.HasPrefix(e.Name(), filesystem.TemporaryNamePrefix) {
					found = e.Name()
				}
			}
			if found == "" {
				return "", false
			}
			parts[i] = found
			c = found
		}
		cur = filepath.Join(cur, c)
	}
	return strings.Join(parts, "/"), true
}

// swapVariants are the objects that can be swapped relative to a point's
// path: the named object itself, its parent directory, and the ancestors two
// and three levels up (every ancestor component inside the root at the
// depths used here).
var swapVariants = []string{"leaf", "parent", "up2", "up3"}

// swapTarget returns the path (relative to the worker's base) that the variant
// designates for a point path, or "" when that is not strictly inside the root.
func swapTarget(rel, variant string) string {
	up := map[string]int{"leaf": 0, "parent": 1, "up2": 2, "up3": 3}[variant]
	for i := 0; i < up; i++ {
		rel = path.Dir(rel)
	}
	if !strings.HasPrefix(rel, "root/") {
		return ""
	}
	return rel
}

// swapAt replaces the object named by point p (variant "leaf") or its parent
// directory (variant "parent") by a symbolic link to the canary object of the
// matching type; the original is moved aside, outside the root and outside
// the canary. Only objects strictly inside the root are swapped.
func (w *world) swapAt(p point, variant string) bool {
	rel, ok := w.resolveTemporary(p.Path)
	if !ok {
		return false
	}
	rel = swapTarget(rel, variant)
	if rel == "" {
		return false // the root itself (or something outside it) is not "a link that lives inside the root"
	}
	abs := filepath.Join(w.base, filepath.FromSlash(rel))
	wantDir := p.Op == "mkdirat" || variant != "leaf"
	if st, err := os.Lstat(abs); err == nil {
		wantDir = st.IsDir()
		w.seq++
		aside := filepath.Join(w.base, "aside")
		os.MkdirAll(aside, 0o700)
		if err := os.Rename(abs, filepath.Join(aside, fmt.Sprintf("o%d", w.seq))); err != nil {
			return false
		}
	} else if variant != "leaf" {
		return false
	}
	target := filepath.Join(w.base, "canary", "f0")
	if wantDir {
		target = filepath.Join(w.base, "canary", "d")
	}
	return os.Symlink(target, abs) == nil
}

// runC17Intra runs one intra-operation case. With c.At == nil it is the
// recording run (no swap) that yields the hook points.
func runC17Intra(w *world, c c17case, verbose func(string, ...any)) intraResult {
	infra := func(err error) {
		if err != nil {
			panic(fmt.Sprintf("INFRA: %v (case %s)", err, c.key()))
		}
	}
	infra(w.reset())
	infra(materialize(w.root, c.Tree))
	infra(w.makeIntraCanary())

	var res intraResult
	arm := func() *canaryGuard {
		g := w.guard() // snapshot, inotify, hook logging
		if c.At != nil {
			w.armed = []fault{{At: *c.At, Act: "swap-" + c.Variant}}
			w.fired = []bool{false}
			w.onFault = func(f fault, p point) { res.swapped = w.swapAt(p, c.Variant) }
		}
		return g
	}
	finish := func(g *canaryGuard) {
		res.log = append([]point(nil), w.log...)
		touched := g.verdict()
		w.onFault = nil
		w.armed, w.fired = nil, nil
		if len(touched) > 0 {
			// "never open, read, create, modify or delete anything outside the synchronization root"
			res.what = strings.Join(touched, "; ")
		}
	}

	switch c.Leg {
	case "intra-transition":
		snap, cache, err := w.scan(nil)
		infra(err)
		changes := make([]*core.Change, len(c.Plan))
		for i, ch := range c.Plan {
			changes[i] = &core.Change{Path: ch.Path, Old: entryAt(snap.Content, ch.Path), New: ch.New.entry()}
			infra(w.stageFor(ch.Path, ch.New, nil))
		}
		g := arm()
		w.xdev = c.Env == "xdev"
		results, problems, _, err := w.transition(context.Background(), changes, cache, snap, c.Cfg)
		finish(g)
		w.xdev = false
		infra(err)
		if verbose != nil {
			verbose("points %v", res.log)
			verbose("results %s problems %s", describe(results[0]), problemsString(problems))
		}
		res.class = fmt.Sprintf("transition, %d problem(s)", min(len(problems), 2))

	case "intra-scan":
		slm := core.SymbolicLinkMode_SymbolicLinkModePortable
		if c.Op == "posix-raw" {
			slm = core.SymbolicLinkMode_SymbolicLinkModePOSIXRaw
		}
		g := arm()
		_, _, err := w.scanWith(nil, nil, nil, nil, slm)
		finish(g)
		res.class = "scan ok"
		if err != nil {
			res.class = "scan error"
		}

	case "intra-opener":
		g := arm()
		opener := filesystem.NewOpener(w.root)
		outcome := ""
		for _, p := range c.Seq {
			f, _, err := opener.OpenFile(p)
			if err != nil {
				outcome += "f"
				continue
			}
			data, rerr := io.ReadAll(f)
			f.Close()
			outcome += "o"
			if rerr == nil && strings.HasPrefix(string(data), "CANARY") {
				res.what = fmt.Sprintf("open of %q returned the canary's bytes", p)
			}
		}
		opener.Close()
		what := res.what
		finish(g)
		if what != "" {
			res.what = what + "; " + res.what
		}
		res.class = "opens " + outcome

	default:
		panic("INFRA: unknown intra leg " + c.Leg)
	}
	if c.At != nil && !res.swapped {
		res.class += " (no swap)"
	}
	return res
}

// intraGroups lists the (leg, input) groups of the intra-operation legs; each
// group is first run once to record its hook points.
func intraGroups(thorough bool) []c17case {
	var out []c17case
	owners := []config{{}, {Owner: "id:4242", Group: "id:4343"}}
	for _, tree := range trees(false) {
		if tree == nil || tree.Kind != "d" {
			continue
		}
		for _, p := range singlePlans(tree) {
			if p[0].Path == "" {
				continue // the root itself is not inside the root
			}
			creates := p[0].New != nil
			for ci, cfg := range owners {
				if ci > 0 && !creates {
					continue
				}
				out = append(out, c17case{Leg: "intra-transition", Tree: tree, Plan: p, Cfg: cfg, Env: "plain"})
				if thorough && ci == 0 && p[0].New.hasFile() {
					out = append(out, c17case{Leg: "intra-transition", Tree: tree, Plan: p, Cfg: cfg, Env: "xdev"})
				}
			}
		}
		for _, m := range []string{"portable", "posix-raw"} {
			out = append(out, c17case{Leg: "intra-scan", Tree: tree, Op: m})
		}
	}
	t17 := tree17()
	// Several transitions in one call that share a parent two or three levels
	// deep: whatever is remembered from the first must not let the second one
	// reach its parent through a swapped ancestor.
	multi := []plan{
		{{"a/s/x", nil}, {"a/s/y", nil}},
		{{"a/s/x", nF(c2)}, {"a/s/y", nFx(c1)}},
		{{"a/s/n1", nF(c1)}, {"a/s/n2", nFx(c2)}},
		{{"a/s/x", nil}, {"a/s/n1", nF(c2)}},
		{{"a/s/n1", nD("k", nF(c1))}, {"a/s/n2", nL(t1)}},
		{{"a/s/l", nil}, {"a/s/d", nil}, {"a/s/y", nF(c1)}},
		{{"a/s/d/y", nil}, {"a/s/d/n1", nF(c1)}},
		{{"a/s/d/n1", nF(c1)}, {"a/s/d/n2", nF(c2)}},
		{{"a/x", nil}, {"a/y", nF(c1)}, {"a/s/x", nil}, {"a/s/y", nil}},
	}
	for _, p := range multi {
		for _, cfg := range owners {
			out = append(out, c17case{Leg: "intra-transition", Tree: t17, Plan: p, Cfg: cfg, Env: "plain"})
		}
		if thorough {
			out = append(out, c17case{Leg: "intra-transition", Tree: t17, Plan: p, Env: "xdev"})
		}
	}
	alphabet := []string{"a/x", "a/s/x", "a/s/y", "a/s/d/y", "b"}
	for _, p1 := range alphabet {
		out = append(out, c17case{Leg: "intra-opener", Tree: t17, Seq: []string{p1}})
		for _, p2 := range alphabet {
			out = append(out, c17case{Leg: "intra-opener", Tree: t17, Seq: []string{p1, p2}})
		}
	}
	out = append(out, c17case{Leg: "intra-scan", Tree: t17, Op: "portable"})
	return out
}
