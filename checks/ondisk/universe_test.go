//go:build verif

package ondisk

import (
	"sort"
	"strings"
)

// File contents (distinct lengths so that "same size" rewrites are a separate
// modification) and link targets used by the generated trees.
const (
	c1 = "alpha"
	c2 = "bravo!!"
	t1 = "t1"
	t2 = "t2"
)

// slotA is the alphabet of what the top-level name "a" can hold.
func slotA() []*node {
	return []*node{
		nil,
		nF(c1),
		nF(c2),
		nFx(c1),
		nL(t1),
		nD(),
		nD("x", nF(c1)),
		nD("x", nL(t1)),
		nD("x", nD()),
		nD("x", nF(c1), "y", nF(c2)),
		nD("x", nD("y", nF(c1))),
		nD("x", nD("y", nL(t1)), "z", nFx(c2)),
	}
}

// slotB is the alphabet of the bystander name "b".
func slotB() []*node { return []*node{nil, nF(c2)} }

// deepNews is the alphabet of planned new values below the top level.
func deepNews() []*node {
	return []*node{nil, nF(c1), nF(c2), nFx(c1), nL(t1), nL(t2), nD(), nD("y", nF(c1))}
}

// createNews is the alphabet of planned creations at a name that does not exist.
func createNews() []*node {
	return []*node{nF(c1), nFx(c2), nL(t1), nD(), nD("x", nF(c1)), nD("x", nL(t1), "y", nD("z", nF(c2)))}
}

// chg is one planned change (the old value is whatever the scan recorded).
type chg struct {
	Path string `json:"path"`
	New  *node  `json:"new"`
}

type plan []chg

func (p plan) String() string {
	parts := make([]string, 0, len(p))
	for _, c := range p {
		parts = append(parts, c.Path+"=>"+c.New.String())
	}
	return strings.Join(parts, ";")
}

// trees enumerates the base trees: a directory root with slots a and b, plus
// roots that are a file, a link-free small directory, or absent.
func trees(thorough bool) []*node {
	var out []*node
	bs := slotB()
	if !thorough {
		bs = bs[1:] // quick tier: the bystander is always present
	}
	for _, a := range slotA() {
		for _, b := range bs {
			out = append(out, nD("a", a.clone(), "b", b.clone()))
		}
	}
	out = append(out, nF(c1)) // file root
	out = append(out, nil)    // no root at all (creation of the root)
	return out
}

// singlePlans enumerates every single-change plan on every path of the tree:
// replacement/removal of each existing object by each alphabet member that
// differs from it, and creation at a fresh name in every directory.
func singlePlans(tree *node) []plan {
	var out []plan
	if tree == nil {
		for _, n := range []*node{nF(c1), nD(), nD("a", nF(c1), "b", nL(t1))} {
			out = append(out, plan{{"", n}})
		}
		return out
	}
	if tree.Kind == "f" {
		for _, n := range []*node{nil, nF(c2), nFx(c1), nD("a", nF(c2))} {
			out = append(out, plan{{"", n}})
		}
		return out
	}
	var ps []string
	tree.paths("", &ps)
	for _, p := range ps {
		old := tree.at(p)
		if p == "" {
			// The root directory itself: removal and type change, only for small roots.
			if len(ps) <= 3 {
				out = append(out, plan{{"", nil}}, plan{{"", nF(c1)}})
			}
			continue
		}
		news := deepNews()
		if !strings.Contains(p, "/") {
			news = slotA()
		}
		for _, n := range news {
			if n.String() == old.String() {
				continue
			}
			out = append(out, plan{{p, n.clone()}})
		}
	}
	// Creations: name "n" in every directory of the tree.
	for _, p := range ps {
		if d := tree.at(p); d.Kind == "d" {
			for _, n := range createNews() {
				out = append(out, plan{{join(p, "n"), n.clone()}})
			}
		}
	}
	return out
}

// pairPlans enumerates two-change plans: one change inside "a" (or creating
// under it) combined with one change at "b" or at the fresh top-level name
// "n"; the two paths are never nested. With small=true the second change is
// taken from {remove b, replace b by another file, create a directory n}.
func pairPlans(tree *node, small bool) []plan {
	if tree == nil || tree.Kind != "d" {
		return nil
	}
	var first, second []plan
	for _, p := range singlePlans(tree) {
		path := p[0].Path
		switch {
		case within(path, "a"):
			first = append(first, p)
		case path == "b" || path == "n":
			if small {
				switch path + "=>" + p[0].New.String() {
				case "b=>-", "b=>F(" + c1 + ")", "n=>D{x:F(" + c1 + ")}":
				default:
					continue
				}
			}
			second = append(second, p)
		}
	}
	var out []plan
	for _, f := range first {
		for _, s := range second {
			out = append(out, plan{f[0], s[0]})
		}
	}
	return out
}

// affectedPaths lists the existing paths inside the plan's targets (the
// objects the plan would delete or replace), sorted.
func affectedPaths(tree *node, p plan) []string {
	var out []string
	for _, c := range p {
		tree.at(c.Path).paths(c.Path, &out)
	}
	sort.Strings(out)
	return out
}

// hasFile reports whether the subtree contains a file.
func (n *node) hasFile() bool {
	if n == nil {
		return false
	}
	if n.Kind == "f" {
		return true
	}
	for _, k := range n.Kids {
		if k.hasFile() {
			return true
		}
	}
	return false
}

// longTarget is a portable link target of exactly n bytes: a fixed prefix and
// a one-byte tail, so that targets of different lengths share their prefixes
// (lengths around the 128-byte initial readlink buffer, and the 247-byte
// portability limit).
func longTarget(n int) string { return strings.Repeat("p", n-1) + "z" }

// longLinkTrees are additional C08 trees whose slot a holds (or contains) a
// link with a target at the readlink buffer boundaries.
func longLinkTrees() []*node {
	var out []*node
	for _, n := range []int{127, 128, 129, 200, 247} {
		out = append(out, nD("a", nL(longTarget(n)), "b", nF(c2)))
	}
	for _, n := range []int{128, 200} {
		out = append(out, nD("a", nD("x", nL(longTarget(n))), "b", nF(c2)))
	}
	return out
}
