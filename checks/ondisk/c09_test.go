//go:build verif

package ondisk

import (
	"context"
	"encoding/json"
	"fmt"
	"sort"
	"strings"
	"sync/atomic"
	"testing"
	"time"

	"github.com/mutagen-io/mutagen/pkg/synchronization/core"

	"verif/internal/vr"
)

// c9case is one execution of C09: a tree, a plan, an endpoint configuration,
// an environment (plain / cross-device staging / no RENAME_NOREPLACE), and the
// faults armed at hook points (identified by content).
type c9case struct {
	Tree      *node   `json:"tree"`
	Plan      plan    `json:"plan"`
	Cfg       config  `json:"cfg"`
	Env       string  `json:"env"`                 // "plain", "xdev", "nosup"
	Missing   bool    `json:"missing,omitempty"`   // staged files are absent
	PreCancel bool    `json:"precancel,omitempty"` // context cancelled before Transition is called
	Faults    []fault `json:"faults,omitempty"`
}

func (c c9case) key() string {
	fs := make([]string, 0, len(c.Faults))
	for _, f := range c.Faults {
		fs = append(fs, f.String())
	}
	return fmt.Sprintf("tree=%s plan=%s owner=%s group=%s env=%s missing=%v precancel=%v faults=[%s]",
		c.Tree, c.Plan, c.Cfg.Owner, c.Cfg.Group, c.Env, c.Missing, c.PreCancel, strings.Join(fs, ","))
}

// c9result is what one execution yields.
type c9result struct {
	what     string  // violation text ("" = held)
	log      []point // hook points reached, in order
	firedAt  []int   // index in log at which each armed fault fired (-1 = never)
	problems int
	changed  bool // at least one result differs from the old entry
	full     bool // every result equals the planned new entry

	// Raw observations, for other oracles over the same executions (C18 leg).
	results []*core.Entry
	post    map[string]finfo
}

// runC9 executes one case in world w and applies the C09 oracle.
func runC9(w *world, c c9case, verbose func(string, ...any)) c9result {
	infra := func(err error) {
		if err != nil {
			panic(fmt.Sprintf("INFRA: %v (case %s)", err, c.key()))
		}
	}
	infra(w.reset())
	infra(materialize(w.root, c.Tree))
	snap, cache, err := w.scan(nil)
	infra(err)
	if !snap.Content.Equal(c.Tree.entry(), true) {
		panic(fmt.Sprintf("INFRA: initial scan %s differs from generated tree %s", describe(snap.Content), c.Tree))
	}
	changes := make([]*core.Change, len(c.Plan))
	for i, ch := range c.Plan {
		changes[i] = &core.Change{Path: ch.Path, Old: entryAt(snap.Content, ch.Path), New: ch.New.entry()}
		if !c.Missing {
			infra(w.stageFor(ch.Path, ch.New, nil))
		}
	}
	pre, err := snapshot(w.root)
	infra(err)

	ctx, cancel := context.WithCancel(context.Background())
	if c.PreCancel {
		cancel()
	}
	w.xdev, w.nosup = c.Env == "xdev", c.Env == "nosup"
	w.startHooks(c.Faults, cancel)
	results, problems, _, err := w.transition(ctx, changes, cache, snap, c.Cfg)
	w.stopHooks()
	cancel()
	infra(err)

	res := c9result{log: append([]point(nil), w.log...), problems: len(problems)}
	for i := range c.Faults {
		at := -1
		if w.fired[i] {
			for j, p := range res.log {
				if p == c.Faults[i].At {
					at = j
					break
				}
			}
		}
		res.firedAt = append(res.firedAt, at)
	}

	// Observation after the transition: the harness's own walk and a cold scan
	// by the real scanner ("A scan taken immediately after the transition").
	post, err := snapshot(w.root)
	infra(err)
	after, _, err := w.scan(nil)
	infra(err)
	if verbose != nil {
		verbose("points: %v", res.log)
		verbose("results: %v", func() []string {
			var s []string
			for _, r := range results {
				s = append(s, describe(r))
			}
			return s
		}())
		verbose("problems: %s", problemsString(problems))
		verbose("scan after: %s", describe(after.Content))
		verbose("walk after: %s", describe(entryFromSnapshot(post, "")))
	}

	res.results, res.post = results, post

	var bad []string
	if len(results) != len(changes) {
		bad = append(bad, fmt.Sprintf("%d results for %d transitions", len(results), len(changes)))
	}
	res.full = true
	for i := range changes {
		if i >= len(results) {
			break
		}
		p := changes[i].Path
		// "the entry reported back describes exactly what is on disk at that path afterwards"
		if disk := entryFromSnapshot(post, p); !results[i].Equal(disk, true) {
			bad = append(bad, fmt.Sprintf("path %q: reported %s but the disk holds %s", p, describe(results[i]), describe(disk)))
		}
		// "A scan taken immediately after the transition agrees with the reported results."
		if scanned := entryAt(after.Content, p); !results[i].Equal(scanned, true) {
			bad = append(bad, fmt.Sprintf("path %q: reported %s but a cold scan gives %s", p, describe(results[i]), describe(scanned)))
		}
		if !results[i].Equal(changes[i].Old, true) {
			res.changed = true
		}
		if !results[i].Equal(changes[i].New, true) {
			res.full = false
		}
	}
	// Elsewhere the tree is unchanged; only temporary names may be extra.
	seen := map[string]bool{}
	for p := range pre {
		seen[p] = true
	}
	for p := range post {
		seen[p] = true
	}
	all := make([]string, 0, len(seen))
	for p := range seen {
		all = append(all, p)
	}
	sort.Strings(all)
	for _, p := range all {
		inside, ancestor := false, false
		for _, ch := range c.Plan {
			if within(p, ch.Path) {
				inside = true
			}
			if within(ch.Path, p) {
				ancestor = true
			}
		}
		if inside {
			continue
		}
		a, okA := pre[p]
		b, okB := post[p]
		switch {
		case !okA && okB && hasTemporaryComponent(p):
			// permitted leftover
		case okA != okB:
			bad = append(bad, fmt.Sprintf("bystander %q: existed before %v, after %v", p, okA, okB))
		case ancestor:
			if a.Mode != b.Mode || a.Ino != b.Ino {
				bad = append(bad, fmt.Sprintf("ancestor %q changed: %v -> %v", p, a, b))
			}
		case !sameObject(a, b):
			bad = append(bad, fmt.Sprintf("bystander %q changed: %v -> %v", p, a, b))
		}
	}
	if len(bad) > 0 {
		res.what = strings.Join(bad, "; ") + " [problems: " + problemsString(problems) + "]"
	}
	return res
}

// c9group is the unit of sharding: one (tree, plan, cfg, env) with all its faults.
type c9group struct {
	Tree *node
	Plan plan
	Cfg  config
	Env  string
	deep bool
}

func c9configs() []config {
	// The second configuration makes ownership syscalls happen (the check runs
	// as root, so chown to an arbitrary id succeeds when not failed by a fault).
	return []config{{}, {Owner: "id:4242", Group: "id:4343"}}
}

func TestC09(t *testing.T) {
	r := vr.New(t, "C09", "fault_enumeration")
	defer r.Finish()
	parent := scratchDir(t)
	installHooks()
	defer uninstallHooks()

	if raw := vr.ReplayCase(); raw != nil {
		var c c9case
		if err := json.Unmarshal(raw, &c); err != nil {
			t.Fatalf("INFRA: replay case does not parse: %v", err)
		}
		w, err := newWorld(parent, 0)
		if err != nil {
			t.Fatalf("INFRA: %v", err)
		}
		worlds = []*world{w}
		res := runC9(w, c, t.Logf)
		t.Logf("replay %s: fired=%v verdict %q", c.key(), res.firedAt, res.what)
		r.Case(c.key(), true)
		if res.what != "" {
			r.Violate(c.key(), res.what, c, nil)
		}
		return
	}

	thorough := vr.Thorough()
	deadline := vr.Deadline(50*time.Second, 8*time.Minute)

	// Build the groups in a deterministic order. deep marks the groups that
	// get a second fault level in the thorough tier (single-change plans on the
	// trees of the quick tier).
	var groups []c9group
	for _, tree := range trees(thorough) {
		plans := singlePlans(tree)
		nsingle := len(plans)
		if thorough {
			plans = append(plans, pairPlans(tree, true)...)
		}
		quickTree := tree == nil || tree.Kind != "d" || tree.Kids["b"] != nil
		for pi, p := range plans {
			creates, createsFile := false, false
			for _, ch := range p {
				creates = creates || ch.New != nil
				createsFile = createsFile || ch.New.hasFile()
			}
			for ci, cfg := range c9configs() {
				if ci > 0 && !creates {
					continue // ownership only matters where something is created or re-permissioned
				}
				for ei, env := range []string{"plain", "xdev", "nosup"} {
					if ei > 0 && !createsFile {
						continue // the rename environments only matter where a staged file is moved into place
					}
					groups = append(groups, c9group{Tree: tree, Plan: p, Cfg: cfg, Env: env, deep: thorough && quickTree && pi < nsingle})
				}
			}
		}
	}
	r.Rule(fmt.Sprintf("every base tree (%d: slot a x bystander b, file root, no root) x every single-change plan on every path (thorough: also two-change plans) x {no ownership, DefaultOwner+DefaultGroup (where something is created)} x {plain, staged rename reports EXDEV, renameat2 reports ENOTSUP (where a file is staged)}; per group: the fault-free run records the hook points (op, resolved path, occurrence); then one run per point with EIO at it and one with the context cancelled at it, plus cancelled-before-start and staged-files-missing. Thorough second level: for single-change plans, after each first fault, a second fault (EIO, or cancel if not yet cancelled) at every point reached after the first fired. Non-trivial = every armed fault fired (fault-free/missing/pre-cancel runs count as fired); distinct by (tree, plan, cfg, env, fault points)", len(trees(thorough))))
	r.Assume("faults are injected at the syscall wrappers of pkg/filesystem (verifhook points) as EIO; EXDEV only at the rename of the staged file; ENOTSUP only at renameat2; a failing call has no effect on disk",
		"os.Open/io.Copy of the staged file during the cross-device copy, directory listing (getdents) and close are not hook points and never fail here",
		"symbolic link mode portable, permissions mode portable, default modes 0600/0700, tmpfs (or ext4) scratch directory, check runs as root",
		"process crashes are C27's subject; here 'cancelled at any point' is cancellation of the context at a hook point (a superset of the code's own cancellation checks)")

	worlds = nil
	nw := vr.Workers()
	pool := make(chan *world, nw)
	for i := 0; i < nw; i++ {
		w, err := newWorld(parent, i)
		if err != nil {
			t.Fatalf("INFRA: %v", err)
		}
		worlds = append(worlds, w)
		pool <- w
	}

	var capped atomic.Bool
	// phase 1: fault depth 1 for every group; phase 2 (thorough): depth 2 for the deep groups.
	runGroup := func(gi int, depth int) {
		if time.Now().After(deadline) {
			capped.Store(true)
			return
		}
		g := groups[gi]
		w := <-pool
		defer func() { pool <- w }()
		l := r.Local()
		defer l.Flush()

		eval := func(c c9case) c9result {
			res := runC9(w, c, nil)
			fired := true
			for _, at := range res.firedAt {
				if at < 0 {
					fired = false
				}
			}
			if fired {
				l.Case(c.key(), true)
			} else {
				l.Case("", false)
				r.Add("fault_not_fired", 1)
			}
			class := "unchanged"
			switch {
			case res.what != "":
				// Sub-class by the last fault and by whether the run hit the
				// symbolic-link permission failure path (one known defect class).
				class = "violation"
				if n := len(c.Faults); n > 0 {
					class += "[" + c.Faults[n-1].Act + "@" + c.Faults[n-1].At.Op + "]"
				}
				if strings.Contains(res.what, "unable to set symbolic link permissions") {
					class += "[symlink-permissions]"
				}
			case res.full && res.problems == 0:
				class = "applied"
			case res.full:
				class = "applied-with-problems"
			case res.changed:
				class = "partial"
			}
			l.Outcome(class)
			if res.what != "" {
				cc := c
				r.Violate(c.key(), res.what, cc, func() bool { return runC9(w, cc, nil).what != "" })
			}
			return res
		}

		base := c9case{Tree: g.Tree, Plan: g.Plan, Cfg: g.Cfg, Env: g.Env}
		b := eval(base)
		if depth == 1 && gi%97 == 0 {
			r.Sample(map[string]interface{}{"case": base, "points": fmt.Sprint(b.log)})
		}
		if depth == 1 && g.Env == "plain" {
			pc := base
			pc.PreCancel = true
			eval(pc)
			ms := base
			ms.Missing = true
			eval(ms)
		}
		// Faults at every point of the fault-free run; deeper levels at every
		// point reached after the previous fault fired.
		var explore func(prefix []fault, log []point, from int, level int)
		explore = func(prefix []fault, log []point, from int, level int) {
			for _, q := range log[from:] {
				for _, act := range []string{"eio", "cancel"} {
					if act == "cancel" {
						already := false
						for _, f := range prefix {
							if f.Act == "cancel" {
								already = true
							}
						}
						if already {
							continue
						}
					}
					if time.Now().After(deadline) {
						capped.Store(true)
						return
					}
					c := base
					c.Faults = append(append([]fault(nil), prefix...), fault{At: q, Act: act})
					res := eval(c)
					last := res.firedAt[len(res.firedAt)-1]
					if level < depth && last >= 0 {
						explore(c.Faults, res.log, last+1, level+1)
					}
				}
			}
		}
		explore(nil, b.log, 0, 1)
	}
	vr.Parallel(len(groups), func(gi int) { runGroup(gi, 1) })
	depth := 1
	if thorough && !capped.Load() {
		depth = 2
		var deep []int
		for gi, g := range groups {
			if g.deep {
				deep = append(deep, gi)
			}
		}
		vr.Parallel(len(deep), func(i int) { runGroup(deep[i], 2) })
		r.Set("groups_with_second_fault_level", len(deep))
	}
	if capped.Load() {
		r.NotExhaustive("time budget reached before every group was explored to the stated depth")
	}
	r.Set("groups", len(groups))
	r.Set("fault_depth", depth)
}
