//go:build verif

package urlconf

import (
	"bytes"
	"context"
	"encoding/json"
	"fmt"
	"io"
	"os"
	"os/exec"
	"path/filepath"
	"strconv"
	"strings"
	"testing"

	"github.com/mutagen-io/mutagen/pkg/agent"
	dockertransport "github.com/mutagen-io/mutagen/pkg/agent/transport/docker"
	sshtransport "github.com/mutagen-io/mutagen/pkg/agent/transport/ssh"
	"github.com/mutagen-io/mutagen/pkg/forwarding"
	_ "github.com/mutagen-io/mutagen/pkg/forwarding/protocols/docker"
	_ "github.com/mutagen-io/mutagen/pkg/forwarding/protocols/ssh"
	"github.com/mutagen-io/mutagen/pkg/logging"
	"github.com/mutagen-io/mutagen/pkg/prompting"
	"github.com/mutagen-io/mutagen/pkg/synchronization"
	_ "github.com/mutagen-io/mutagen/pkg/synchronization/protocols/docker"
	_ "github.com/mutagen-io/mutagen/pkg/synchronization/protocols/ssh"
	"github.com/mutagen-io/mutagen/pkg/url"

	"verif/internal/vr"
)

// ---- C36: URL components never become command-line options ----
//
// Every case is a textual endpoint URL. It goes through the real url.Parse and
// URL.EnsureValid (the two places where session creation can reject it). If it
// is accepted, the real transports and protocol handlers are run against
// recording fake ssh/scp/docker executables (first on PATH) and every argument
// vector that was executed is judged by a getopt-style model written here.

// fakeTool is the body shared by the three recording fakes. Each invocation
// appends "<tool>\0<argc>\0<arg>\0..." to $VERIF_ARGV_LOG.
const fakeRecord = `#!/bin/sh
{
  printf '%s\0%s\0' "TOOL" "$#"
  for a in "$@"; do printf '%s\0' "$a"; done
} >> "$VERIF_ARGV_LOG"
`

// The fake ssh answers the platform probe (so that the dialing logic proceeds
// as far as it can without an agent bundle) and otherwise behaves like a
// remote shell that does not have the agent installed (exit 127).
const fakeSSHTail = `for a in "$@"; do last="$a"; done
if [ "$VERIF_FAKE_PLATFORM" = windows ]; then
  # A cmd.exe remote: POSIX-style invocations are "not recognized", the
  # backslash form reports a missing path (agent not installed), uname does not
  # exist and "cmd.exe /c set" dumps the environment.
  case "$last" in
    cmd.exe*) printf 'OS=Windows_NT\r\nPROCESSOR_ARCHITECTURE=AMD64\r\n'; exit 0;;
    uname*) echo "'uname' is not recognized as an internal or external command" >&2; exit 1;;
    *\\*) echo "The system cannot find the path specified." >&2; exit 1;;
  esac
  echo "'x' is not recognized as an internal or external command" >&2; exit 1
fi
case "$last" in
  uname*) echo "Linux x86_64"; exit 0;;
esac
exit 127
`

const fakeSCPTail = `exit 0
`

// The fake docker answers the container probes of the Docker transport
// (env / id -un / id -gn / uname, or "cmd /c set" for a Windows container) and
// accepts cp, chown, stop and start.
const fakeDockerTail = `user=root; mode=none; prev=
for a in "$@"; do
  if [ "$prev" = "--user" ]; then user="$a"; fi
  case "$a" in
    env) [ "$mode" = none ] && mode=env;;
    set) [ "$mode" = none ] && mode=set;;
    -un) mode=un;;
    -gn) mode=gn;;
    uname) mode=uname;;
    cp) [ "$mode" = none ] && mode=cp;;
    stop) [ "$mode" = none ] && mode=stop;;
    start) [ "$mode" = none ] && mode=start;;
    chown) mode=chown;;
  esac
  prev="$a"
done
if [ "$VERIF_FAKE_PLATFORM" = windows ]; then
  case "$mode" in
    env|un|gn|uname|chown) echo "executable file not found" >&2; exit 1;;
    set) printf 'OS=Windows_NT\r\nPROCESSOR_ARCHITECTURE=AMD64\r\nUSERPROFILE=C:\\Users\\agent\r\n'; exit 0;;
    cp|stop|start) exit 0;;
  esac
  exit 127
fi
case "$mode" in
  env) echo "HOME=/home/agent"; exit 0;;
  un) echo "$user"; exit 0;;
  gn) echo "grp"; exit 0;;
  uname) echo "Linux x86_64"; exit 0;;
  cp|chown|stop|start) exit 0;;
esac
exit 127
`

// yesPrompter confirms the Windows-container copy prompt.
type yesPrompter struct{}

func (yesPrompter) Message(string) error          { return nil }
func (yesPrompter) Prompt(string) (string, error) { return "yes", nil }

type invocation struct {
	Tool string
	Args []string
}

// fakeBin installs the recording fakes and returns the log path.
func fakeBin(t *testing.T) (logPath string) {
	dir := t.TempDir()
	for name, tail := range map[string]string{"ssh": fakeSSHTail, "scp": fakeSCPTail, "docker": fakeDockerTail} {
		body := strings.Replace(fakeRecord, "TOOL", name, 1) + tail
		if err := os.WriteFile(filepath.Join(dir, name), []byte(body), 0o755); err != nil {
			t.Fatalf("INFRA: %v", err)
		}
	}
	logPath = filepath.Join(dir, "argv.log")
	os.Setenv("VERIF_ARGV_LOG", logPath)
	os.Setenv("PATH", dir+string(os.PathListSeparator)+os.Getenv("PATH"))
	// Make sure nothing else redirects the lookups.
	os.Unsetenv("MUTAGEN_SSH_PATH")
	os.Unsetenv("MUTAGEN_DOCKER_PATH")
	for _, name := range []string{"ssh", "scp", "docker"} {
		if p, err := exec.LookPath(name); err != nil || p != filepath.Join(dir, name) {
			t.Fatalf("INFRA: %s resolves to %q (%v), not to the recording fake", name, p, err)
		}
	}
	return logPath
}

func readInvocations(t *testing.T, logPath string) []invocation {
	data, err := os.ReadFile(logPath)
	if os.IsNotExist(err) {
		return nil
	} else if err != nil {
		t.Fatalf("INFRA: %v", err)
	}
	fields := bytes.Split(data, []byte{0})
	fields = fields[:len(fields)-1] // trailing NUL
	var out []invocation
	for i := 0; i < len(fields); {
		if i+1 >= len(fields) {
			t.Fatalf("INFRA: truncated argv log")
		}
		n, err := strconv.Atoi(string(fields[i+1]))
		if err != nil || i+2+n > len(fields) {
			t.Fatalf("INFRA: corrupt argv log")
		}
		inv := invocation{Tool: string(fields[i])}
		for _, f := range fields[i+2 : i+2+n] {
			inv.Args = append(inv.Args, string(f))
		}
		out = append(out, inv)
		i += 2 + n
	}
	return out
}

// ---- the getopt-style model (independent of the code under test) ----

// toolSpec describes how one command line is scanned for options.
type toolSpec struct {
	shortVal string          // short options that take a value
	longVal  map[string]bool // long options that take a value
}

var (
	// OpenSSH ssh(1): options with arguments.
	sshSpec = toolSpec{shortVal: "BbcDEeFIiJLlmOoPpQRSWw"}
	// OpenSSH scp(1): options with arguments.
	scpSpec = toolSpec{shortVal: "cDFiJlMoPSX"}
	// docker(1) top-level options with arguments.
	dockerSpec = toolSpec{shortVal: "cHl", longVal: map[string]bool{"config": true, "context": true, "host": true, "log-level": true, "tlscacert": true, "tlscert": true, "tlskey": true}}
	// docker subcommands used by the transport.
	dockerSub = map[string]toolSpec{
		"exec":  {shortVal: "uwe", longVal: map[string]bool{"user": true, "workdir": true, "env": true, "env-file": true, "detach-keys": true}},
		"cp":    {},
		"stop":  {shortVal: "ts", longVal: map[string]bool{"time": true, "timeout": true, "signal": true}},
		"start": {longVal: map[string]bool{"detach-keys": true, "checkpoint": true, "checkpoint-dir": true}},
	}
)

const (
	roleOption     = "option"
	roleOptArg     = "option-argument"
	roleOperand    = "operand"
	roleTerminator = "end-of-options-marker"
)

// classify assigns a role to every argument of one invocation.
//
// Model (getopt / pflag conventions): an argument that starts with '-' and is
// longer than one character is an option wherever options are still being
// recognised; "--" ends option recognition; an option that takes a value
// consumes the rest of its own argument or, if there is none, the next
// argument whatever that looks like; everything else is an operand.
// Where options are recognised: ssh – before the destination and again between
// the destination and the command (as ssh.c does), the command words are
// operands; scp, docker cp/stop/start – everywhere before "--" (GNU getopt and
// pflag permute, i.e. accept options after operands); docker exec – up to the
// first operand (the container), as docker documents. strict reports, for
// information, what a parser that stops at the first operand would say.
func classify(tool string, args []string) (roles []string) {
	roles = make([]string, len(args))
	spec := map[string]toolSpec{"ssh": sshSpec, "scp": scpSpec, "docker": dockerSpec}[tool]
	open := true
	operands := 0
	sub := ""
	for i := 0; i < len(args); i++ {
		a := args[i]
		if !open {
			roles[i] = roleOperand
			continue
		}
		if a == "--" {
			roles[i] = roleTerminator
			open = false
			continue
		}
		if len(a) >= 2 && a[0] == '-' {
			roles[i] = roleOption
			takesNext := false
			if strings.HasPrefix(a, "--") {
				name := a[2:]
				if !strings.Contains(name, "=") && spec.longVal[name] {
					takesNext = true
				}
			} else {
				for j := 1; j < len(a); j++ {
					if strings.IndexByte(spec.shortVal, a[j]) >= 0 {
						takesNext = j == len(a)-1
						break
					}
				}
			}
			if takesNext && i+1 < len(args) {
				i++
				roles[i] = roleOptArg
			}
			continue
		}
		roles[i] = roleOperand
		operands++
		switch tool {
		case "ssh":
			if operands == 2 { // first word of the remote command
				open = false
			}
		case "docker":
			if sub == "" {
				sub = a
				spec = dockerSub[a]
			} else if sub == "exec" {
				open = false
			}
		}
	}
	return roles
}

// ---- cases ----

type c36case struct {
	Source string // "text": url.Parse then EnsureValid (CLI path); "message": a URL message validated by EnsureValid only (daemon API / stored session path)
	Proto  string // "ssh" or "docker"
	Kind   string // "sync" or "fwd"
	User   string // "" = no user part
	Host   string // host or container
	Port   string // "" = none
	Op     string // "connect", "command", "copy"
	// Platform is what the fakes pretend the remote / container to be: "posix"
	// or "windows" (cmd.exe remote, Windows container: second probe hypothesis,
	// docker stop/cp/start copy sequence).
	Platform string
}

func (c c36case) raw() string {
	tail := "/p"
	if c.Kind == "fwd" {
		tail = "tcp:localhost:80"
	}
	if c.Proto == "docker" {
		s := "docker://"
		if c.User != "" {
			s += c.User + "@"
		}
		s += c.Host
		if c.Kind == "fwd" {
			return s + ":" + tail
		}
		return s + tail
	}
	s := c.Host + ":"
	if c.User != "" {
		s = c.User + "@" + s
	}
	if c.Port != "" {
		s += c.Port + ":"
	}
	return s + tail
}

type c36env struct {
	t       *testing.T
	logPath string
	logger  *logging.Logger
	local   string // an absolute local file for Copy
	refs    map[string][]invocation
	// prompter answers the Windows-container copy confirmation.
	prompter string
	memoise  bool
	memo     map[string]opResult
}

// reference returns the commands executed for the neutral-component variant
// of u (same kind, protocol, presence of a user, port, path), run once per
// shape and cached.
func (e *c36env) reference(u *url.URL, op, platform string) []invocation {
	base := &url.URL{Kind: u.Kind, Protocol: u.Protocol, Host: "hst0", Port: u.Port, Path: u.Path, Environment: u.Environment, Parameters: u.Parameters}
	if u.User != "" {
		base.User = "usr0"
	}
	key := fmt.Sprintf("%v|%v|%s|%d|%s|%s|%s", base.Kind, base.Protocol, base.User, base.Port, base.Path, op, platform)
	if ref, ok := e.refs[key]; ok {
		return ref
	}
	ref, _ := e.runOp(base, op, platform)
	if e.refs == nil {
		e.refs = map[string][]invocation{}
	}
	e.refs[key] = ref
	return ref
}

// opResult is what one operation executed and returned.
type opResult struct {
	invs []invocation
	err  error
}

// runOpMemo is runOp with identical calls executed only once: the same URL
// reached as text and as a message, and - for Copy and Command, whose inputs
// are only user, host/container, port, environment and parameters - the same
// transport call reached from a synchronization and from a forwarding URL.
// Re-runs of a violation never go through this table (memoise is switched off).
func (e *c36env) runOpMemo(u *url.URL, op, platform string) ([]invocation, error) {
	if !e.memoise {
		return e.runOp(u, op, platform)
	}
	key := fmt.Sprintf("%v|%q|%q|%d|%s|%s|%v|%v", u.Protocol, u.User, u.Host, u.Port, op, platform, u.Environment, u.Parameters)
	if op == "connect" {
		key += fmt.Sprintf("|%v|%q", u.Kind, u.Path)
	}
	if res, ok := e.memo[key]; ok {
		return res.invs, res.err
	}
	invs, err := e.runOp(u, op, platform)
	if e.memo == nil {
		e.memo = map[string]opResult{}
	}
	e.memo[key] = opResult{invs, err}
	return invs, err
}

// runOp executes one operation for an (already validated) URL and returns what
// the fakes recorded.
func (e *c36env) runOp(u *url.URL, op, platform string) ([]invocation, error) {
	os.Remove(e.logPath)
	os.Setenv("VERIF_FAKE_PLATFORM", platform)
	var err error
	// Copying into a Windows container asks for confirmation, so those runs
	// get a prompter that says yes; everything else runs without one.
	prompter := ""
	if platform == "windows" && u.Protocol == url.Protocol_Docker {
		prompter = e.prompter
	}
	newTransport := func() (agent.Transport, error) {
		// Exactly the calls made by the protocol handlers.
		if u.Protocol == url.Protocol_SSH {
			return sshtransport.NewTransport(u.User, u.Host, uint16(u.Port), prompter)
		}
		return dockertransport.NewTransport(u.Host, u.User, u.Environment, u.Parameters, prompter)
	}
	switch op {
	case "connect":
		ctx := context.Background()
		if u.Kind == url.Kind_Synchronization {
			h := synchronization.ProtocolHandlers[u.Protocol]
			var ep synchronization.Endpoint
			ep, err = h.Connect(ctx, e.logger, u, prompter, "sync_session", synchronization.DefaultVersion, &synchronization.Configuration{}, true)
			if ep != nil {
				ep.Shutdown()
			}
		} else {
			h := forwarding.ProtocolHandlers[u.Protocol]
			var ep forwarding.Endpoint
			ep, err = h.Connect(ctx, e.logger, u, prompter, "fwrd_session", forwarding.DefaultVersion, &forwarding.Configuration{}, true)
			if ep != nil {
				ep.Shutdown()
			}
		}
	case "command":
		var tr agent.Transport
		if tr, err = newTransport(); err == nil {
			var cmd *exec.Cmd
			if cmd, err = tr.Command("agentbin mode --flag=value"); err == nil {
				cmd.Run() // exit status of the fake is irrelevant
			}
		}
	case "copy":
		var tr agent.Transport
		if tr, err = newTransport(); err == nil {
			err = tr.Copy(e.local, "remote-name")
		}
	default:
		e.t.Fatalf("INFRA: unknown op %q", op)
	}
	return readInvocations(e.t, e.logPath), err
}

type c36finding struct {
	Component string `json:"component"`
	Value     string `json:"value"`
	Tool      string `json:"tool"`
	Argv      []string
	Index     int
	Role      string
}

// c36check runs one case. It returns violations ("" key = none), an outcome
// class and whether the case was non-trivial (an option-like component reached
// the validation step).
func (e *c36env) c36check(c c36case, verbose bool) (finds []c36finding, class string, nontrivial bool) {
	kind := kindOf(c.Kind)
	optionLike := func(s string) bool { return strings.HasPrefix(s, "-") }
	// Non-trivial: the case offers an option-like user, host or container
	// (directly, or behind something that trimming, unwrapping or lexical path
	// cleaning would remove).
	nontrivial = optionLike(c.User) || optionLike(c.Host) || strings.Contains(c.User+"|"+c.Host, " -") || strings.Contains(c.Host, "[-") || strings.Contains(c.User+"|"+c.Host, "/-")
	wantProto := url.Protocol_SSH
	if c.Proto == "docker" {
		wantProto = url.Protocol_Docker
	}
	var u *url.URL
	if c.Source == "text" {
		var err error
		if u, err = url.Parse(c.raw(), kind, true); err != nil {
			return nil, "rejected-by-parse", nontrivial
		}
		if u.Protocol != wantProto {
			return nil, "parsed-as-other-protocol", false
		}
	} else {
		// What a client of the daemon API (or a session file) can present.
		u = &url.URL{Kind: kind, Protocol: wantProto, User: c.User, Host: c.Host, Path: "/p"}
		if kind == url.Kind_Forwarding {
			u.Path = "tcp:localhost:80"
		}
		if c.Port != "" {
			p, _ := strconv.Atoi(c.Port)
			u.Port = uint32(p)
		}
		if c.Proto == "docker" {
			u.Environment = map[string]string{}
		}
	}
	// "A URL whose component could only be passed as an option is rejected
	// before any command runs": rejection happens here, before any command.
	if err := u.EnsureValid(); err != nil {
		return nil, "rejected-by-validation", nontrivial
	}
	// Reference run: the same URL with neutral components. Arguments that
	// differ between the two runs are the URL-derived ones.
	platform := c.Platform
	if platform == "" {
		platform = "posix"
	}
	got, opErr := e.runOpMemo(u, c.Op, platform)
	ref := e.reference(u, c.Op, platform)
	if verbose {
		e.t.Logf("url %q -> user %q host %q port %d; op %s error: %v", c.raw(), u.User, u.Host, u.Port, c.Op, opErr)
		for _, inv := range got {
			e.t.Logf("  executed: %s %q roles %q", inv.Tool, inv.Args, classify(inv.Tool, inv.Args))
		}
	}
	if len(ref) == 0 {
		e.t.Fatalf("INFRA: reference run of %+v executed no command", c)
	}
	if len(got) == 0 {
		if opErr == nil {
			e.t.Fatalf("INFRA: %+v executed no command but reported no error", c)
		}
		// Rejected by the transport itself before any command ran.
		return nil, "rejected-by-transport", nontrivial
	}
	// The operation may stop early (e.g. a probe answer that does not fit the
	// offered user); the commands that did run are judged against the same
	// positions of the reference run.
	if len(got) > len(ref) {
		e.t.Fatalf("INFRA: %+v executed %d commands, reference only %d (%q vs %q)", c, len(got), len(ref), got, ref)
	}
	class = "all-operands"
	for k := range got {
		g, r := got[k], ref[k]
		if g.Tool != r.Tool || len(g.Args) != len(r.Args) {
			e.t.Fatalf("INFRA: %+v command %d shape differs from reference (%q vs %q)", c, k, g, r)
		}
		roles := classify(g.Tool, g.Args)
		for i := range g.Args {
			if g.Args[i] == r.Args[i] {
				continue
			}
			// URL-derived argument. Which component(s) does it carry?
			comps := [][2]string{}
			if u.User != "" && strings.Contains(g.Args[i], u.User) {
				comps = append(comps, [2]string{"user", u.User})
			}
			if strings.Contains(g.Args[i], u.Host) {
				name := "host"
				if c.Proto == "docker" {
					name = "container"
				}
				comps = append(comps, [2]string{name, u.Host})
			}
			if len(comps) == 0 {
				// The argument depends on the URL (it differs from the reference
				// run) but carries no component verbatim: a component was
				// transformed on its way into the command line.
				comps = append(comps, [2]string{"transformed user/host/container", u.User + "|" + u.Host})
			}
			// "always passed ... as operands, never interpreted as options"
			if roles[i] == roleOperand || roles[i] == roleOptArg {
				continue
			}
			class = "component-as-option"
			// Blame the component that makes the argument option-like: the one
			// the argument starts with (the longest such component, since a lone "-" is a
			// prefix of every other option-like value).
			blame, best := comps[0], -1
			for _, cp := range comps {
				if strings.HasPrefix(g.Args[i], cp[1]) && len(cp[1]) > best {
					blame, best = cp, len(cp[1])
				}
			}
			finds = append(finds, c36finding{Component: blame[0], Value: blame[1], Tool: g.Tool, Argv: g.Args, Index: i, Role: roles[i]})
		}
	}
	return finds, class, nontrivial
}

func c36key(c c36case, f c36finding) string {
	sub := ""
	if f.Tool == "docker" {
		for _, a := range f.Argv {
			if _, ok := dockerSub[a]; ok {
				sub = " " + a
				break
			}
		}
	}
	return fmt.Sprintf("argv tool=%s%s %s=%q as %s", f.Tool, sub, f.Component, f.Value, f.Role)
}

func TestC36(t *testing.T) {
	r := vr.New(t, "C36", "exploration")
	defer r.Finish()
	applyEnv(map[string]string{})
	e := &c36env{t: t, logPath: fakeBin(t), logger: logging.NewLogger(logging.LevelDisabled, io.Discard)}
	if id, err := prompting.RegisterPrompter(yesPrompter{}); err != nil {
		t.Fatalf("INFRA: %v", err)
	} else {
		e.prompter = id
		defer prompting.UnregisterPrompter(id)
	}
	e.local = filepath.Join(t.TempDir(), "agent-binary")
	if err := os.WriteFile(e.local, []byte("x"), 0o700); err != nil {
		t.Fatalf("INFRA: %v", err)
	}
	// Self-test of the harness: the model must see a plain command line as
	// operands and a leading-dash destination as an option.
	if rl := classify("ssh", []string{"-oA=1", "-p", "22", "u@h", "cmd", "-x"}); vr.J(rl) != vr.J([]string{roleOption, roleOption, roleOptArg, roleOperand, roleOperand, roleOperand}) {
		t.Fatalf("INFRA: getopt model self-test failed: %q", rl)
	}
	if rl := classify("docker", []string{"--host", "-h", "exec", "--interactive", "--user", "-u", "-c", "env"}); vr.J(rl) != vr.J([]string{roleOption, roleOptArg, roleOperand, roleOption, roleOption, roleOptArg, roleOption, roleOperand}) {
		t.Fatalf("INFRA: getopt model self-test failed: %q", rl)
	}

	if raw := vr.ReplayCase(); raw != nil {
		var c c36case
		json.Unmarshal(raw, &c)
		finds, class, nt := e.c36check(c, true)
		t.Logf("replay %+v: class=%s nontrivial=%v findings=%d", c, class, nt, len(finds))
		r.Case(vr.J(c), nt)
		for _, f := range finds {
			r.Violate(c36key(c, f), fmt.Sprintf("URL %q (presented as %s) is accepted; %s runs %q where argument %d (%q, carrying the %s) is an %s", c.raw(), c.Source, f.Tool, f.Argv, f.Index, f.Argv[f.Index], f.Component, f.Role), c, nil)
		}
		return
	}

	users := []string{"", "Qu", "-Qu", "-oProxyCommand=Qu", "--Qu", "Q-u", "-", " -Qu", "./-Qu"}
	hosts := []string{"Qh", "-Qh", "-oProxyCommand=Qh", "--Qh", "Q-h", "-", "--", "[-Qh]", " -Qh", "./-Qh", "a/../-Qh", ".//-Qh"}
	if vr.Thorough() {
		users = append(users, "-l", "-4", "--", "+Qu", "−Qu", "-o", "-F", "-vvv")
		hosts = append(hosts, "-l", "-4", "+Qh", "−Qh", "-o", "-F", "-vvv", "-i", "--help", "--user", "./--Qh", "../-Qh", "./", "-Qh/.", "Qh/../../-Qh", "\t-Qh", "\"-Qh\"")
	}
	ports := []string{"", "22"}
	// Connect drives Transport.Command with the real agent command line; the
	// separate "command" operation (an arbitrary command string) only adds
	// process spawns, so it is left to the thorough tier.
	ops := []string{"connect", "copy"}
	if vr.Thorough() {
		ops = []string{"connect", "command", "copy"}
	}
	r.Rule(fmt.Sprintf("source {URL text through url.Parse + EnsureValid, URL message through EnsureValid only} x every URL [user@]host:[port:]tail and docker://[user@]container{/p,:tcp:...} with user in %d values, host/container in %d values (plain, leading '-', '-oProxyCommand=..', leading '--', inner dash, lone '-', '--', option text behind '[' or a space, names that only become option-like after lexical path cleaning such as './-v', 'a/../-v', './/-v'), port {none,22}, kind {sync,fwd} x remote platform {posix; windows for docker, and for ssh in thorough} x operation {protocol handler Connect, transport Copy; thorough adds transport Command with an arbitrary command}; each accepted URL is executed against recording fakes together with a neutral-component reference run, URL-derived arguments = those that differ from the reference; non-trivial = the offered user/host/container starts with '-' (or has option text behind '[' / a space), distinct by (source,proto,kind,user,host,port,op,platform)", len(users), len(hosts)))
	r.Assume("option recognition modelled after getopt/pflag as stated in classify(): options are recognised after operands for scp and docker cp/stop/start (permuting parsers); a parser that stops at the first operand would not treat scp's destination as an option",
		"identical calls are executed once (the same URL offered as text and as a message; Copy/Command do not take the URL kind or path)",
		"the agent bundle is absent, so the dialing logic stops after the platform probe; Copy is therefore driven directly on a transport built with the handler's own NewTransport call",
		"a Windows container is simulated for docker in both tiers (probe falls back to 'cmd /c set'; Copy runs docker stop / cp / start after a prompter says yes), a cmd.exe remote for ssh only in thorough (ssh/scp argument vectors do not depend on the remote platform)",
		"Docker URL parameters and DOCKER_* environment values are not option-injection vectors examined here (they are passed as separate option arguments / environment)")

	rejectedOptionLike, acceptedOptionLike := 0, 0
	e.memoise = true
	for _, source := range []string{"text", "message"} {
		for _, proto := range []string{"ssh", "docker"} {
			for _, kind := range []string{"sync", "fwd"} {
				for _, user := range users {
					for _, host := range hosts {
						for _, port := range ports {
							if proto == "docker" && port != "" {
								continue
							}
							for _, op := range ops {
								for _, platform := range []string{"posix", "windows"} {
									if platform == "windows" && proto == "ssh" && !vr.Thorough() {
										continue
									}
									c := c36case{source, proto, kind, user, host, port, op, platform}
									finds, class, nt := e.c36check(c, false)
									r.Case(vr.J(c), nt)
									r.Outcome(class)
									if nt && strings.HasPrefix(class, "rejected") {
										rejectedOptionLike++
									} else if nt {
										acceptedOptionLike++
									}
									for _, f := range finds {
										f := f
										r.Violate(c36key(c, f),
											fmt.Sprintf("URL %q (presented as %s) is accepted; %s (%s) runs %q where argument %d (%q, carrying the %s) is an %s", c.raw(), c.Source, f.Tool, c.Op, f.Argv, f.Index, f.Argv[f.Index], f.Component, f.Role),
											c, func() bool {
												e.memoise = false
												defer func() { e.memoise = true }()
												again, _, _ := e.c36check(c, false)
												return len(again) > 0
											})
									}
								}
							}
						}
					}
				}
			}
		}
	}
	r.Set("option_like_cases_rejected_before_any_command", rejectedOptionLike)
	r.Set("option_like_cases_executed", acceptedOptionLike)
	r.Set("distinct_transport_calls_executed", len(e.memo))
	r.Sample(c36case{"text", "ssh", "sync", "Qu", "-oProxyCommand=Qh", "22", "connect", "posix"})
	r.Sample(c36case{"message", "docker", "fwd", "Qu", "./-Qh", "", "copy", "windows"})
	r.Sample(c36case{"text", "docker", "fwd", "", "a/../-Qh", "", "copy", "posix"})
}
