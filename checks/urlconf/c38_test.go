//go:build verif

// Package urlconf holds the bounded-exhaustive checks for endpoint URLs,
// session configurations, identifiers and session selection:
// C36 (URL components never become options), C37 (accepted configurations are
// valid per endpoint), C38 (URL text round trip), C39 (identifiers) and C40
// (selection and listing).
package urlconf

import (
	"encoding/json"
	"fmt"
	"os"
	"strings"
	"testing"

	"github.com/mutagen-io/mutagen/pkg/url"

	"verif/internal/vr"
)

// ---- C38: Parse . Format . Parse == Parse ----

type c38case struct {
	Env   int    // index into c38envs
	Kind  string // "sync" or "fwd"
	First bool
	Raw   string
}

// c38envs are the DOCKER_* environments under which every string is parsed
// (Docker URLs lock these in at parse time). Index 0 is the empty environment.
var c38envs = []map[string]string{
	{},
	{"DOCKER_HOST": "tcp://dh:1"},
	{"DOCKER_HOST": "tcp://dh:1", "MUTAGEN_ALPHA_DOCKER_HOST": "tcp://alpha:2", "MUTAGEN_DESTINATION_DOCKER_CONTEXT": "ctx"},
	{"DOCKER_TLS_VERIFY": "", "DOCKER_CERT_PATH": "/certs"},
}

// c38envNames lists every variable that the URL parser may look at, so that
// applyEnv can produce exactly the requested environment.
func c38envNames() []string {
	var names []string
	for _, v := range url.DockerEnvironmentVariables {
		names = append(names, v, "MUTAGEN_ALPHA_"+v, "MUTAGEN_BETA_"+v, "MUTAGEN_SOURCE_"+v, "MUTAGEN_DESTINATION_"+v)
	}
	return names
}

// applyEnv makes the DOCKER_* part of the process environment equal to env.
func applyEnv(env map[string]string) {
	for _, n := range c38envNames() {
		if v, ok := env[n]; ok {
			os.Setenv(n, v)
		} else {
			os.Unsetenv(n)
		}
	}
}

func kindOf(s string) url.Kind {
	if s == "fwd" {
		return url.Kind_Forwarding
	}
	return url.Kind_Synchronization
}

// c38strings builds the grammar product. Every string is later parsed as both
// kinds and both positions, so synchronization-style and forwarding-style
// tails are simply generated side by side.
func c38strings(thorough bool) []string {
	users := []string{"", "u", "u.v"}
	hosts := []string{"h", "h.x", "[::1]"}
	ports := []string{"-", "0", "00", "22", "022", "65535", "65536", ""} // "-" = no port segment
	syncPaths := []string{"p", "/p", "~/p", "~u/p", "12:x", ":x", "0:x", "12:", "C:\\p", "C:/p", "", "a:b", "~"}
	fwdPaths := []string{"tcp:localhost:80", "tcp::80", "tcp6:[::1]:80", "unix:/abs.sock", "unix:rel.sock", "unix:~/s", "npipe:\\\\.\\pipe\\x", "bad:x", "tcp:", "12:tcp:x:1"}
	if thorough {
		users = append(users, "u-v", "-u", "ü", "u v", "0")
		hosts = append(hosts, "h-1", "1.2.3.4", "-h", "høst", "1", "C")
		ports = append(ports, "1", "65534", "000022", "99999999999999999999", "0x16")
		syncPaths = append(syncPaths, "0", "00:x", "1:2:3", "p q", "/p:q", "~/", "c:\\p", "пат", "/", "22:/p", "::", "0:0:x")
		fwdPaths = append(fwdPaths, "tcp4:1.2.3.4:5", "unix:", "npipe:x", "tcp:0:1", "unix:0:x", "0:tcp:h:1")
	}
	seen := map[string]bool{}
	var out []string
	add := func(s string) {
		if !seen[s] {
			seen[s] = true
			out = append(out, s)
		}
	}
	tails := append(append([]string{}, syncPaths...), fwdPaths...)
	// SCP-style forms: [user@]host:[port:]tail
	for _, u := range users {
		for _, h := range hosts {
			for _, p := range ports {
				for _, t := range tails {
					s := h + ":"
					if u != "" {
						s = u + "@" + s
					}
					if p != "-" {
						s += p + ":"
					}
					add(s + t)
				}
			}
		}
	}
	// Option-like users / hosts / containers (leading '-') in every combination
	// with plain ones: the parsers and EnsureValid both police these, and
	// "Parse accepted => valid" must hold wherever the two sites could disagree.
	dashUsers := []string{"", "u", "-u", "-"}
	dashHosts := []string{"h", "-h", "-oX=y", "--", "-"}
	for _, u := range dashUsers {
		for _, h := range dashHosts {
			for _, p := range []string{"-", "22", "0"} {
				for _, t := range []string{"p", "/p", "~/p", "12:x", "tcp:localhost:80", "unix:/abs.sock"} {
					s := h + ":"
					if u != "" {
						s = u + "@" + s
					}
					if p != "-" {
						s += p + ":"
					}
					add(s + t)
				}
			}
			for _, t := range []string{"/p", "/~/p", "/C:\\p", ":tcp:localhost:80", ":unix:/s"} {
				s := "docker://"
				if u != "" {
					s += u + "@"
				}
				add(s + h + t)
			}
		}
	}
	// Local forms (paths and bare forwarding endpoints).
	for _, s := range []string{"/p", "p", "./p", "../p", "~/p", "~", "/a:b", "/", "/p/", "/p/../q", "//p", "/p q", "a/b:c", "/0:1"} {
		add(s)
	}
	for _, s := range fwdPaths {
		add(s)
	}
	// Docker forms.
	prefixes := []string{"docker://", "DOCKER://", "Docker://"}
	dusers := []string{"-", "u", "u.v", ""} // "-" = no user part; "" = "@container"
	containers := []string{"c", "c.x", "c_1", ""}
	dtails := []string{"/p", "/~/p", "/~u/p", "/~", "/C:\\p", "/C:/p", "/c:\\p", "//p", "/", "", "/12:x", "/p@q",
		":tcp:localhost:80", ":unix:/s", ":unix:rel", ":npipe:\\\\.\\pipe\\x", ":bad:x", ":", ":tcp::80"}
	// Non-canonical absolute spellings (doubled slashes, "." and ".." segments)
	// in front of first components that the Docker parser and formatter treat
	// specially (home-relative "~", "~x"; drive letters).
	for _, lead := range []string{"//", "/./", "/../", "/a/../", "///"} {
		for _, first := range []string{"~x", "~", "~/p", "C:", "C:/x", "C:\\x", "p"} {
			dtails = append(dtails, lead+first)
		}
	}
	dtails = append(dtails, "/p//q", "/p/./q", "/p/../q", "/p/", "/~/./p", "/~x//y", "/.", "/..", "/C:/x/../y")
	if thorough {
		dusers = append(dusers, "u@v", "-u", "0")
		containers = append(containers, "-c", "c-1", "C", "0")
		dtails = append(dtails, "/~~", "//~/p", "//C:\\p", "/C:", "/C:p", "/~C:\\p", ":unix:~/s", ":tcp6:[::1]:1", "/p/", "/p:q")
	}
	for _, pre := range prefixes {
		for _, u := range dusers {
			for _, c := range containers {
				for _, t := range dtails {
					s := pre
					if u != "-" {
						s += u + "@"
					}
					add(s + c + t)
				}
			}
		}
	}
	return out
}

// c38check evaluates one case with the process environment already set.
// It returns the verdict ("" = held), an outcome class, whether parsing
// succeeded, and a canonical violation key.
func c38check(c c38case) (what, class string, parsed bool, key string) {
	kind := kindOf(c.Kind)
	u, err := url.Parse(c.Raw, kind, c.First)
	if err != nil {
		return "", "parse-rejected", false, ""
	}
	proto, _ := u.Protocol.MarshalText()
	class = "ok-" + string(proto)
	// "Every URL produced by parsing user input is valid"
	if verr := u.EnsureValid(); verr != nil {
		return fmt.Sprintf("Parse(%q) succeeded but EnsureValid fails: %v", c.Raw, verr), "parsed-invalid", true,
			fmt.Sprintf("invalid kind=%s proto=%s user=%q host=%q port=%d path=%q", c.Kind, proto, u.User, u.Host, u.Port, u.Path)
	}
	// "formatting it and parsing the result again yields the same URL"
	text := u.Format("")
	u2, err2 := url.Parse(text, kind, c.First)
	// The key projects the case onto what decides the round trip (the parsed
	// URL and what became of it), so equal failures of different raw spellings
	// of the same URL share a key.
	key = fmt.Sprintf("roundtrip kind=%s proto=%s user=%q host=%q port=%d path=%q", c.Kind, proto, u.User, u.Host, u.Port, u.Path)
	if err2 != nil {
		return fmt.Sprintf("Parse(%q) = {user %q host %q port %d path %q}; Format gives %q which does not parse: %v", c.Raw, u.User, u.Host, u.Port, u.Path, text, err2),
			"roundtrip-unparsable", true, key
	}
	if !u.Equal(u2) {
		return fmt.Sprintf("Parse(%q) = {user %q host %q port %d path %q}; Format gives %q which parses to {user %q host %q port %d path %q}",
			c.Raw, u.User, u.Host, u.Port, u.Path, text, u2.User, u2.Host, u2.Port, u2.Path), "roundtrip-differs", true, key
	}
	return "", class, true, key
}

// c38digitColon reports whether s begins with a (possibly empty) digit run
// followed by a colon.
func c38digitColon(s string) bool {
	for i := 0; i < len(s); i++ {
		if s[i] == ':' {
			return true
		}
		if s[i] < '0' || s[i] > '9' {
			return false
		}
	}
	return false
}

func TestC38(t *testing.T) {
	r := vr.New(t, "C38", "exploration")
	defer r.Finish()
	defer applyEnv(map[string]string{})
	if raw := vr.ReplayCase(); raw != nil {
		var c c38case
		json.Unmarshal(raw, &c)
		applyEnv(c38envs[c.Env])
		what, class, parsed, key := c38check(c)
		t.Logf("replay %+v: class=%s parsed=%v key=%s verdict=%q", c, class, parsed, key, what)
		r.Case(vr.J(c), parsed)
		if what != "" {
			r.Violate(key, what, c, nil)
		}
		return
	}
	strs := c38strings(vr.Thorough())
	r.Rule(fmt.Sprintf("grammar product of %d strings ([user@]host:[port:]tail over users/hosts/port tokens/sync and forwarding tails; option-like (leading '-') users x hosts/containers in every combination with plain ones for SCP-style and docker forms; local paths and bare forwarding endpoints; docker:// forms over prefix case, user, container, tail) x kind {sync,fwd} x position {first,second} x %d DOCKER_* environments; non-trivial = url.Parse accepted the string (so validity and the round trip were judged), distinct by (env,kind,first,raw)", len(strs), len(c38envs)))
	r.Assume("strings outside the stated grammar (longer paths, other characters) are not covered",
		"runtime.GOOS is linux: the Windows-only exclusion of drive-letter paths from SCP detection is not exercised",
		"the DOCKER_* environment is the same at both parses (Format with an empty prefix does not carry it)")
	set := func(c c38case) { applyEnv(c38envs[c.Env]) }
	nviol, ninclass := 0, 0
	for e := range c38envs {
		applyEnv(c38envs[e])
		for _, kind := range []string{"sync", "fwd"} {
			for _, first := range []bool{true, false} {
				for _, s := range strs {
					c := c38case{e, kind, first, s}
					what, class, parsed, key := c38check(c)
					r.Case(vr.J(c), parsed)
					r.Outcome(class)
					if what != "" {
						nviol++
						// Informational only (never part of the verdict): how many failing
						// inputs fall in the class "SSH URL, port 0, path = digits* ':' ...".
						if strings.Contains(key, "proto=ssh") && strings.Contains(key, " port=0 ") && c38digitColon(key[strings.Index(key, "path=\"")+6:]) {
							ninclass++
						}
						r.Violate(key, what, c, func() bool { set(c); w, _, _, _ := c38check(c); set(c38case{Env: e}); return w != "" })
					}
				}
			}
		}
	}
	r.Set("failing_inputs", nviol)
	r.Set("failing_inputs_ssh_port0_path_digits_colon", ninclass)
	r.Sample(c38case{0, "sync", true, "u@h:22:~/p"})
	r.Sample(c38case{1, "fwd", false, "docker://u@c:unix:rel"})
	r.Sample(c38case{0, "sync", true, "h:0:12:x"})
	if strings.Contains(os.Getenv("VERIF_DEBUG"), "c38") {
		t.Logf("strings: %d", len(strs))
	}
}
