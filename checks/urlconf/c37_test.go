//go:build verif

package urlconf

import (
	"encoding"
	"encoding/base64"
	"encoding/json"
	"fmt"
	"io"
	"net"
	"os"
	"reflect"
	"strings"
	"sync"
	"testing"

	"google.golang.org/protobuf/proto"
	"google.golang.org/protobuf/reflect/protoreflect"

	"github.com/mutagen-io/mutagen/pkg/filesystem"
	"github.com/mutagen-io/mutagen/pkg/filesystem/behavior"
	"github.com/mutagen-io/mutagen/pkg/logging"
	svcsync "github.com/mutagen-io/mutagen/pkg/service/synchronization"
	"github.com/mutagen-io/mutagen/pkg/synchronization"
	"github.com/mutagen-io/mutagen/pkg/synchronization/compression"
	"github.com/mutagen-io/mutagen/pkg/synchronization/core"
	"github.com/mutagen-io/mutagen/pkg/synchronization/core/ignore"
	"github.com/mutagen-io/mutagen/pkg/synchronization/endpoint/local"
	"github.com/mutagen-io/mutagen/pkg/synchronization/endpoint/remote"
	"github.com/mutagen-io/mutagen/pkg/synchronization/hashing"
	"github.com/mutagen-io/mutagen/pkg/url"

	"verif/internal/vr"
)

// ---- C37: accepted configurations are valid for every endpoint ----

// c37case is one (session-wide, alpha-specific, beta-specific) configuration
// triple in protobuf text form (so that a replay file is self-contained).
type c37case struct {
	Group   string // "perm" product, "field" (one field on all three), "pair" (two fields), "text" (text round trip)
	Session string // readable form
	Alpha   string
	Beta    string
	// Wire forms (base64 of the deterministic protobuf encoding), used by replay.
	SessionWire, AlphaWire, BetaWire string
	Text                             string `json:",omitempty"` // text-leg: "<type>=<number>"
}

func mkC37case(group string, s, a, b *synchronization.Configuration) c37case {
	return c37case{Group: group, Session: cfgText(s), Alpha: cfgText(a), Beta: cfgText(b), SessionWire: cfgWire(s), AlphaWire: cfgWire(a), BetaWire: cfgWire(b)}
}

// cfgText renders a configuration canonically (field order of the message
// descriptor, no optional whitespace) for keys and messages; prototext is
// deliberately unstable and cannot be used for that.
func cfgText(c *synchronization.Configuration) string {
	var parts []string
	m := c.ProtoReflect()
	fields := m.Descriptor().Fields()
	for i := 0; i < fields.Len(); i++ {
		fd := fields.Get(i)
		if !m.Has(fd) {
			continue
		}
		v := m.Get(fd)
		var text string
		switch {
		case fd.IsList():
			var items []string
			for k := 0; k < v.List().Len(); k++ {
				items = append(items, fmt.Sprintf("%q", v.List().Get(k).String()))
			}
			text = "[" + strings.Join(items, ",") + "]"
		case fd.Kind() == protoreflect.EnumKind:
			if ev := fd.Enum().Values().ByNumber(v.Enum()); ev != nil {
				text = string(ev.Name())
			} else {
				text = fmt.Sprintf("%d", v.Enum())
			}
		case fd.Kind() == protoreflect.StringKind:
			text = fmt.Sprintf("%q", v.String())
		case strings.Contains(string(fd.Name()), "Mode"):
			text = fmt.Sprintf("0%o", v.Uint())
		default:
			text = fmt.Sprintf("%d", v.Uint())
		}
		parts = append(parts, string(fd.Name())+":"+text)
	}
	return strings.Join(parts, " ")
}

// cfgWire / cfgParse carry a configuration in replay files.
func cfgWire(c *synchronization.Configuration) string {
	data, err := proto.MarshalOptions{Deterministic: true}.Marshal(c)
	if err != nil {
		panic("INFRA: " + err.Error())
	}
	return base64.StdEncoding.EncodeToString(data)
}

func cfgParse(s string) *synchronization.Configuration {
	c := &synchronization.Configuration{}
	data, err := base64.StdEncoding.DecodeString(s)
	if err == nil {
		err = proto.Unmarshal(data, c)
	}
	if err != nil {
		panic("INFRA: configuration in replay case does not parse: " + err.Error())
	}
	return c
}

// refMerge is the reference for "Endpoint-specific values override
// session-wide ones field by field, ignore lists are concatenated in order".
// It is written against the message descriptor, so it knows nothing about the
// individual fields (and automatically covers fields added later).
func refMerge(lower, higher *synchronization.Configuration) *synchronization.Configuration {
	res := &synchronization.Configuration{}
	rm, lm, hm := res.ProtoReflect(), lower.ProtoReflect(), higher.ProtoReflect()
	fields := rm.Descriptor().Fields()
	for i := 0; i < fields.Len(); i++ {
		fd := fields.Get(i)
		if fd.IsList() {
			out := rm.Mutable(fd).List()
			for _, src := range []protoreflect.Message{lm, hm} {
				l := src.Get(fd).List()
				for k := 0; k < l.Len(); k++ {
					out.Append(l.Get(k))
				}
			}
		} else if hm.Has(fd) { // set on the endpoint (non-zero): overrides
			rm.Set(fd, hm.Get(fd))
		} else if lm.Has(fd) {
			rm.Set(fd, lm.Get(fd))
		}
	}
	return res
}

// fieldDomain returns the small value domain of one Configuration field:
// default, valid values and at least one invalid value.
func fieldDomain(fd protoreflect.FieldDescriptor) []protoreflect.Value {
	name := string(fd.Name())
	switch {
	case fd.IsList():
		mk := func(items ...string) protoreflect.Value {
			l := (&synchronization.Configuration{}).ProtoReflect().NewField(fd).List()
			for _, it := range items {
				l.Append(protoreflect.ValueOfString(it))
			}
			return protoreflect.ValueOfList(l)
		}
		tag := name[:1]
		return []protoreflect.Value{mk(), mk(tag + "1"), mk(tag+"2", tag+"3")}
	case fd.Kind() == protoreflect.EnumKind:
		var out []protoreflect.Value
		vals := fd.Enum().Values()
		max := protoreflect.EnumNumber(0)
		for i := 0; i < vals.Len(); i++ {
			n := vals.Get(i).Number()
			out = append(out, protoreflect.ValueOfEnum(n))
			if n > max {
				max = n
			}
		}
		return append(out, protoreflect.ValueOfEnum(max+1)) // undeclared
	case fd.Kind() == protoreflect.StringKind:
		return []protoreflect.Value{protoreflect.ValueOfString(""), protoreflect.ValueOfString("id:0"), protoreflect.ValueOfString("id:x")}
	case strings.Contains(name, "mode") || strings.Contains(name, "Mode"):
		// Permission modes: unset, no x bits, x bits, non-permission bit.
		var out []protoreflect.Value
		for _, m := range []uint32{0, 0o644, 0o755, 0o1644} {
			out = append(out, protoreflect.ValueOfUint32(m))
		}
		return out
	case fd.Kind() == protoreflect.Uint64Kind:
		return []protoreflect.Value{protoreflect.ValueOfUint64(0), protoreflect.ValueOfUint64(1), protoreflect.ValueOfUint64(1 << 40)}
	case fd.Kind() == protoreflect.Uint32Kind:
		return []protoreflect.Value{protoreflect.ValueOfUint32(0), protoreflect.ValueOfUint32(1), protoreflect.ValueOfUint32(3600)}
	}
	panic("INFRA: Configuration field of unexpected kind: " + name)
}

func withField(fd protoreflect.FieldDescriptor, v protoreflect.Value) *synchronization.Configuration {
	c := &synchronization.Configuration{}
	if fd.IsList() {
		if v.List().Len() > 0 {
			c.ProtoReflect().Set(fd, v)
		}
	} else {
		c.ProtoReflect().Set(fd, v)
	}
	return c
}

type c37env struct {
	t      *testing.T
	logger *logging.Logger
	rootA  string
	rootB  string
	// initSeen caches endpoint-initialization verdicts per (side, merged).
	initSeen map[string]string
	inits    int
	mu       sync.Mutex // serialises real endpoint initializations (shared roots, shared data directory)
}

// documentedDefaultPermissionsMode is what the documentation states for
// session version 1; the check refuses to run if the code disagrees, because
// then this oracle's notion of "portably" would be stale.
const documentedDefaultPermissionsMode = core.PermissionsMode_PermissionsModePortable

// initEndpoint performs real endpoint initialization for one effective
// configuration, both ways mutagen does it: a local endpoint created directly
// and a remote endpoint initialized over a stream by the real server. It
// returns "" if both accept.
func (e *c37env) initEndpoint(merged *synchronization.Configuration, alpha bool) string {
	e.mu.Lock()
	defer e.mu.Unlock()
	key := fmt.Sprintf("%v|%s", alpha, cfgText(merged))
	if v, ok := e.initSeen[key]; ok {
		return v
	}
	e.inits++
	root := e.rootB
	if alpha {
		root = e.rootA
	}
	verdict := ""
	func() {
		defer func() {
			if p := recover(); p != nil {
				verdict = fmt.Sprintf("local endpoint initialization panics: %v", p)
			}
		}()
		ep, err := local.NewEndpoint(e.logger, root, "sync_verifC37local", synchronization.DefaultVersion, merged, alpha)
		if err != nil {
			verdict = "local endpoint initialization fails: " + err.Error()
			return
		}
		ep.Shutdown()
	}()
	if verdict == "" {
		client, server := net.Pipe()
		done := make(chan struct{})
		go func() { remote.ServeEndpoint(e.logger, server); close(done) }()
		ep, err := remote.NewEndpoint(e.logger, client, root, "sync_verifC37remote", synchronization.DefaultVersion, merged, alpha)
		if err != nil {
			verdict = "remote endpoint initialization fails: " + err.Error()
		} else {
			ep.Shutdown()
		}
		<-done
	}
	e.initSeen[key] = verdict
	return verdict
}

// minimalInvalid greedily clears fields of an invalid effective configuration
// while it stays invalid, so that violations are keyed by what makes the
// effective configuration invalid and not by unrelated fields.
func minimalInvalid(c *synchronization.Configuration) *synchronization.Configuration {
	cur := proto.Clone(c).(*synchronization.Configuration)
	fields := cur.ProtoReflect().Descriptor().Fields()
	for i := 0; i < fields.Len(); i++ {
		fd := fields.Get(i)
		if !cur.ProtoReflect().Has(fd) {
			continue
		}
		try := proto.Clone(cur).(*synchronization.Configuration)
		try.ProtoReflect().Clear(fd)
		if try.EnsureValid(false) != nil {
			cur = try
		}
	}
	return cur
}

// c37check judges one configuration triple. accepted reports whether session
// creation accepted it.
func (e *c37env) c37check(session, alpha, beta *synchronization.Configuration) (what, key, class string, accepted bool) {
	// Merge clause, checked for every triple (MergeConfigurations is total).
	mergedBy := map[string]*synchronization.Configuration{}
	endpointBy := map[string]*synchronization.Configuration{"alpha": alpha, "beta": beta}
	// Both merges are performed first and judged afterwards, as the controller
	// uses them: a merge must not disturb an earlier result or its inputs.
	wantBy := map[string]*synchronization.Configuration{"alpha": refMerge(session, alpha), "beta": refMerge(session, beta)}
	gotBy := map[string]*synchronization.Configuration{}
	for _, side := range []string{"alpha", "beta"} {
		gotBy[side] = synchronization.MergeConfigurations(session, endpointBy[side])
	}
	for _, side := range []string{"alpha", "beta"} {
		ep := endpointBy[side]
		got, want := gotBy[side], wantBy[side]
		if !proto.Equal(got, want) {
			return fmt.Sprintf("MergeConfigurations(session, %s) = {%s}, field-wise override / ordered concatenation gives {%s}", side, cfgText(got), cfgText(want)),
				fmt.Sprintf("merge session={%s} endpoint={%s}", cfgText(session), cfgText(ep)), "merge-differs", false
		}
		mergedBy[side] = got
	}
	spec := &svcsync.CreationSpecification{
		Alpha:              &url.URL{Kind: url.Kind_Synchronization, Protocol: url.Protocol_Local, Path: e.rootA},
		Beta:               &url.URL{Kind: url.Kind_Synchronization, Protocol: url.Protocol_Local, Path: e.rootB},
		Configuration:      session,
		ConfigurationAlpha: alpha,
		ConfigurationBeta:  beta,
	}
	if err := spec.VerifEnsureValid(); err != nil {
		return "", "", "creation-rejects", false
	}
	class = "accepted-valid"
	for _, side := range []string{"alpha", "beta"} {
		merged := mergedBy[side]
		// "yields, for each endpoint, an effective configuration that endpoint
		// initialization also accepts": the remote endpoint server validates
		// the effective configuration with EnsureValid(false).
		if err := merged.EnsureValid(false); err != nil {
			return fmt.Sprintf("creation accepts session={%s} %s={%s} but the effective %s configuration {%s} is invalid: %v", cfgText(session), side, cfgText(endpointBy[side]), side, cfgText(merged), err),
				fmt.Sprintf("effective-invalid side=%s minimal={%s}", side, cfgText(minimalInvalid(merged))), "accepted-effective-invalid", true
		}
		// "In particular the default file mode has no executable bits when
		// executability is propagated portably."
		perm := merged.PermissionsMode
		if perm == core.PermissionsMode_PermissionsModeDefault {
			perm = documentedDefaultPermissionsMode
		}
		if perm == core.PermissionsMode_PermissionsModePortable && merged.DefaultFileMode&0o111 != 0 {
			return fmt.Sprintf("effective %s configuration {%s} has executable bits in the default file mode under portable permissions", side, cfgText(merged)),
				fmt.Sprintf("portable-exec side=%s merged={%s}", side, cfgText(merged)), "accepted-portable-exec", true
		}
		// Real endpoint initialization (cached per distinct effective configuration).
		if v := e.initEndpoint(merged, side == "alpha"); v != "" {
			return fmt.Sprintf("creation accepts session={%s} %s={%s} but for the effective %s configuration {%s}: %s", cfgText(session), side, cfgText(endpointBy[side]), side, cfgText(merged), v),
				fmt.Sprintf("init-rejects side=%s merged={%s}", side, cfgText(merged)), "accepted-init-rejects", true
		}
	}
	return "", "", class, true
}

// textRoundTrip checks "every mode written as text is read back as the same
// value" for one declared, non-default value of one enumeration type (zero is
// the pointer to a zero value of the type).
func textRoundTrip(zero interface{}, n int64) (what string, text string) {
	rv := reflect.New(reflect.TypeOf(zero).Elem())
	rv.Elem().SetInt(n)
	var data []byte
	var err error
	switch m := rv.Elem().Interface().(type) {
	case encoding.TextMarshaler:
		data, err = m.MarshalText()
	case json.Marshaler: // IgnoreVCSMode is written through MarshalJSON
		data, err = m.MarshalJSON()
	default:
		return "type has no text form", ""
	}
	if err != nil {
		return "writing fails: " + err.Error(), ""
	}
	back := reflect.New(reflect.TypeOf(zero).Elem())
	if err := back.Interface().(encoding.TextUnmarshaler).UnmarshalText(data); err != nil {
		return fmt.Sprintf("written as %q, reading fails: %v", data, err), string(data)
	}
	if back.Elem().Int() != n {
		return fmt.Sprintf("written as %q, read back as %d", data, back.Elem().Int()), string(data)
	}
	return "", string(data)
}

func TestC37(t *testing.T) {
	r := vr.New(t, "C37", "exploration")
	defer r.Finish()
	if synchronization.DefaultVersion.DefaultPermissionsMode() != documentedDefaultPermissionsMode {
		t.Fatalf("INFRA: default permissions mode is no longer portable; oracle assumption stale")
	}
	os.Setenv("MUTAGEN_DATA_DIRECTORY", t.TempDir())
	e := &c37env{t: t, logger: logging.NewLogger(logging.LevelDisabled, io.Discard), rootA: t.TempDir(), rootB: t.TempDir(), initSeen: map[string]string{}}

	violate := func(c c37case, what, key string) {
		r.Violate(key, what, c, func() bool {
			e2 := &c37env{t: t, logger: e.logger, rootA: e.rootA, rootB: e.rootB, initSeen: map[string]string{}}
			w, _, _, _ := e2.c37check(cfgParse(c.SessionWire), cfgParse(c.AlphaWire), cfgParse(c.BetaWire))
			return w != ""
		})
	}

	if raw := vr.ReplayCase(); raw != nil {
		var c c37case
		json.Unmarshal(raw, &c)
		if c.Group == "text" || c.Group == "purity" {
			t.Logf("replay of %s case %s: deterministic leg without per-case replay, re-run the check", c.Group, c.Text)
			return
		}
		what, key, class, acc := e.c37check(cfgParse(c.SessionWire), cfgParse(c.AlphaWire), cfgParse(c.BetaWire))
		t.Logf("replay %+v: accepted=%v class=%s verdict=%q", c, acc, class, what)
		r.Case(vr.J(c), acc)
		if what != "" {
			r.Violate(key, what, c, nil)
		}
		return
	}

	r.Rule("three groups of (session, alpha, beta) configuration triples through the real CreationSpecification validation, MergeConfigurations, Configuration.EnsureValid(false) and real local + remote (in-memory stream, real server) endpoint initialization: 'perm' = full product of session permissions mode {default,portable,manual,undeclared} x default file mode {0,0644,0755,01644,0111} on session, alpha and beta x endpoint permissions mode {default,manual} x default directory mode {0,0755,040755} on session and alpha x owner {'',id:0,id:x} on session and alpha x group on beta (thorough: more modes, a second owner, endpoint permissions mode portable); 'field' = for every Configuration field (from the message descriptor) the cube of its domain (every declared enum value + one undeclared; small scalars; lists) on session x alpha x beta; 'pair' = every ordered pair of fields, one on the session and one on alpha, all domain values; 'purity' = for each list field, the session list of 0..5 entries built as a literal / appended into a slice with spare capacity 1 or 4 / decoded from the wire, merged with alpha (0..2 entries) and beta (0..3 entries) in both orders and only then both results and all inputs compared with the reference and pristine copies; 'text' = every declared non-default value of every configuration enumeration and every permission mode 0..0777 written as text and read back. Non-trivial = creation accepted the triple (so the effective configurations were judged), or a text value was written; distinct by the triple / value")
	r.Assume("owner/group by name and Windows SIDs are not enumerated (their acceptance at endpoint initialization depends on the host's user database / platform)",
		"syntactically invalid ignore patterns are not enumerated: the code documents that ignores can only be validated at endpoint initialization; whether the property demands earlier rejection is doubtful and is not demanded here",
		"session version 1 (the only one); its documented default permissions mode (portable) is asserted at start",
		"creation acceptance is CreationSpecification.ensureValid (the only gate before Manager.Create; Server.Create is its only caller)")

	// pending violations are collected per shard and reported in shard order
	// after the parallel section, so that the case stored for a key (the first
	// one in enumeration order, i.e. the one with the most defaults) does not
	// depend on scheduling.
	type pendingViolation struct {
		c         c37case
		what, key string
	}
	runWith := func(l *vr.Local, pend *[]pendingViolation, group string, s, a, b *synchronization.Configuration) {
		what, key, class, acc := e.c37check(s, a, b)
		l.Outcome(class)
		if acc || what != "" {
			l.Case(group+"|"+cfgText(s)+"|"+cfgText(a)+"|"+cfgText(b), true)
		} else {
			l.Case("", false)
		}
		if what != "" {
			*pend = append(*pend, pendingViolation{mkC37case(group, s, a, b), what, key})
		}
	}

	// Group "perm": the interacting fields, full product (sharded on the
	// session's permissions mode x default file mode).
	perms := []core.PermissionsMode{core.PermissionsMode_PermissionsModeDefault, core.PermissionsMode_PermissionsModePortable, core.PermissionsMode_PermissionsModeManual, core.PermissionsMode(7)}
	fileModes := []uint32{0, 0o644, 0o755, 0o1644, 0o111}
	dirModes := []uint32{0, 0o755, 0o40755}
	owners := []string{"", "id:0", "id:x"}
	epPerms := []core.PermissionsMode{core.PermissionsMode_PermissionsModeDefault, core.PermissionsMode_PermissionsModeManual}
	if vr.Thorough() {
		fileModes = append(fileModes, 0o600, 0o700, 0o7777)
		dirModes = append(dirModes, 0o700)
		owners = append(owners, "id:1000")
		epPerms = append(epPerms, core.PermissionsMode_PermissionsModePortable)
	}
	pends := make([][]pendingViolation, len(perms)*len(fileModes))
	vr.Parallel(len(perms)*len(fileModes), func(shard int) {
		l := r.Local()
		defer l.Flush()
		pend := &pends[shard]
		sp, sfm := perms[shard/len(fileModes)], fileModes[shard%len(fileModes)]
		for _, afm := range fileModes {
			for _, bfm := range fileModes {
				for _, ap := range epPerms {
					for _, sdm := range dirModes {
						for _, adm := range dirModes {
							for _, so := range owners {
								for _, ao := range owners {
									for _, bg := range owners {
										s := &synchronization.Configuration{PermissionsMode: sp, DefaultFileMode: sfm, DefaultDirectoryMode: sdm, DefaultOwner: so}
										a := &synchronization.Configuration{PermissionsMode: ap, DefaultFileMode: afm, DefaultDirectoryMode: adm, DefaultOwner: ao}
										b := &synchronization.Configuration{DefaultFileMode: bfm, DefaultGroup: bg}
										runWith(l, pend, "perm", s, a, b)
									}
								}
							}
						}
					}
				}
			}
		}
	})
	for _, pend := range pends {
		for _, pv := range pend {
			violate(pv.c, pv.what, pv.key)
		}
	}
	l := r.Local()
	var pendSerial []pendingViolation
	run := func(group string, s, a, b *synchronization.Configuration) {
		runWith(l, &pendSerial, group, s, a, b)
		for _, pv := range pendSerial {
			violate(pv.c, pv.what, pv.key)
		}
		pendSerial = pendSerial[:0]
	}
	// Group "field": each field on its own, cube of its domain.
	fields := (&synchronization.Configuration{}).ProtoReflect().Descriptor().Fields()
	for i := 0; i < fields.Len(); i++ {
		fd := fields.Get(i)
		dom := fieldDomain(fd)
		for _, sv := range dom {
			for _, av := range dom {
				for _, bv := range dom {
					run("field", withField(fd, sv), withField(fd, av), withField(fd, bv))
				}
			}
		}
	}
	// Group "pair": one field on the session, another on alpha.
	for i := 0; i < fields.Len(); i++ {
		for j := 0; j < fields.Len(); j++ {
			if i == j {
				continue
			}
			for _, sv := range fieldDomain(fields.Get(i)) {
				for _, av := range fieldDomain(fields.Get(j)) {
					run("pair", withField(fields.Get(i), sv), withField(fields.Get(j), av), &synchronization.Configuration{})
				}
			}
		}
	}
	// Group "purity": merging is a pure function of (lower, higher). The
	// session-wide list is built the way real ones are (appended into a slice
	// with spare capacity, or decoded from the wire), merged with alpha's and
	// then beta's configuration (both orders), and only then both results and
	// all three inputs are compared with pristine copies / the reference.
	for i := 0; i < fields.Len(); i++ {
		fd := fields.Get(i)
		if !fd.IsList() {
			continue
		}
		name := string(fd.Name())
		items := func(tag string, n int) []string {
			var out []string
			for k := 0; k < n; k++ {
				out = append(out, fmt.Sprintf("%s%d", tag, k+1))
			}
			return out
		}
		setList := func(c *synchronization.Configuration, list []string) {
			rv := reflect.ValueOf(c).Elem().FieldByNameFunc(func(n string) bool { return strings.EqualFold(n, name) })
			rv.Set(reflect.ValueOf(list))
		}
		for _, build := range []string{"literal", "spare1", "spare4", "wire"} {
			for sn := 0; sn <= 5; sn++ {
				for an := 0; an <= 2; an++ {
					for bn := 0; bn <= 3; bn++ {
						for _, order := range []string{"alpha-first", "beta-first"} {
							build, sn, an, bn, order := build, sn, an, bn, order
							id := fmt.Sprintf("purity field=%s build=%s session=%d alpha=%d beta=%d %s", name, build, sn, an, bn, order)
							judge := func() string {
								session := &synchronization.Configuration{}
								switch build {
								case "literal":
									setList(session, items("s", sn))
								case "spare1", "spare4":
									spare := map[string]int{"spare1": 1, "spare4": 4}[build]
									list := make([]string, 0, sn+spare)
									list = append(list, items("s", sn)...)
									setList(session, list)
								case "wire":
									tmp := &synchronization.Configuration{}
									setList(tmp, items("s", sn))
									session = cfgParse(cfgWire(tmp))
								}
								alpha, beta := &synchronization.Configuration{}, &synchronization.Configuration{}
								setList(alpha, items("a", an))
								setList(beta, items("b", bn))
								ps, pa, pb := proto.Clone(session), proto.Clone(alpha), proto.Clone(beta)
								wantA, wantB := refMerge(session, alpha), refMerge(session, beta)
								var gotA, gotB *synchronization.Configuration
								if order == "alpha-first" {
									gotA = synchronization.MergeConfigurations(session, alpha)
									gotB = synchronization.MergeConfigurations(session, beta)
								} else {
									gotB = synchronization.MergeConfigurations(session, beta)
									gotA = synchronization.MergeConfigurations(session, alpha)
								}
								what := ""
								switch {
								case !proto.Equal(gotA, wantA):
									what = fmt.Sprintf("after both merges the alpha result is {%s}, ordered concatenation gives {%s}", cfgText(gotA), cfgText(wantA))
								case !proto.Equal(gotB, wantB):
									what = fmt.Sprintf("after both merges the beta result is {%s}, ordered concatenation gives {%s}", cfgText(gotB), cfgText(wantB))
								case !proto.Equal(session, ps) || !proto.Equal(alpha, pa) || !proto.Equal(beta, pb):
									what = "merging modified one of its inputs"
								}
								return what
							}
							what := judge()
							l.Case(id, sn > 0 && an > 0 && bn > 0)
							if what != "" {
								l.Outcome("merge-impure")
								r.Violate(id, id+": "+what, c37case{Group: "purity", Text: id}, func() bool { return judge() != "" })
							} else {
								l.Outcome("merge-pure")
							}
						}
					}
				}
			}
		}
	}
	l.Flush()
	r.Set("endpoint_initializations_run", e.inits)

	// Group "text": every mode written as text is read back as the same value.
	enums := []interface{}{
		new(core.SynchronizationMode), new(hashing.Algorithm), new(behavior.ProbeMode), new(synchronization.ScanMode),
		new(synchronization.StageMode), new(core.SymbolicLinkMode), new(synchronization.WatchMode), new(ignore.Syntax),
		new(ignore.IgnoreVCSMode), new(core.PermissionsMode), new(compression.Algorithm),
	}
	// Every enumeration-typed Configuration field must be in the list above.
	covered := map[string]bool{}
	for _, z := range enums {
		covered[string(reflect.ValueOf(z).Elem().Interface().(protoreflect.Enum).Descriptor().FullName())] = true
	}
	for i := 0; i < fields.Len(); i++ {
		if fd := fields.Get(i); fd.Kind() == protoreflect.EnumKind && !covered[string(fd.Enum().FullName())] {
			t.Fatalf("INFRA: enumeration %s of field %s is not in the text round-trip list", fd.Enum().FullName(), fd.Name())
		}
	}
	for _, z := range enums {
		desc := reflect.ValueOf(z).Elem().Interface().(protoreflect.Enum).Descriptor()
		vals := desc.Values()
		for i := 0; i < vals.Len(); i++ {
			n := int64(vals.Get(i).Number())
			if n == 0 {
				continue // the default value is written as the absence of a value
			}
			id := fmt.Sprintf("%s=%d", desc.Name(), n)
			what, text := textRoundTrip(z, n)
			r.Case("text|"+id, true)
			r.Outcome("text-" + map[bool]string{true: "roundtrip", false: "differs"}[what == ""])
			if what != "" {
				z, n := z, n
				r.Violate("text "+id, fmt.Sprintf("%s (%s): %s", id, vals.Get(i).Name(), what), c37case{Group: "text", Text: id}, func() bool { w, _ := textRoundTrip(z, n); return w != "" })
			}
			_ = text
		}
	}
	for m := uint32(0); m <= 0o777; m++ {
		mode := filesystem.Mode(m)
		data, err := mode.MarshalText()
		var back filesystem.Mode
		what := ""
		if err != nil {
			what = "writing fails: " + err.Error()
		} else if err := back.UnmarshalText(data); err != nil {
			what = fmt.Sprintf("written as %q, reading fails: %v", data, err)
		} else if back != mode {
			what = fmt.Sprintf("written as %q, read back as %o", data, back)
		}
		r.Case(fmt.Sprintf("text|mode=%o", m), true)
		if what != "" {
			m := m
			r.Violate(fmt.Sprintf("text filesystem.Mode=%o", m), what, c37case{Group: "text", Text: fmt.Sprintf("filesystem.Mode=%o", m)}, func() bool {
				d, _ := filesystem.Mode(m).MarshalText()
				var b filesystem.Mode
				return b.UnmarshalText(d) != nil || b != filesystem.Mode(m)
			})
		}
	}
	r.Sample(mkC37case("perm", &synchronization.Configuration{PermissionsMode: core.PermissionsMode_PermissionsModeManual, DefaultFileMode: 0o755}, &synchronization.Configuration{DefaultFileMode: 0o644}, &synchronization.Configuration{DefaultGroup: "id:0"}))
	r.Sample(mkC37case("field", &synchronization.Configuration{WatchMode: synchronization.WatchMode_WatchModeForcePoll}, &synchronization.Configuration{WatchMode: synchronization.WatchMode_WatchModeNoWatch}, &synchronization.Configuration{}))
	r.Sample(c37case{Group: "text", Text: "SynchronizationMode=3"})
}
