//go:build verif

package urlconf

import (
	"bytes"
	"crypto/rand"
	"encoding/hex"
	"encoding/json"
	"fmt"
	"io"
	"math/big"
	"regexp"
	"strings"
	"sync"
	"testing"

	"github.com/mutagen-io/mutagen/pkg/identifier"
	"github.com/mutagen-io/mutagen/pkg/selection"

	"verif/internal/vr"
)

// ---- C39: identifiers are well formed and distinct; identifier-like names are rejected ----

// scriptedReader replaces crypto/rand.Reader while identifiers are generated:
// it hands out exactly the queued bytes and counts what was consumed.
type scriptedReader struct {
	queue []byte
	read  int
}

func (s *scriptedReader) Read(p []byte) (int, error) {
	if len(s.queue) == 0 {
		return 0, io.ErrUnexpectedEOF
	}
	n := copy(p, s.queue)
	s.queue = s.queue[n:]
	s.read += n
	return n, nil
}

// generateWith runs the real identifier.New with the given 32 "random" bytes.
func generateWith(prefix string, value []byte) (id string, consumed int, err error) {
	saved := rand.Reader
	sr := &scriptedReader{queue: append([]byte{}, value...)}
	rand.Reader = sr
	defer func() { rand.Reader = saved }()
	id, err = identifier.New(prefix)
	return id, sr.read, err
}

// gatedReader is the scripted crypto/rand.Reader of the overlap leg. Every Read
// takes the next queued value; the call with index parkAt signals parked after
// it has filled the caller's buffer and then waits for release. This owns the
// one visible scheduling point between two concurrent identifier.New calls.
type gatedReader struct {
	mu      sync.Mutex
	values  [][]byte
	calls   int
	parkAt  int
	parked  chan struct{}
	release chan struct{}
}

func (g *gatedReader) Read(p []byte) (int, error) {
	g.mu.Lock()
	idx := g.calls
	g.calls++
	if idx >= len(g.values) || len(p) != len(g.values[idx]) {
		g.mu.Unlock()
		return 0, io.ErrUnexpectedEOF
	}
	n := copy(p, g.values[idx])
	g.mu.Unlock()
	if idx == g.parkAt {
		close(g.parked)
		<-g.release
	}
	return n, nil
}

// overlapGenerate runs identifier.New(prefix1) with value1, parks it right
// after its random bytes were delivered, runs a complete identifier.New(prefix2)
// with value2, then lets the first finish. With warmup, one more complete
// generation runs first. It returns the two identifiers.
func overlapGenerate(prefix1 string, value1 []byte, prefix2 string, value2 []byte, warmup bool) (id1, id2 string, err error) {
	g := &gatedReader{parked: make(chan struct{}), release: make(chan struct{})}
	if warmup {
		g.values = append(g.values, bytes.Repeat([]byte{0x5a}, 32))
		g.parkAt = 1
	}
	g.values = append(g.values, value1, value2)
	saved := rand.Reader
	rand.Reader = g
	defer func() { rand.Reader = saved }()
	if warmup {
		if _, err := identifier.New(prefix1); err != nil {
			return "", "", err
		}
	}
	type res struct {
		id  string
		err error
	}
	first := make(chan res, 1)
	go func() {
		id, err := identifier.New(prefix1)
		first <- res{id, err}
	}()
	<-g.parked
	id2, err2 := identifier.New(prefix2)
	close(g.release)
	r1 := <-first
	if r1.err != nil {
		return "", "", r1.err
	}
	return r1.id, id2, err2
}

// c39checkOverlap judges one overlap case: each identifier must be the one its
// own bytes give when generated alone, and different bytes must give different
// identifiers.
func c39checkOverlap(c c39case) string {
	v1, _ := hex.DecodeString(c.Value)
	v2, _ := hex.DecodeString(c.Value2)
	want1, _, err := generateWith(c.Prefix, v1)
	if err != nil {
		return "identifier.New fails: " + err.Error()
	}
	want2, _, err := generateWith(c.Prefix2, v2)
	if err != nil {
		return "identifier.New fails: " + err.Error()
	}
	id1, id2, err := overlapGenerate(c.Prefix, v1, c.Prefix2, v2, c.Warmup)
	if err != nil {
		return "identifier.New fails when overlapped: " + err.Error()
	}
	// "is distinct from every other generated identifier"
	if c.Value != c.Value2 && id1[5:] == id2[5:] {
		return fmt.Sprintf("two overlapping generations with different random bytes (%s, %s) both return %q / %q", c.Value, c.Value2, id1, id2)
	}
	if id1 != want1 {
		return fmt.Sprintf("the generation that was overlapped returns %q, its own random bytes %s give %q", id1, c.Value, want1)
	}
	if id2 != want2 {
		return fmt.Sprintf("the generation that ran during the overlap returns %q, its own random bytes %s give %q", id2, c.Value2, want2)
	}
	return ""
}

type c39case struct {
	Leg    string // "id", "name" or "overlap"
	Prefix string `json:",omitempty"`
	Value  string `json:",omitempty"` // hex of the 32 random bytes
	Name   string `json:",omitempty"`
	// overlap leg: a second generation (Prefix2, Value2) runs to completion
	// while the first one is parked right after its random bytes were
	// delivered; Warmup = a complete generation precedes both (so that the
	// parked reader call is the second one).
	Prefix2 string `json:",omitempty"`
	Value2  string `json:",omitempty"`
	Warmup  bool   `json:",omitempty"`
}

// c39values builds the structured 32-byte values (deduplicated, in a fixed
// order).
func c39values(thorough bool) [][]byte {
	seen := map[string]bool{}
	var out [][]byte
	add := func(v []byte) {
		if len(v) != 32 {
			panic("INFRA: value is not 32 bytes")
		}
		if !seen[string(v)] {
			seen[string(v)] = true
			out = append(out, append([]byte{}, v...))
		}
	}
	nexts := []byte{0x01, 0xff}
	if thorough {
		nexts = nil
		for b := 1; b <= 255; b++ {
			nexts = append(nexts, byte(b))
		}
	}
	// k leading zero bytes x next byte x fill.
	for k := 0; k <= 32; k++ {
		for _, next := range nexts {
			for fill := 0; fill < 3; fill++ {
				v := make([]byte, 32)
				if k < 32 {
					v[k] = next
				}
				for i := k + 1; i < 32; i++ {
					switch fill {
					case 0:
						v[i] = 0x00
					case 1:
						v[i] = 0xff
					case 2:
						v[i] = byte(i)
					}
				}
				add(v)
			}
		}
	}
	// Exactly one bit set.
	for bit := 0; bit < 256; bit++ {
		v := make([]byte, 32)
		v[bit/8] = 1 << uint(7-bit%8)
		add(v)
	}
	// Digit boundaries of the base-62 expansion: 62^j - 1, 62^j, 62^j + 1.
	limit := new(big.Int).Lsh(big.NewInt(1), 256)
	p := big.NewInt(1)
	for j := 0; j <= 43; j++ {
		for _, d := range []int64{-1, 0, 1} {
			n := new(big.Int).Add(p, big.NewInt(d))
			if n.Sign() >= 0 && n.Cmp(limit) < 0 {
				add(n.FillBytes(make([]byte, 32)))
			}
		}
		p = new(big.Int).Mul(p, big.NewInt(62))
	}
	// The extremes.
	add(bytes.Repeat([]byte{0xff}, 32))
	add(make([]byte, 32))
	return out
}

// Independent statements of the documented identifier formats.
var (
	docNewStyle   = regexp.MustCompile(`^[a-z]{4}_[0-9A-Za-z]{43}$`)
	docLegacyUUID = regexp.MustCompile(`^[0-9a-f]{8}-[0-9a-f]{4}-[0-9a-f]{4}-[0-9a-f]{4}-[0-9a-f]{12}$`)
)

// c39checkID judges one generated identifier (distinctness is judged by the
// caller over the whole set).
func c39checkID(prefix string, value []byte) (id, what string) {
	id, consumed, err := generateWith(prefix, value)
	if err != nil {
		return "", "identifier.New fails: " + err.Error()
	}
	if consumed != 32 {
		return id, fmt.Sprintf("INFRA: identifier.New consumed %d scripted bytes, expected 32", consumed)
	}
	// "has the documented prefix and fixed length"
	if !strings.HasPrefix(id, prefix+"_") {
		return id, fmt.Sprintf("identifier %q does not start with %q", id, prefix+"_")
	}
	if len(id) != 4+1+43 {
		return id, fmt.Sprintf("identifier %q has length %d, documented fixed length is 48", id, len(id))
	}
	if !docNewStyle.MatchString(id) {
		return id, fmt.Sprintf("identifier %q does not have the documented form prefix_[0-9a-zA-Z]{43}", id)
	}
	// "is accepted by identifier validation"
	if !identifier.IsValid(id) {
		return id, fmt.Sprintf("identifier %q is rejected by identifier.IsValid", id)
	}
	// "Its truncated display form is a prefix of it"
	tr := identifier.Truncated(id)
	if tr == "" || !strings.HasPrefix(id, tr) {
		return id, fmt.Sprintf("truncated form %q is not a (non-empty) prefix of %q", tr, id)
	}
	return id, ""
}

// c39names builds the name alphabet: plain names, reserved words, and
// UUID-shaped strings over character classes.
func c39names(thorough bool) []string {
	names := []string{"", "a", "n1", "my-session", "my--session", "a-", "é1", "defaults", "Defaults", "defaults-", "default", "xdefaults",
		"abcdefabcdefabcdefabcdefabcdefab", "urn:uuid:abcdefab-1234-1234-1234-abcdefabcdef", "{abcdefab-1234-1234-1234-abcdefabcdef}",
		"abcdefab-1234-1234-1234-abcdefabcde", "abcdefab-1234-1234-1234-abcdefabcdef0", "abcdefab-1234-1234-1234abcdefabcdef", "abcdefab_1234_1234_1234_abcdefabcdef",
		"sync_0000000000000000000000000000000000000000001", "sync_000000000"}
	// 8-4-4-4-12 groups, each filled with one character.
	chars := []byte{'a', 'f', '0', '9', 'A', 'g'}
	if thorough {
		chars = append(chars, 'F', 'z', 'b')
	}
	lens := []int{8, 4, 4, 4, 12}
	idx := make([]int, 5)
	for {
		parts := make([]string, 5)
		for g := range lens {
			parts[g] = strings.Repeat(string(chars[idx[g]]), lens[g])
		}
		names = append(names, strings.Join(parts, "-"))
		g := 4
		for g >= 0 {
			idx[g]++
			if idx[g] < len(chars) {
				break
			}
			idx[g] = 0
			g--
		}
		if g < 0 {
			break
		}
	}
	return names
}

// c39checkName returns the verdict for one candidate session name.
func c39checkName(name string) (what, class string, mustReject bool) {
	err := selection.EnsureNameValid(name)
	// "session names that look like identifiers (UUIDs) or are reserved words
	// are rejected"
	looksLikeIdentifier := docNewStyle.MatchString(name) || docLegacyUUID.MatchString(name)
	reserved := name == "defaults"
	mustReject = looksLikeIdentifier || reserved
	switch {
	case mustReject && err == nil && looksLikeIdentifier:
		return fmt.Sprintf("name %q has the form of a session identifier but is accepted as a session name", name), "identifier-like-accepted", true
	case mustReject && err == nil:
		return fmt.Sprintf("reserved word %q is accepted as a session name", name), "reserved-accepted", true
	case mustReject:
		return "", "must-reject-rejected", true
	case err == nil:
		return "", "other-accepted", false
	default:
		return "", "other-rejected", false
	}
}

func TestC39(t *testing.T) {
	r := vr.New(t, "C39", "exploration")
	defer r.Finish()
	if raw := vr.ReplayCase(); raw != nil {
		var c c39case
		json.Unmarshal(raw, &c)
		if c.Leg == "overlap" {
			what := c39checkOverlap(c)
			t.Logf("replay overlap %+v: verdict=%q", c, what)
			r.Case(vr.J(c), true)
			if what != "" {
				r.Violate("overlap "+vr.J(c), what, c, nil)
			}
			return
		}
		if c.Leg == "name" {
			what, class, must := c39checkName(c.Name)
			t.Logf("replay name %q: class=%s mustReject=%v verdict=%q", c.Name, class, must, what)
			r.Case(vr.J(c), must)
			if what != "" {
				r.Violate("name "+c.Name, what, c, nil)
			}
			return
		}
		value, _ := hex.DecodeString(c.Value)
		id, what := c39checkID(c.Prefix, value)
		t.Logf("replay id prefix=%s value=%s: id=%q verdict=%q", c.Prefix, c.Value, id, what)
		r.Case(vr.J(c), true)
		if what != "" {
			r.Violate("id "+c.Prefix+" "+c.Value, what, c, nil)
		}
		return
	}
	values := c39values(vr.Thorough())
	names := c39names(vr.Thorough())
	prefixes := []string{identifier.PrefixSynchronization, identifier.PrefixForwarding, identifier.PrefixProject, identifier.PrefixPrompter}
	r.Rule(fmt.Sprintf("identifier leg: crypto/rand.Reader scripted with each of %d structured 32-byte values (k=0..32 leading zero bytes x next byte x fill {00,ff,counter}; every single-bit value; 62^j-1, 62^j, 62^j+1 for j=0..43; all-zero, all-ff) x 4 documented prefixes through the real identifier.New; every identifier judged for prefix, length 48, documented form, IsValid, Truncated-is-prefix, and pairwise distinctness over the whole set (distinct inputs => distinct identifiers); overlap leg: for representative value pairs (a,b), a != b, x prefix pairs x {parked reader call is the 1st, the 2nd}: one identifier.New is parked right after the scripted reader delivered its bytes, a second complete identifier.New runs, the first is released; each result must equal the identifier its own bytes give alone and the two must differ; name leg: %d names (plain, reserved-word neighbours, UUID mutations, all 8-4-4-4-12 strings with one character class per group) through the real EnsureNameValid, plus every generated identifier offered as a name. Non-trivial: every identifier case; name cases that the statement requires to be rejected", len(values), len(names)))
	r.Assume("concurrency between generations is explored only at the scheduling point the harness owns (inside the crypto/rand.Reader call), with two generations; no race-detector pass is run in this area",
		"the statistical claim that random draws are distinct is not decided here, only injectivity of the encoding over the enumerated values",
		"'looks like an identifier' is taken as the two documented identifier formats (prefix_[0-9a-zA-Z]{43} and lowercase UUID); upper-case UUIDs are recorded but their rejection is not demanded")

	// Identifier leg (serial: crypto/rand.Reader is process-global).
	byID := map[string]string{} // identifier (without prefix part) -> hex value
	matchBig := 0
	for _, prefix := range prefixes {
		for _, v := range values {
			c := c39case{Leg: "id", Prefix: prefix, Value: hex.EncodeToString(v)}
			id, what := c39checkID(prefix, v)
			if strings.HasPrefix(what, "INFRA:") {
				t.Fatalf("%s", what)
			}
			r.Case("id|"+prefix+"|"+c.Value, true)
			if what != "" {
				r.Outcome("id-malformed")
				prefix, v := prefix, v
				r.Violate("id "+prefix+" "+c.Value, what, c, func() bool { _, w := c39checkID(prefix, v); return w != "" })
				continue
			}
			r.Outcome("id-wellformed")
			// "distinct from every other generated identifier"
			if prev, ok := byID[id]; ok && prev != c.Value {
				prevHex := prev
				prefix, v := prefix, v
				r.Violate("collision "+prefix+" "+c.Value, fmt.Sprintf("values %s and %s both yield identifier %q", prevHex, c.Value, id), c, func() bool {
					pv, _ := hex.DecodeString(prevHex)
					a, _, _ := generateWith(prefix, pv)
					b, _, _ := generateWith(prefix, v)
					return a == b
				})
			}
			byID[id] = c.Value
			// Informational: the encoding is the big-endian base-62 number left-padded to 43 digits.
			if want := prefix + "_" + fmt.Sprintf("%043s", new(big.Int).SetBytes(v).Text(62)); want == id {
				matchBig++
			}
			// A generated identifier must not be usable as a session name.
			if what, class, _ := c39checkName(id); what != "" {
				r.Violate("name "+id, what, c39case{Leg: "name", Name: id}, nil)
			} else {
				r.Outcome("idname-" + class)
			}
		}
	}
	r.Set("identifiers_generated", len(byID))
	r.Set("identifiers_equal_to_padded_big_endian_base62", matchBig)
	if rand.Reader == nil {
		t.Fatalf("INFRA: crypto/rand.Reader not restored")
	}

	// Overlap leg: two generations that overlap at the one scheduling point the
	// harness owns (the call into crypto/rand.Reader).
	var reps [][]byte
	for _, idx := range []int{0, 1, 2, 3, 95, 96, 190, 192, len(values) - 2, len(values) - 1} {
		if idx >= 0 && idx < len(values) {
			reps = append(reps, values[idx])
		}
	}
	if vr.Thorough() {
		for i := 0; i < len(values); i += len(values)/40 + 1 {
			reps = append(reps, values[i])
		}
	}
	overlaps := 0
	for _, warmup := range []bool{false, true} {
		for _, pp := range [][2]string{{"sync", "sync"}, {"sync", "fwrd"}} {
			for i, a := range reps {
				for j, b := range reps {
					if i == j {
						continue
					}
					c := c39case{Leg: "overlap", Prefix: pp[0], Value: hex.EncodeToString(a), Prefix2: pp[1], Value2: hex.EncodeToString(b), Warmup: warmup}
					if c.Value == c.Value2 {
						continue
					}
					what := c39checkOverlap(c)
					overlaps++
					r.Case("overlap|"+vr.J(c), true)
					if what != "" {
						r.Outcome("overlap-interference")
						r.Violate("overlap "+vr.J(c), what, c, func() bool { return c39checkOverlap(c) != "" })
					} else {
						r.Outcome("overlap-independent")
					}
				}
			}
		}
	}
	r.Set("overlapped_generation_pairs", overlaps)

	// Name leg.
	for _, name := range names {
		what, class, must := c39checkName(name)
		r.Case("name|"+name, must)
		r.Outcome("name-" + class)
		if what != "" {
			name := name
			r.Violate("name "+name, what, c39case{Leg: "name", Name: name}, func() bool { w, _, _ := c39checkName(name); return w != "" })
		}
	}
	r.Sample(c39case{Leg: "id", Prefix: "sync", Value: hex.EncodeToString(values[0])})
	r.Sample(c39case{Leg: "id", Prefix: "fwrd", Value: strings.Repeat("00", 31) + "01"})
	r.Sample(c39case{Leg: "name", Name: "aaaaaaaa-ffff-0000-9999-aaaaaaaaaaaa"})
	r.Sample(c39case{Leg: "name", Name: "defaults"})
}
