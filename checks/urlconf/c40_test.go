//go:build verif

package urlconf

import (
	"context"
	"encoding/json"
	"fmt"
	"io"
	"os"
	"sort"
	"strings"
	"sync"
	"testing"
	"testing/synctest"
	"time"

	"github.com/mutagen-io/mutagen/pkg/logging"
	"github.com/mutagen-io/mutagen/pkg/selection"
	"github.com/mutagen-io/mutagen/pkg/synchronization"
	"github.com/mutagen-io/mutagen/pkg/synchronization/core"
	"github.com/mutagen-io/mutagen/pkg/synchronization/core/fastpath"
	"github.com/mutagen-io/mutagen/pkg/synchronization/rsync"
	"github.com/mutagen-io/mutagen/pkg/url"

	"verif/internal/vr"
)

// ---- C40: selection and listing are exact ----
//
// Three legs, all through real code:
//   order      fastpath.Less against an actual depth-first traversal
//   select     Manager.List over every set of <= 3 paused sessions
//   truncate   Manager.List on running sessions with scripted in-memory endpoints

type c40case struct {
	Leg string // "order", "select", "truncate", "time"
	// order
	Paths []string `json:",omitempty"`
	// select
	Sessions []c40session `json:",omitempty"`
	Query    *c40query    `json:",omitempty"`
	// truncate: conflicts, alpha scan, beta scan, alpha transition, beta transition
	Counts []int `json:",omitempty"`
	// time: creation instants in nanoseconds after the fake-clock epoch, in
	// creation order (non-decreasing; equal values = created at the same instant)
	Offsets []int64 `json:",omitempty"`
}

// ---- leg "order" ----

// refLess is the reference for "depth-first path order": paths compare as
// their component lists, a proper prefix (an ancestor) first.
func refLess(p, q string) bool {
	var pc, qc []string
	if p != "" {
		pc = strings.Split(p, "/")
	}
	if q != "" {
		qc = strings.Split(q, "/")
	}
	for i := 0; i < len(pc) && i < len(qc); i++ {
		if pc[i] != qc[i] {
			return pc[i] < qc[i]
		}
	}
	return len(pc) < len(qc)
}

// dfsPaths returns every path of depth <= depth over the component alphabet in
// the order of an actual depth-first traversal that visits children in
// lexicographic name order (the root, "", first).
func dfsPaths(components []string, depth int) []string {
	sorted := append([]string{}, components...)
	sort.Strings(sorted)
	var out []string
	var visit func(path string, d int)
	visit = func(path string, d int) {
		out = append(out, path)
		if d == depth {
			return
		}
		for _, c := range sorted {
			child := c
			if path != "" {
				child = path + "/" + c
			}
			visit(child, d+1)
		}
	}
	visit("", 0)
	return out
}

// ---- leg "select" ----

type c40session struct {
	Name   string
	Labels map[string]string
}

type c40query struct {
	All      bool     `json:",omitempty"`
	Specs    []string `json:",omitempty"` // "#i" = identifier of session i; anything else literal
	Selector string   `json:",omitempty"`
}

// labelSelectors: text and an independently written predicate (Kubernetes
// label selector semantics: != and notin also match when the key is absent).
var labelSelectors = []struct {
	text string
	pred func(l map[string]string) bool
}{
	{"k=a", func(l map[string]string) bool { return l["k"] == "a" }},
	{"k==a", func(l map[string]string) bool { return l["k"] == "a" }},
	{"k!=a", func(l map[string]string) bool { return l["k"] != "a" }},
	{"k", func(l map[string]string) bool { _, ok := l["k"]; return ok }},
	{"!k", func(l map[string]string) bool { _, ok := l["k"]; return !ok }},
	{"k in (a,b)", func(l map[string]string) bool { return l["k"] == "a" || l["k"] == "b" }},
	{"k notin (a)", func(l map[string]string) bool { return l["k"] != "a" }},
	{"k=a,j=a", func(l map[string]string) bool { return l["k"] == "a" && l["j"] == "a" }},
	{"j", func(l map[string]string) bool { _, ok := l["j"]; return ok }},
	{"k=b", func(l map[string]string) bool { return l["k"] == "b" }},
	{"k!=a,j=a", func(l map[string]string) bool { return l["k"] != "a" && l["j"] == "a" }},
	{"j notin (a),k", func(l map[string]string) bool { _, ok := l["k"]; return l["j"] != "a" && ok }},
	{"k in (c)", func(l map[string]string) bool { return false }},
}

const unknownIdentifier = "sync_ZZZZZZZZZZZZZZZZZZZZZZZZZZZZZZZZZZZZZZZZZZZ"

type liveSession struct {
	c40session
	id string
}

type selectWorld struct {
	t       *testing.T
	manager *synchronization.Manager
	rootA   string
	rootB   string
	live    []liveSession
}

func (w *selectWorld) create(s c40session) {
	alpha := &url.URL{Kind: url.Kind_Synchronization, Protocol: url.Protocol_Local, Path: w.rootA}
	beta := &url.URL{Kind: url.Kind_Synchronization, Protocol: url.Protocol_Local, Path: w.rootB}
	var labels map[string]string
	if len(s.Labels) > 0 {
		labels = map[string]string{}
		for k, v := range s.Labels {
			labels[k] = v
		}
	}
	id, err := w.manager.Create(context.Background(), alpha, beta, &synchronization.Configuration{}, &synchronization.Configuration{}, &synchronization.Configuration{}, s.Name, labels, true, "")
	if err != nil {
		w.t.Fatalf("INFRA: unable to create paused session: %v", err)
	}
	w.live = append(w.live, liveSession{s, id})
}

func (w *selectWorld) terminateLast() {
	last := w.live[len(w.live)-1]
	if err := w.manager.Terminate(context.Background(), &selection.Selection{Specifications: []string{last.id}}, ""); err != nil {
		w.t.Fatalf("INFRA: unable to terminate session: %v", err)
	}
	w.live = w.live[:len(w.live)-1]
}

// queries enumerates the selections for the current number of sessions.
func queriesFor(n int) []c40query {
	cands := []string{"n1", "n2", "zz", unknownIdentifier}
	for i := 0; i < n; i++ {
		cands = append(cands, fmt.Sprintf("#%d", i))
	}
	out := []c40query{{All: true}}
	for _, a := range cands {
		out = append(out, c40query{Specs: []string{a}})
		for _, b := range cands {
			out = append(out, c40query{Specs: []string{a, b}})
		}
	}
	for _, ls := range labelSelectors {
		out = append(out, c40query{Selector: ls.text})
	}
	return out
}

// judgeQuery runs one selection through the real Manager.List and compares it
// with the statement. It returns "" when it holds.
func (w *selectWorld) judgeQuery(q c40query) (what, class string) {
	sel := &selection.Selection{All: q.All, LabelSelector: q.Selector}
	for _, s := range q.Specs {
		if strings.HasPrefix(s, "#") {
			var i int
			fmt.Sscanf(s, "#%d", &i)
			sel.Specifications = append(sel.Specifications, w.live[i].id)
		} else {
			sel.Specifications = append(sel.Specifications, s)
		}
	}
	if err := sel.EnsureValid(); err != nil {
		w.t.Fatalf("INFRA: enumerated selection is not valid: %v", err)
	}
	// Expected selection, from the statement.
	expected := map[string]bool{}
	expectError := false
	switch {
	case q.All:
		for _, s := range w.live {
			expected[s.id] = true
		}
	case len(sel.Specifications) > 0:
		// "returns exactly the sessions matching at least one specification and
		// fails if any specification matches none"
		for _, spec := range sel.Specifications {
			matched := false
			for _, s := range w.live {
				if s.id == spec || (s.Name != "" && s.Name == spec) {
					expected[s.id] = true
					matched = true
				}
			}
			if !matched {
				expectError = true
			}
		}
	default:
		// "selecting by label selector returns exactly the sessions whose
		// labels satisfy it"
		for _, ls := range labelSelectors {
			if ls.text == q.Selector {
				for _, s := range w.live {
					if ls.pred(s.Labels) {
						expected[s.id] = true
					}
				}
			}
		}
	}
	_, states, err := w.manager.List(context.Background(), sel, 0)
	if expectError {
		if err == nil {
			return fmt.Sprintf("a specification matches no session but List succeeded with %d session(s)", len(states)), "select-missing-not-reported"
		}
		return "", "select-error"
	}
	if err != nil {
		return fmt.Sprintf("every specification matches but List failed: %v", err), "select-spurious-error"
	}
	got := map[string]bool{}
	for _, st := range states {
		if got[st.Session.Identifier] {
			return fmt.Sprintf("session %s listed twice", st.Session.Identifier), "select-duplicate"
		}
		got[st.Session.Identifier] = true
	}
	for id := range expected {
		if !got[id] {
			return fmt.Sprintf("session %s (index %d) should be selected but is not listed", id, w.indexOf(id)), "select-missing"
		}
	}
	for id := range got {
		if !expected[id] {
			return fmt.Sprintf("session %s (index %d) is listed but matches nothing", id, w.indexOf(id)), "select-extra"
		}
	}
	// The order of the listing is NOT judged here: these sessions are created
	// on the real clock, which the check does not own. Creation-time order is
	// decided by the "time" leg, where the clock is a synctest fake clock.
	// The listed sessions carry the names and labels they were created with.
	for _, st := range states {
		s := w.live[w.indexOf(st.Session.Identifier)]
		if st.Session.Name != s.Name || len(st.Session.Labels) != len(s.Labels) {
			return fmt.Sprintf("session %s listed with name %q labels %v, created with %q %v", s.id, st.Session.Name, st.Session.Labels, s.Name, s.Labels), "select-wrong-session"
		}
	}
	if len(states) == 0 {
		return "", "select-empty"
	}
	if len(states) == len(w.live) {
		return "", "select-everything"
	}
	return "", "select-subset"
}

func (w *selectWorld) indexOf(id string) int {
	for i, s := range w.live {
		if s.id == id {
			return i
		}
	}
	return -1
}

// ---- leg "truncate": scripted endpoints ----

// scriptedEndpoint is an in-memory synchronization endpoint: it reports a
// fixed tree and answers transitions with a fixed list of problems.
type scriptedEndpoint struct {
	content  *core.Entry
	problems []*core.Problem
}

func (s *scriptedEndpoint) Poll(ctx context.Context) error { <-ctx.Done(); return nil }
func (s *scriptedEndpoint) Scan(ctx context.Context, ancestor *core.Entry, full bool) (*core.Snapshot, error, bool) {
	return &core.Snapshot{Content: s.content, PreservesExecutability: true}, nil, false
}
func (s *scriptedEndpoint) Stage(paths []string, digests [][]byte) ([]string, []*rsync.Signature, rsync.Receiver, error) {
	return nil, nil, nil, nil // everything "already staged"
}
func (s *scriptedEndpoint) Supply(paths []string, signatures []*rsync.Signature, receiver rsync.Receiver) error {
	return fmt.Errorf("scripted endpoint: Supply not expected")
}
func (s *scriptedEndpoint) Transition(ctx context.Context, transitions []*core.Change) ([]*core.Entry, []*core.Problem, bool, error) {
	// Nothing is applied: every result is the old content, with the scripted problems.
	results := make([]*core.Entry, len(transitions))
	for i, tr := range transitions {
		results[i] = tr.Old
	}
	return results, s.problems, false, nil
}
func (s *scriptedEndpoint) Shutdown() error { return nil }

// scriptedHandler hands out scripted endpoints by URL path.
type scriptedHandler struct {
	mu      sync.Mutex
	scripts map[string]*scriptedEndpoint
}

func (h *scriptedHandler) Connect(ctx context.Context, logger *logging.Logger, u *url.URL, prompter, session string, version synchronization.Version, configuration *synchronization.Configuration, alpha bool) (synchronization.Endpoint, error) {
	h.mu.Lock()
	defer h.mu.Unlock()
	if ep, ok := h.scripts[u.Path]; ok {
		return ep, nil
	}
	return nil, fmt.Errorf("no script for %s", u.Path)
}

var theScriptedHandler = &scriptedHandler{scripts: map[string]*scriptedEndpoint{}}

// truncDirs are the directories the scripted trees use; their names make
// depth-first order differ from bytewise order of the whole path.
var truncDirs = []string{"a", "a-", "a.", "b"}

// pool returns up to 16 paths "<dir>/<tag><i>" in a fixed scrambled order.
func pool(tag string, n int) []string {
	var all []string
	for leaf := 0; leaf < 4; leaf++ {
		for _, d := range []string{"b", "a.", "a", "a-"} {
			all = append(all, fmt.Sprintf("%s/%s%d", d, tag, leaf))
		}
	}
	return all[:n]
}

func fileEntry(digest byte) *core.Entry {
	return &core.Entry{Kind: core.EntryKind_File, Digest: []byte{digest, 1, 2, 3, 4, 5, 6, 7, 8, 9, 10, 11, 12, 13, 14, 15, 16, 17, 18, 19}}
}

func put(root *core.Entry, path string, e *core.Entry) {
	parts := strings.Split(path, "/")
	root.Contents[parts[0]].Contents[parts[1]] = e
}

// buildScript builds the two trees and transition answers for the five counts
// and returns them with the expected full lists.
func buildScript(counts []int) (alpha, beta *scriptedEndpoint, scanA, scanB, transA, transB []string) {
	mkRoot := func() *core.Entry {
		root := &core.Entry{Kind: core.EntryKind_Directory, Contents: map[string]*core.Entry{}}
		for _, d := range truncDirs {
			// A common file keeps every directory present on both sides.
			root.Contents[d] = &core.Entry{Kind: core.EntryKind_Directory, Contents: map[string]*core.Entry{"z": fileEntry(9)}}
		}
		return root
	}
	ra, rb := mkRoot(), mkRoot()
	for _, p := range pool("c", counts[0]) { // differing files on both sides: conflicts
		put(ra, p, fileEntry(1))
		put(rb, p, fileEntry(2))
	}
	for _, p := range pool("s", counts[1]) {
		put(ra, p, &core.Entry{Kind: core.EntryKind_Problematic, Problem: "scripted scan problem"})
		scanA = append(scanA, p)
	}
	for _, p := range pool("t", counts[2]) {
		put(rb, p, &core.Entry{Kind: core.EntryKind_Problematic, Problem: "scripted scan problem"})
		scanB = append(scanB, p)
	}
	alpha, beta = &scriptedEndpoint{content: ra}, &scriptedEndpoint{content: rb}
	for _, p := range pool("u", counts[3]) { // only on beta: alpha must create them, and reports a problem for each
		put(rb, p, fileEntry(3))
		alpha.problems = append(alpha.problems, &core.Problem{Path: p, Error: "scripted transition problem"})
		transA = append(transA, p)
	}
	for _, p := range pool("v", counts[4]) {
		put(ra, p, fileEntry(4))
		beta.problems = append(beta.problems, &core.Problem{Path: p, Error: "scripted transition problem"})
		transB = append(transB, p)
	}
	return
}

// expectTruncated is the statement's clause for one list: sorted depth-first,
// at most 10 entries, and the number left out reported exactly.
func expectTruncated(full []string) (shown []string, excluded uint64) {
	s := append([]string{}, full...)
	sort.Slice(s, func(i, j int) bool { return refLess(s[i], s[j]) })
	if len(s) > 10 {
		return s[:10], uint64(len(s) - 10)
	}
	return s, 0
}

type truncWorld struct {
	t       *testing.T
	manager *synchronization.Manager
	serial  int
	worker  int
}

func pathsOfProblems(ps []*core.Problem) []string {
	var out []string
	for _, p := range ps {
		out = append(out, p.Path)
	}
	return out
}

// judgeCounts runs one scripted session to its first completed cycle and
// judges the listing.
func (w *truncWorld) judgeCounts(counts []int) (what string) {
	alpha, beta, scanA, scanB, transA, transB := buildScript(counts)
	// What the real reconciliation makes of these trees (the untruncated truth).
	_, _, _, conflicts := core.Reconcile(nil, alpha.content, beta.content, core.SynchronizationMode_SynchronizationModeTwoWaySafe)
	var confRoots []string
	for _, c := range conflicts {
		confRoots = append(confRoots, c.Root)
	}
	if len(confRoots) != counts[0] {
		w.t.Fatalf("INFRA: scripted trees give %d conflicts, %d intended", len(confRoots), counts[0])
	}
	w.serial++
	pa := fmt.Sprintf("/verif-script/%d/%d/alpha", w.worker, w.serial)
	pb := fmt.Sprintf("/verif-script/%d/%d/beta", w.worker, w.serial)
	theScriptedHandler.mu.Lock()
	theScriptedHandler.scripts[pa], theScriptedHandler.scripts[pb] = alpha, beta
	theScriptedHandler.mu.Unlock()
	defer func() {
		theScriptedHandler.mu.Lock()
		delete(theScriptedHandler.scripts, pa)
		delete(theScriptedHandler.scripts, pb)
		theScriptedHandler.mu.Unlock()
	}()
	ua := &url.URL{Kind: url.Kind_Synchronization, Protocol: url.Protocol_Local, Path: pa}
	ub := &url.URL{Kind: url.Kind_Synchronization, Protocol: url.Protocol_Local, Path: pb}
	id, err := w.manager.Create(context.Background(), ua, ub, &synchronization.Configuration{}, &synchronization.Configuration{}, &synchronization.Configuration{}, "", nil, false, "")
	if err != nil {
		w.t.Fatalf("INFRA: unable to create scripted session: %v", err)
	}
	sel := &selection.Selection{Specifications: []string{id}}
	defer w.manager.Terminate(context.Background(), sel, "")
	// Wait (event-driven, on the manager's own state index) for the first
	// completed cycle; the deadline is only a hang guard.
	ctx, cancel := context.WithTimeout(context.Background(), 5*time.Minute)
	defer cancel()
	var st *synchronization.State
	index := uint64(0)
	for {
		var states []*synchronization.State
		index, states, err = w.manager.List(ctx, sel, index)
		if err != nil {
			w.t.Fatalf("INFRA: List failed while waiting for the scripted session (counts %v): %v", counts, err)
		}
		if len(states) != 1 {
			w.t.Fatalf("INFRA: scripted session not listed")
		}
		st = states[0]
		if st.LastError != "" {
			w.t.Fatalf("INFRA: scripted session failed (counts %v): %s", counts, st.LastError)
		}
		if st.SuccessfulCycles >= 1 && st.Status == synchronization.Status_Watching {
			break
		}
	}
	check := func(name string, got []string, gotExcluded uint64, full []string) string {
		shown, excluded := expectTruncated(full)
		// "conflicts and problems are sorted in depth-first path order" /
		// "truncated lists report exactly how many entries were left out"
		if strings.Join(got, "\x00") != strings.Join(shown, "\x00") || len(got) != len(shown) {
			return fmt.Sprintf("%s: %d entries in total, listing shows %q, depth-first order limited to 10 is %q", name, len(full), got, shown)
		}
		if gotExcluded != excluded {
			return fmt.Sprintf("%s: %d entries in total, %d shown, listing says %d were left out (should be %d)", name, len(full), len(got), gotExcluded, excluded)
		}
		return ""
	}
	var confGot []string
	for _, c := range st.Conflicts {
		confGot = append(confGot, c.Root)
	}
	for _, v := range []string{
		check("conflicts", confGot, st.ExcludedConflicts, confRoots),
		check("alpha scan problems", pathsOfProblems(st.AlphaState.ScanProblems), st.AlphaState.ExcludedScanProblems, scanA),
		check("beta scan problems", pathsOfProblems(st.BetaState.ScanProblems), st.BetaState.ExcludedScanProblems, scanB),
		check("alpha transition problems", pathsOfProblems(st.AlphaState.TransitionProblems), st.AlphaState.ExcludedTransitionProblems, transA),
		check("beta transition problems", pathsOfProblems(st.BetaState.TransitionProblems), st.BetaState.ExcludedTransitionProblems, transB),
	} {
		if v != "" {
			return v
		}
	}
	return ""
}

// ---- leg "time": creation-time order on an owned clock ----

// timeInstants are the creation instants (ns after the fake-clock epoch, which
// sits on a whole second): they cross second boundaries with decreasing
// sub-second parts, share a second with different nanoseconds, and repeat.
var timeInstants = []int64{200e6, 900e6, 1100e6, 1900e6, 2000e6, 2000e6 + 50, 3500e6, 7000e6}

// judgeTimes creates paused sessions at the given instants of a synctest fake
// clock on a fresh Manager and judges the order of every kind of listing.
// "Listings are ordered by creation time": a session created at an earlier
// instant must be listed before one created later; sessions created at the
// same instant may come in either order.
func judgeTimes(t *testing.T, logger *logging.Logger, rootA, rootB string, offsets []int64) (what string) {
	synctest.Test(t, func(t *testing.T) {
		m, err := synchronization.NewManager(logger)
		if err != nil {
			what = "INFRA: unable to create manager: " + err.Error()
			return
		}
		defer m.Shutdown()
		start := time.Now()
		alpha := &url.URL{Kind: url.Kind_Synchronization, Protocol: url.Protocol_Local, Path: rootA}
		beta := &url.URL{Kind: url.Kind_Synchronization, Protocol: url.Protocol_Local, Path: rootB}
		at := map[string]int64{}
		var ids, names []string
		for i, off := range offsets {
			if d := time.Duration(off) - time.Since(start); d > 0 {
				time.Sleep(d)
			}
			if got := time.Since(start); got != time.Duration(off) {
				what = fmt.Sprintf("INFRA: fake clock at %v, wanted %v", got, time.Duration(off))
				return
			}
			name := fmt.Sprintf("t%d", i)
			id, err := m.Create(context.Background(), alpha, beta, &synchronization.Configuration{}, &synchronization.Configuration{}, &synchronization.Configuration{}, name, map[string]string{"k": "a"}, true, "")
			if err != nil {
				what = "INFRA: unable to create paused session: " + err.Error()
				return
			}
			at[id] = off
			ids = append(ids, id)
			names = append(names, name)
		}
		defer m.Terminate(context.Background(), &selection.Selection{All: true}, "")
		var reversedIDs, scrambled []string
		for i := len(ids) - 1; i >= 0; i-- {
			reversedIDs = append(reversedIDs, ids[i])
		}
		for i := range ids {
			if i%2 == 0 {
				scrambled = append(scrambled, names[len(names)-1-i/2])
			} else {
				scrambled = append(scrambled, ids[i/2])
			}
		}
		queries := []struct {
			label string
			sel   *selection.Selection
		}{
			{"all", &selection.Selection{All: true}},
			{"identifiers in reverse creation order", &selection.Selection{Specifications: reversedIDs}},
			{"names and identifiers mixed", &selection.Selection{Specifications: scrambled}},
			{"label selector", &selection.Selection{LabelSelector: "k=a"}},
		}
		for _, q := range queries {
			_, states, err := m.List(context.Background(), q.sel, 0)
			if err != nil {
				what = fmt.Sprintf("INFRA: List (%s) failed: %v", q.label, err)
				return
			}
			if len(states) != len(ids) {
				what = fmt.Sprintf("List (%s) returns %d of %d sessions", q.label, len(states), len(ids))
				return
			}
			var listed []string
			for _, st := range states {
				listed = append(listed, time.Duration(at[st.Session.Identifier]).String())
			}
			for i := 1; i < len(states); i++ {
				if at[states[i-1].Session.Identifier] > at[states[i].Session.Identifier] {
					what = fmt.Sprintf("sessions created at %v after the epoch are listed (%s) in the order %v", durations(offsets), q.label, listed)
					return
				}
			}
		}
	})
	return what
}

func durations(ns []int64) []string {
	var out []string
	for _, n := range ns {
		out = append(out, time.Duration(n).String())
	}
	return out
}

// timePatterns returns every non-decreasing sequence of timeInstants of
// length 2..maxLen.
func timePatterns(maxLen int) [][]int64 {
	var out [][]int64
	var rec func(prefix []int64, from int)
	rec = func(prefix []int64, from int) {
		if len(prefix) >= 2 {
			out = append(out, append([]int64{}, prefix...))
		}
		if len(prefix) == maxLen {
			return
		}
		for i := from; i < len(timeInstants); i++ {
			rec(append(prefix, timeInstants[i]), i)
		}
	}
	rec(nil, 0)
	return out
}

// ---- the test ----

func c40sessionConfigs(thorough bool) []c40session {
	names := []string{"", "n1", "n2"}
	labels := []map[string]string{nil, {"k": "a"}, {"k": "b"}, {"k": "a", "j": "a"}}
	if thorough {
		labels = append(labels, map[string]string{"j": "a"}, map[string]string{"k": "b", "j": "a"})
	}
	var out []c40session
	for _, n := range names {
		for _, l := range labels {
			out = append(out, c40session{n, l})
		}
	}
	return out
}

func TestC40(t *testing.T) {
	r := vr.New(t, "C40", "exploration")
	defer r.Finish()
	os.Setenv("MUTAGEN_DATA_DIRECTORY", t.TempDir())
	synchronization.ProtocolHandlers[url.Protocol_Local] = theScriptedHandler
	logger := logging.NewLogger(logging.LevelDisabled, io.Discard)
	rootA, rootB := t.TempDir(), t.TempDir()
	// All managers share one data directory (it is selected by a process-wide
	// environment variable) and a new manager loads whatever sessions exist on
	// disk, so every manager is created up front, while the directory is still
	// empty, and handed out from a pool. A worker holds one manager and may
	// borrow a second, clean one to re-run a violation.
	managers := make(chan *synchronization.Manager, 2*vr.Workers()+2)
	for i := 0; i < cap(managers); i++ {
		m, err := synchronization.NewManager(logger)
		if err != nil {
			t.Fatalf("INFRA: unable to create manager: %v", err)
		}
		managers <- m
	}
	newManager := func() *synchronization.Manager { return <-managers }
	releaseManager := func(m *synchronization.Manager) { managers <- m }

	orderComponents := []string{"a", "a.", "a-", "b"}
	truncValues := []int{0, 10, 11}
	if vr.Thorough() {
		orderComponents = []string{"a", "a.", "a-", "b", "A", "ab", "é"}
		truncValues = []int{0, 9, 10, 11, 12}
	}
	configs := c40sessionConfigs(vr.Thorough())

	// -- replay --
	if raw := vr.ReplayCase(); raw != nil {
		var c c40case
		json.Unmarshal(raw, &c)
		switch c.Leg {
		case "order":
			p, q := c.Paths[0], c.Paths[1]
			t.Logf("replay order: Less(%q,%q)=%v reference %v; Less(%q,%q)=%v reference %v", p, q, fastpath.Less(p, q), refLess(p, q), q, p, fastpath.Less(q, p), refLess(q, p))
			r.Case(vr.J(c), true)
			if fastpath.Less(p, q) != refLess(p, q) || fastpath.Less(q, p) != refLess(q, p) {
				r.Violate("order "+p+" | "+q, "fastpath.Less differs from depth-first order", c, nil)
			}
		case "select":
			w := &selectWorld{t: t, manager: newManager(), rootA: rootA, rootB: rootB}
			for _, s := range c.Sessions {
				w.create(s)
			}
			what, class := w.judgeQuery(*c.Query)
			t.Logf("replay select %s: class=%s verdict=%q", vr.J(c), class, what)
			r.Case(vr.J(c), true)
			if what != "" {
				r.Violate("select "+vr.J(c.Sessions)+" "+vr.J(c.Query), what, c, nil)
			}
			for len(w.live) > 0 {
				w.terminateLast()
			}
		case "time":
			what := judgeTimes(t, logger, rootA, rootB, c.Offsets)
			t.Logf("replay time %v: verdict=%q", durations(c.Offsets), what)
			r.Case(vr.J(c), true)
			if what != "" {
				r.Violate("time "+vr.J(c.Offsets), what, c, nil)
			}
		case "truncate":
			w := &truncWorld{t: t, manager: newManager(), worker: 99}
			what := w.judgeCounts(c.Counts)
			t.Logf("replay truncate %v: verdict=%q", c.Counts, what)
			r.Case(vr.J(c), true)
			if what != "" {
				r.Violate("truncate "+vr.J(c.Counts), what, c, nil)
			}
		}
		return
	}

	r.Rule(fmt.Sprintf("order: all paths of depth <= 3 over components %q (incl. the root): fastpath.Less on every ordered pair against the component-wise reference, sort by Less against an actual depth-first traversal, and irreflexivity/asymmetry/transitivity/totality on every triple; select: every creation sequence of <= 3 paused sessions over %d (name, labels) configurations on a real Manager, each judged against every query (All; every specification list of length 1..2 over {n1,n2,unknown name,unknown identifier,identifier of each session}; %d label selectors); truncate: running sessions on scripted in-memory endpoints for every vector of list sizes (conflicts, alpha/beta scan problems, alpha/beta transition problems) in %v^5, paths spread over directories a, a-, a., b; time: inside a testing/synctest bubble (fake clock) every non-decreasing sequence of 2..3 (thorough 4) creation instants from {0.2s, 0.9s, 1.1s, 1.9s, 2.0s, 2.0s+50ns, 3.5s, 7.0s} (second boundaries with decreasing sub-second parts, same second with different nanoseconds, equal instants), each listed by All, by identifiers in reverse order, by mixed names/identifiers and by label selector: a session created earlier must be listed earlier, equal instants in either order. Non-trivial: time patterns with at least two different instants; order pairs of distinct paths; select queries with a non-empty expected selection or an expected failure; truncate vectors with at least one list over 10", orderComponents, len(configs), len(labelSelectors), truncValues))
	r.Assume("label selector semantics are the Kubernetes ones for the 13 enumerated selectors; selector syntax beyond them is not covered",
		"Selection.EnsureValid (applied by the service before the manager) holds for every enumerated selection; empty specifications are therefore not enumerated",
		"the scripted endpoints replace the local protocol handler in this process; truncation is judged after the first completed cycle",
		"creation-time order is judged only on the fake clock of the time leg (owned creation instants); listings of sessions created on the real clock are not judged for order")

	// -- leg order --
	paths := dfsPaths(orderComponents, 3)
	{
		byLess := append([]string{}, paths...)
		// Start from a different order than the expected one.
		sort.Sort(sort.Reverse(sort.StringSlice(byLess)))
		sort.SliceStable(byLess, func(i, j int) bool { return fastpath.Less(byLess[i], byLess[j]) })
		r.Case("order|sort", true)
		if vr.J(byLess) != vr.J(paths) {
			first := 0
			for first < len(paths) && byLess[first] == paths[first] {
				first++
			}
			r.Violate("order sort", fmt.Sprintf("sorting by fastpath.Less differs from the depth-first traversal at position %d: %q vs %q", first, byLess[first], paths[first]), c40case{Leg: "order", Paths: []string{byLess[first], paths[first]}}, nil)
		}
	}
	vr.Parallel(len(paths), func(i int) {
		l := r.Local()
		defer l.Flush()
		p := paths[i]
		for j, q := range paths {
			got, want := fastpath.Less(p, q), refLess(p, q)
			l.Case("order|"+p+"|"+q, i != j)
			if got != want {
				l.Outcome("order-differs")
				p, q := p, q
				r.Violate("order "+p+" | "+q, fmt.Sprintf("fastpath.Less(%q,%q)=%v, depth-first order says %v", p, q, got, want), c40case{Leg: "order", Paths: []string{p, q}}, func() bool { return fastpath.Less(p, q) != refLess(p, q) })
				continue
			}
			l.Outcome(map[bool]string{true: "order-less", false: "order-not-less"}[got])
			// Strict weak (here: total) order laws, directly on the implementation.
			if i == j && got {
				r.Violate("order irreflexive "+p, "Less(p,p) is true", c40case{Leg: "order", Paths: []string{p, p}}, nil)
			}
			if i != j && got == fastpath.Less(q, p) {
				r.Violate("order total "+p+" | "+q, fmt.Sprintf("Less(%q,%q) and Less(%q,%q) are both %v", p, q, q, p, got), c40case{Leg: "order", Paths: []string{p, q}}, nil)
			}
			if got {
				for _, s := range paths {
					if fastpath.Less(q, s) && !fastpath.Less(p, s) {
						r.Violate("order transitive "+p+" | "+q+" | "+s, "Less is not transitive", c40case{Leg: "order", Paths: []string{p, q, s}}, nil)
					}
				}
				l.Case("", false) // the triples of this pair, counted as one evaluation
			}
		}
	})

	// -- leg select --
	selectNodes := int64(0)
	var nodesMu sync.Mutex
	vr.Parallel(len(configs)+1, func(shard int) {
		l := r.Local()
		defer l.Flush()
		w := &selectWorld{t: t, manager: newManager(), rootA: rootA, rootB: rootB}
		nodes := int64(0)
		evaluate := func() {
			nodes++
			var sess []c40session
			for _, s := range w.live {
				sess = append(sess, s.c40session)
			}
			for _, q := range queriesFor(len(w.live)) {
				q := q
				what, class := w.judgeQuery(q)
				l.Outcome(class)
				nontrivial := class != "select-empty"
				c := c40case{Leg: "select", Sessions: sess, Query: &q}
				key := "select " + vr.J(sess) + " " + vr.J(q)
				l.Case(key, nontrivial)
				if what != "" {
					r.Violate(key, what, c, func() bool {
						w2 := &selectWorld{t: t, manager: newManager(), rootA: rootA, rootB: rootB}
						for _, s := range sess {
							w2.create(s)
						}
						again, _ := w2.judgeQuery(q)
						for len(w2.live) > 0 {
							w2.terminateLast()
						}
						releaseManager(w2.manager)
						return again != ""
					})
				}
			}
		}
		if shard == len(configs) {
			evaluate() // the empty set of sessions
		} else {
			var rec func(depth int)
			rec = func(depth int) {
				evaluate()
				if depth == 3 {
					return
				}
				for _, c := range configs {
					w.create(c)
					rec(depth + 1)
					w.terminateLast()
				}
			}
			w.create(configs[shard])
			rec(1)
			w.terminateLast()
		}
		releaseManager(w.manager)
		nodesMu.Lock()
		selectNodes += nodes
		nodesMu.Unlock()
	})
	r.Set("select_session_sets", selectNodes)

	// -- leg truncate --
	nv := len(truncValues)
	total := 1
	for i := 0; i < 5; i++ {
		total *= nv
	}
	shards := nv * nv
	truncRuns := int64(0)
	vr.Parallel(shards, func(shard int) {
		l := r.Local()
		defer l.Flush()
		w := &truncWorld{t: t, manager: newManager(), worker: shard}
		n := int64(0)
		for rest := 0; rest < total/shards; rest++ {
			idx := shard*(total/shards) + rest
			counts := make([]int, 5)
			over := false
			for k := 4; k >= 0; k-- {
				counts[k] = truncValues[idx%nv]
				idx /= nv
				over = over || counts[k] > 10
			}
			what := w.judgeCounts(counts)
			n++
			l.Case("truncate|"+vr.J(counts), over)
			if what != "" {
				l.Outcome("truncate-wrong")
				counts := counts
				r.Violate("truncate "+vr.J(counts), what, c40case{Leg: "truncate", Counts: counts}, func() bool {
					w2 := &truncWorld{t: t, manager: newManager(), worker: 1000 + shard}
					defer releaseManager(w2.manager)
					return w2.judgeCounts(counts) != ""
				})
			} else {
				l.Outcome(map[bool]string{true: "truncate-truncated", false: "truncate-complete"}[over])
			}
		}
		releaseManager(w.manager)
		nodesMu.Lock()
		truncRuns += n
		nodesMu.Unlock()
	})
	r.Set("truncate_sessions_run", truncRuns)
	for len(managers) > 0 {
		(<-managers).Shutdown()
	}

	// -- leg time -- (serial: every pattern is one synctest bubble with its own
	// Manager on a data directory of its own)
	os.Setenv("MUTAGEN_DATA_DIRECTORY", t.TempDir())
	maxLen := 3
	if vr.Thorough() {
		maxLen = 4
	}
	patterns := timePatterns(maxLen)
	for _, offsets := range patterns {
		offsets := offsets
		what := judgeTimes(t, logger, rootA, rootB, offsets)
		if strings.HasPrefix(what, "INFRA:") {
			t.Fatalf("%s", what)
		}
		distinct := false
		for i := 1; i < len(offsets); i++ {
			distinct = distinct || offsets[i] != offsets[i-1]
		}
		r.Case("time|"+vr.J(offsets), distinct)
		if what != "" {
			r.Outcome("time-misordered")
			r.Violate("time "+vr.J(offsets), what, c40case{Leg: "time", Offsets: offsets}, func() bool { return judgeTimes(t, logger, rootA, rootB, offsets) != "" })
		} else {
			r.Outcome(map[bool]string{true: "time-ordered", false: "time-all-equal"}[distinct])
		}
	}
	r.Set("time_patterns_run", len(patterns))

	r.Sample(c40case{Leg: "order", Paths: []string{"a/b", "a-/b"}})
	r.Sample(c40case{Leg: "select", Sessions: []c40session{{"n1", map[string]string{"k": "a"}}, {"n1", nil}}, Query: &c40query{Specs: []string{"n1", "#1"}}})
	r.Sample(c40case{Leg: "truncate", Counts: []int{11, 0, 10, 11, 0}})
	r.Sample(c40case{Leg: "time", Offsets: []int64{900e6, 1100e6, 2000e6 + 50}})
}
