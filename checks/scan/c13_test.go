//go:build verif

package scan

import (
	"encoding/json"
	"fmt"
	"os"
	"path/filepath"
	"runtime/debug"
	"sort"
	"strings"
	"sync/atomic"
	"syscall"
	"testing"
	"time"

	"google.golang.org/protobuf/proto"

	"github.com/mutagen-io/mutagen/pkg/synchronization/core"
	"github.com/mutagen-io/mutagen/pkg/synchronization/core/ignore"
	dockerignore "github.com/mutagen-io/mutagen/pkg/synchronization/core/ignore/docker"

	"verif/internal/vr"
)

// ---- harness model of the tree on disk (pure; used to enumerate the enabled
// edits and to compute which paths an edit creates, deletes or modifies) ----

// mnode is one entry of the model. Kind: 'f' file, 'd' directory, 'l' link,
// 'o' other (FIFO).
type mnode struct {
	Kind   byte
	Data   string // file content
	Exec   bool
	Target string
	Mtime  int64 // file modification time, seconds after mtimeBase
}

// model maps root-relative paths to entries; the root directory is implicit.
type model map[string]*mnode

func (m model) clone() model {
	c := make(model, len(m))
	for p, n := range m {
		cp := *n
		c[p] = &cp
	}
	return c
}

func parentOf(p string) string {
	if i := strings.LastIndexByte(p, '/'); i >= 0 {
		return p[:i]
	}
	return ""
}

func (m model) isDir(p string) bool {
	if p == "" {
		return m[""] == nil // the root is a directory unless the model says it is a file
	}
	n := m[p]
	return n != nil && n.Kind == 'd'
}

// subtree returns p and everything below it, sorted.
func (m model) subtree(p string) []string {
	var out []string
	for q := range m {
		if q == p || strings.HasPrefix(q, p+"/") {
			out = append(out, q)
		}
	}
	sort.Strings(out)
	return out
}

func (m model) hasChildren(p string) bool {
	for q := range m {
		if strings.HasPrefix(q, p+"/") {
			return true
		}
	}
	return false
}

// c13Universe is the set of paths edits may touch: names {a,d} in the root,
// {x,e} one level down, {z} two levels down.
var c13Universe = []string{"a", "d", "a/x", "a/e", "d/x", "d/e", "a/x/z", "a/e/z", "d/x/z", "d/e/z"}

// c13op is one external edit of the tree.
type c13op struct {
	Kind string // mkfile mkdir mklink rm mv edit grow chmod swap touch
	P    string
	Q    string `json:",omitempty"`
}

func (o c13op) String() string {
	if o.Q != "" {
		return o.Kind + " " + o.P + " " + o.Q
	}
	return o.Kind + " " + o.P
}

// world is the model plus the two counters that make edits deterministic:
// clk orders modification times, gen numbers file contents.
type world struct {
	m   model
	clk int64
	gen int
	uni []string // the paths edits may touch (nil = c13Universe)
	// ign selects the ignorer used by every scan of this tree (index into
	// c13Ignores; 0 = Mutagen syntax without patterns).
	ign int
	// kinds, when non-nil, restricts the edit kinds (keeps length-3 histories
	// of the ignore trees affordable in the quick tier).
	kinds map[string]bool
	// maxLen, when non-zero, is the longest edit sequence run on this tree.
	maxLen int
}

func (w *world) clone() *world {
	return &world{w.m.clone(), w.clk, w.gen, w.uni, w.ign, w.kinds, w.maxLen}
}

// c13Ignores are the ignore configurations. Docker syntax with a negation
// beneath an excluded directory makes that directory a phantom directory that
// is still traversed; Mutagen syntax with a negation re-includes one file.
var c13Ignores = []struct {
	Syntax   string
	Patterns []string
}{
	{"mutagen", nil},
	{"docker", []string{"d/e", "!d/e/z"}}, // d tracked, d/e phantom, d/e/z tracked, d/e/j masked
	{"docker", []string{"d", "!d/e/z"}},   // d and d/e phantom, d/x masked
	{"mutagen", []string{"z", "!d/e/z", "j"}},
}

// c13IgnoreUniverse is what edits may touch in the ignore trees.
var c13IgnoreUniverse = []string{"a", "d/x", "d/e", "d/e/z", "d/e/j"}

func ignorerFor(t testing.TB, cfg int) ignore.Ignorer {
	c := c13Ignores[cfg]
	if c.Syntax == "docker" {
		i, err := dockerignore.NewIgnorer(c.Patterns)
		if err != nil {
			t.Fatalf("INFRA: docker ignorer: %v", err)
		}
		return i
	}
	return newIgnorer(t, c.Patterns)
}

func (w *world) universe() []string {
	if w.uni != nil {
		return w.uni
	}
	return c13Universe
}

// c13NamesakeUniverse repeats names across levels: d and e in the root, d, e
// and x below them, d, x and z below those.
var c13NamesakeUniverse = []string{"d", "e", "d/d", "d/x", "e/d", "e/x", "d/d/x", "d/d/d", "e/d/x", "e/d/z"}

func (w *world) freshData() string { w.gen++; return fmt.Sprintf("c%03d", w.gen) } // always 4 bytes
func (w *world) tick() int64       { w.clk++; return w.clk }

// enabled lists, in a fixed order, the edits applicable to the current model.
func (w *world) enabled() []c13op {
	all := w.enabledAll()
	if w.kinds == nil {
		return all
	}
	var out []c13op
	for _, o := range all {
		if w.kinds[o.Kind] {
			out = append(out, o)
		}
	}
	return out
}

func (w *world) enabledAll() []c13op {
	var out []c13op
	m := w.m
	if m[""] != nil {
		// The root itself is a regular file: only in-place edits of it.
		return []c13op{{Kind: "edit"}, {Kind: "grow"}, {Kind: "chmod"}, {Kind: "swap"}, {Kind: "touch"}}
	}
	for _, p := range w.universe() {
		n := m[p]
		if n == nil {
			if m.isDir(parentOf(p)) {
				out = append(out, c13op{Kind: "mkfile", P: p}, c13op{Kind: "mkdir", P: p}, c13op{Kind: "mklink", P: p})
			}
			continue
		}
		out = append(out, c13op{Kind: "rm", P: p})
		if n.Kind == 'f' {
			out = append(out, c13op{Kind: "edit", P: p}, c13op{Kind: "grow", P: p}, c13op{Kind: "chmod", P: p},
				c13op{Kind: "swap", P: p}, c13op{Kind: "touch", P: p})
		}
		for _, q := range w.universe() {
			if q == p || strings.HasPrefix(q, p+"/") || strings.HasPrefix(p, q+"/") || !m.isDir(parentOf(q)) {
				continue
			}
			// The moved subtree must stay inside the universe's depth (3 levels).
			deepest := 0
			for _, s := range m.subtree(p) {
				if d := strings.Count(s, "/") - strings.Count(p, "/"); d > deepest {
					deepest = d
				}
			}
			if strings.Count(q, "/")+deepest > 2 {
				continue
			}
			// rename(2): a non-directory replaces a non-directory, a directory
			// replaces an empty directory.
			if t := m[q]; t != nil {
				if n.Kind == 'd' {
					if t.Kind != 'd' || m.hasChildren(q) {
						continue
					}
				} else if t.Kind == 'd' {
					continue
				}
			}
			out = append(out, c13op{Kind: "mv", P: p, Q: q})
		}
	}
	return out
}

// apply performs the edit on the model and returns the paths it created,
// deleted or modified — what a recursive watcher would report ("every created,
// deleted or modified path is reported"). Ancestors are deliberately NOT
// included: closing the set over ancestors is the scanner's job.
func (w *world) apply(o c13op) []string {
	m := w.m
	touched := map[string]bool{}
	switch o.Kind {
	case "mkfile":
		m[o.P] = &mnode{Kind: 'f', Data: w.freshData(), Mtime: w.tick()}
		touched[o.P] = true
	case "mkdir":
		m[o.P] = &mnode{Kind: 'd'}
		touched[o.P] = true
	case "mklink":
		m[o.P] = &mnode{Kind: 'l', Target: "t"}
		touched[o.P] = true
	case "rm":
		for _, s := range m.subtree(o.P) {
			touched[s] = true
			delete(m, s)
		}
	case "edit": // same size, different bytes, later mtime
		n := m[o.P]
		n.Data, n.Mtime = w.freshData()+n.Data[4:], w.tick()
		touched[o.P] = true
	case "grow": // different size
		n := m[o.P]
		n.Data, n.Mtime = n.Data+"+", w.tick()
		touched[o.P] = true
	case "chmod": // content unchanged, mtime unchanged
		m[o.P].Exec = !m[o.P].Exec
		touched[o.P] = true
	case "swap": // same size, SAME mtime, different bytes, different identity (new inode renamed over)
		n := m[o.P]
		n.Data = w.freshData() + n.Data[4:]
		touched[o.P] = true
	case "touch": // mtime only
		m[o.P].Mtime = w.tick()
		touched[o.P] = true
	case "mv":
		for _, s := range m.subtree(o.Q) { // replaced target
			touched[s] = true
			delete(m, s)
		}
		for _, s := range m.subtree(o.P) {
			touched[s] = true
			ns := o.Q + s[len(o.P):]
			touched[ns] = true
			m[ns] = m[s]
			delete(m, s)
		}
	default:
		panic("unknown op " + o.Kind)
	}
	out := make([]string, 0, len(touched))
	for p := range touched {
		out = append(out, p)
	}
	sort.Strings(out)
	return out
}

// ---- the same edits on disk ----

const mtimeBase = 1_500_000_000

func setMtime(p string, sec int64) error {
	t := time.Unix(mtimeBase+sec, 0)
	return os.Chtimes(p, t, t)
}

func fileMode(exec bool) os.FileMode {
	if exec {
		return 0o700
	}
	return 0o600
}

// writeNode creates the model entry n at absolute path p.
func writeNode(p string, n *mnode) error {
	switch n.Kind {
	case 'f':
		if err := os.WriteFile(p, []byte(n.Data), 0o600); err != nil {
			return err
		}
		if err := os.Chmod(p, fileMode(n.Exec)); err != nil {
			return err
		}
		return setMtime(p, n.Mtime)
	case 'd':
		return os.Mkdir(p, 0o700)
	case 'l':
		return os.Symlink(n.Target, p)
	case 'o':
		return mkfifo(p)
	}
	return fmt.Errorf("bad kind %c", n.Kind)
}

// materializeModel writes the whole model under root (parents first).
func materializeModel(root string, m model) error {
	if n := m[""]; n != nil {
		return writeNode(root, n)
	}
	if err := os.Mkdir(root, 0o700); err != nil {
		return err
	}
	paths := make([]string, 0, len(m))
	for p := range m {
		paths = append(paths, p)
	}
	sort.Strings(paths)
	for _, p := range paths {
		if err := writeNode(filepath.Join(root, p), m[p]); err != nil {
			return err
		}
	}
	return nil
}

// applyOnDisk performs edit o on disk; after is the model AFTER the edit
// (it carries the new contents and modification times).
func applyOnDisk(root string, o c13op, after model) error {
	p := filepath.Join(root, o.P)
	switch o.Kind {
	case "mkfile", "mkdir", "mklink":
		return writeNode(p, after[o.P])
	case "rm":
		return os.RemoveAll(p)
	case "edit", "grow":
		n := after[o.P]
		// Rewrite in place (same inode), then stamp the strictly later mtime.
		if err := os.WriteFile(p, []byte(n.Data), 0o600); err != nil {
			return err
		}
		return setMtime(p, n.Mtime)
	case "chmod":
		return os.Chmod(p, fileMode(after[o.P].Exec))
	case "touch":
		return setMtime(p, after[o.P].Mtime)
	case "swap":
		// New file with the old modification time and size, renamed over the
		// old one. The old inode is kept allocated by a hard link outside the
		// root for the rest of the case, so no later file can be given the same
		// identity: "every content change alters ... identity" holds by
		// construction (without this, ext4 hands a freed inode number to the
		// next created file and two swaps in a row can restore the identity).
		n := after[o.P]
		grave := filepath.Join(filepath.Dir(root), "graveyard")
		if err := os.MkdirAll(grave, 0o700); err != nil {
			return err
		}
		for i := 0; ; i++ {
			err := os.Link(p, filepath.Join(grave, fmt.Sprintf("old%d", i)))
			if err == nil {
				break
			}
			if !os.IsExist(err) {
				return err
			}
		}
		tmp := filepath.Join(grave, "staging")
		if err := os.WriteFile(tmp, []byte(n.Data), 0o600); err != nil {
			return err
		}
		if err := os.Chmod(tmp, fileMode(n.Exec)); err != nil {
			return err
		}
		if err := setMtime(tmp, n.Mtime); err != nil {
			return err
		}
		return os.Rename(tmp, p)
	case "mv":
		// rename(2) directly: os.Rename refuses to replace an (empty) directory.
		return syscall.Rename(p, filepath.Join(root, o.Q))
	}
	return fmt.Errorf("unknown op %s", o.Kind)
}

// verifyDisk is a harness self-check: the disk must be what the model says.
func verifyDisk(root string, m model) error {
	seen := map[string]bool{}
	err := filepath.Walk(root, func(abs string, fi os.FileInfo, err error) error {
		if err != nil {
			return err
		}
		rel, _ := filepath.Rel(root, abs)
		if rel == "." {
			if m[""] == nil {
				return nil // implicit root directory
			}
			rel = ""
		}
		n := m[rel]
		if n == nil {
			return fmt.Errorf("disk has %s, model does not", rel)
		}
		seen[rel] = true
		switch n.Kind {
		case 'f':
			data, err := os.ReadFile(abs)
			if err != nil {
				return err
			}
			if !fi.Mode().IsRegular() || string(data) != n.Data || (fi.Mode().Perm()&0o100 != 0) != n.Exec || fi.ModTime().Unix() != mtimeBase+n.Mtime {
				return fmt.Errorf("file %s differs from the model", rel)
			}
		case 'd':
			if !fi.IsDir() {
				return fmt.Errorf("%s is not a directory", rel)
			}
		case 'l':
			if t, err := os.Readlink(abs); err != nil || t != n.Target {
				return fmt.Errorf("link %s differs from the model", rel)
			}
		}
		return nil
	})
	if err != nil {
		return err
	}
	if len(seen) != len(m) {
		return fmt.Errorf("disk has %d entries, model %d", len(seen), len(m))
	}
	return nil
}

// ---- base trees ----

// c13Bases generates the 3 x 8 base trees plus a root that is a file.
func c13Bases() []*world { return c13BasesFor(vr.Thorough()) }

func c13BasesFor(thorough bool) []*world {
	var out []*world
	for av := 0; av < 3; av++ {
		for dv := 0; dv < 8; dv++ {
			w := &world{m: model{}}
			file := func(p string, exec bool) {
				w.m[p] = &mnode{Kind: 'f', Data: w.freshData(), Exec: exec, Mtime: w.tick()}
			}
			dir := func(p string) { w.m[p] = &mnode{Kind: 'd'} }
			switch av {
			case 1:
				file("a", false)
			case 2:
				dir("a")
				file("a/x", false)
			}
			switch dv {
			case 1:
				dir("d")
			case 2:
				dir("d")
				file("d/x", false)
			case 3:
				dir("d")
				dir("d/e")
			case 4:
				dir("d")
				dir("d/e")
				file("d/e/z", false)
			case 5:
				dir("d")
				file("d/x", true)
				dir("d/e")
				file("d/e/z", false)
			case 6:
				dir("d")
				w.m["d/x"] = &mnode{Kind: 'l', Target: "e/z"}
				dir("d/e")
				file("d/e/z", false)
			case 7:
				dir("d")
				w.m["d/x"] = &mnode{Kind: 'o'}
				dir("d/e")
				file("d/e/z", true)
			}
			out = append(out, w)
		}
	}
	// One more: the synchronization root is itself a regular file.
	w := &world{m: model{}}
	w.m[""] = &mnode{Kind: 'f', Data: w.freshData(), Mtime: w.tick()}
	out = append(out, w)
	// Trees in which a name recurs at different levels with different content
	// (lib/ and app/lib/), edited over c13NamesakeUniverse.
	namesake := func(build func(file func(string, bool), dir func(string))) {
		w := &world{m: model{}, uni: c13NamesakeUniverse}
		build(func(p string, exec bool) {
			w.m[p] = &mnode{Kind: 'f', Data: w.freshData(), Exec: exec, Mtime: w.tick()}
		}, func(p string) { w.m[p] = &mnode{Kind: 'd'} })
		out = append(out, w)
	}
	namesake(func(file func(string, bool), dir func(string)) { // d/{x, d/{x}}
		dir("d")
		file("d/x", false)
		dir("d/d")
		file("d/d/x", true)
	})
	namesake(func(file func(string, bool), dir func(string)) { // d/{x}, e/{x, d/{x}}
		dir("d")
		file("d/x", false)
		dir("e")
		file("e/x", false)
		dir("e/d")
		file("e/d/x", true)
	})
	namesake(func(file func(string, bool), dir func(string)) { // d/{x, d/{d}}, e/{d/{z}}: different shapes under the same name
		dir("d")
		file("d/x", false)
		dir("d/d")
		file("d/d/d", false)
		dir("e")
		dir("e/d")
		file("e/d/z", false)
	})
	namesake(func(file func(string, bool), dir func(string)) { // a file and a directory share a name: d (file), e/{x, d/{x}}
		file("d", false)
		dir("e")
		file("e/x", false)
		dir("e/d")
		file("e/d/x", false)
	})
	namesake(func(file func(string, bool), dir func(string)) { // e (dir) with e/d a file, d (dir) with d/d a dir
		dir("d")
		dir("d/d")
		file("d/d/x", false)
		file("d/x", false)
		dir("e")
		file("e/d", true)
		file("e/x", false)
	})
	// Ignore trees: d/{x, e/{z, j}} variants under each non-trivial ignore
	// configuration. With the edit kinds restricted to four they are run up to
	// length 3 (chains of three accelerated scans; quick: only under the first
	// Docker configuration, the others up to length 2); thorough adds the same
	// trees with every edit kind up to length 2.
	four := map[string]bool{"mkfile": true, "rm": true, "edit": true, "mkdir": true}
	addIgnoreTrees := func(kinds map[string]bool, maxLen func(cfg int) int) {
		for cfg := 1; cfg < len(c13Ignores); cfg++ {
			for shape := 0; shape < 3; shape++ {
				w := &world{m: model{}, uni: c13IgnoreUniverse, ign: cfg, kinds: kinds, maxLen: maxLen(cfg)}
				file := func(p string) { w.m[p] = &mnode{Kind: 'f', Data: w.freshData(), Mtime: w.tick()} }
				dir := func(p string) { w.m[p] = &mnode{Kind: 'd'} }
				if shape != 1 {
					file("a")
				}
				dir("d")
				if shape != 2 {
					file("d/x")
				}
				dir("d/e")
				file("d/e/z")
				file("d/e/j")
				out = append(out, w)
			}
		}
	}
	if thorough {
		addIgnoreTrees(four, func(int) int { return 3 })
		addIgnoreTrees(nil, func(int) int { return 2 })
	} else {
		addIgnoreTrees(four, func(cfg int) int {
			if cfg == 1 {
				return 3
			}
			return 2
		})
	}
	return out
}

// ---- observers: each keeps the state an endpoint keeps between scans ----

// observer holds what endpoint/local keeps: last snapshot, digest cache,
// ignore cache and the accumulated recheck paths.
type observer struct {
	schedule uint // bit i set = scan after edit i (the last edit always scans)
	snap     *core.Snapshot
	cache    *core.Cache
	ic       ignore.IgnoreCache
	pending  map[string]bool
}

type c13case struct {
	Base int
	Ops  []c13op
	Sym  int
	Perm int
}

// c13misc are recheck paths that name nothing on disk (or lie below a file).
var c13misc = []string{"q", "q/r", "d/q", "a/x/z/deeper"}

// supersets says which supersets "reported paths ∪ S" of the reported paths
// are additionally tried as recheck sets at the final scan of a chain (the
// property holds for any recheck set that contains every changed path).
type supersets struct {
	// Level 0: none. Level 1: S from the ancestors (incl. the root "") of the
	// reported paths, only for the chain that scans once at the end. Level 2:
	// S from ancestors, their and the reported paths' siblings, for every
	// chain, plus each c13misc path alone.
	Level int
	// MaxS bounds |S|; the full ancestor chain is always tried as well.
	MaxS int
	// All additionally tries every subset of ancestors ∪ siblings (first 10).
	All bool
}

// supersetsOf lists the sets S (sorted slices) for one recheck set.
func supersetsOf(recheck map[string]bool, w *world, sp supersets) [][]string {
	m := w.m
	if sp.Level == 0 {
		return nil
	}
	anc := map[string]bool{}
	for p := range recheck {
		for p != "" {
			p = parentOf(p)
			if !recheck[p] {
				anc[p] = true
			}
		}
	}
	var cands []string
	for p := range anc {
		cands = append(cands, p)
	}
	sort.Strings(cands)
	chain := append([]string{}, cands...)
	if sp.Level >= 2 {
		names := map[string]bool{}
		for _, q := range w.universe() {
			names[q] = true
		}
		for q := range m {
			names[q] = true
		}
		parents := map[string]bool{}
		for p := range recheck {
			if p != "" {
				parents[parentOf(p)] = true
			}
		}
		for p := range anc {
			if p != "" {
				parents[parentOf(p)] = true
			}
		}
		var sibs []string
		for q := range names {
			if q != "" && parents[parentOf(q)] && !recheck[q] && !anc[q] {
				sibs = append(sibs, q)
			}
		}
		sort.Strings(sibs)
		cands = append(cands, sibs...)
	}
	seen := map[string]bool{}
	var out [][]string
	add := func(set []string) {
		if len(set) == 0 {
			return
		}
		k := strings.Join(set, "\x00")
		if !seen[k] {
			seen[k] = true
			out = append(out, append([]string{}, set...))
		}
	}
	var rec func(start int, cur []string, limit int, pool []string)
	rec = func(start int, cur []string, limit int, pool []string) {
		add(cur)
		if len(cur) == limit {
			return
		}
		for i := start; i < len(pool); i++ {
			rec(i+1, append(cur, pool[i]), limit, pool)
		}
	}
	rec(0, nil, sp.MaxS, cands)
	add(chain)
	if sp.All {
		pool := cands
		if len(pool) > 10 {
			pool = pool[:10]
		}
		rec(0, nil, len(pool), pool)
	}
	if sp.Level >= 2 {
		for _, x := range c13misc {
			if !recheck[x] {
				add([]string{x})
			}
		}
	}
	return out
}

// compareScans is the C13 oracle: "produces exactly the same snapshot as a
// fresh full scan" — content, behaviour flags and all four counters.
func compareScans(accel, cold *core.Snapshot) string {
	if proto.Equal(accel, cold) {
		return ""
	}
	if !accel.Content.Equal(cold.Content, true) {
		a, _ := json.Marshal(accel.Content)
		c, _ := json.Marshal(cold.Content)
		return fmt.Sprintf("accelerated content %s != full-scan content %s", a, c)
	}
	return fmt.Sprintf("accelerated dirs/files/links/bytes/exec/decomp %d/%d/%d/%d/%v/%v != full scan %d/%d/%d/%d/%v/%v",
		accel.Directories, accel.Files, accel.SymbolicLinks, accel.TotalFileSize, accel.PreservesExecutability, accel.DecomposesUnicode,
		cold.Directories, cold.Files, cold.SymbolicLinks, cold.TotalFileSize, cold.PreservesExecutability, cold.DecomposesUnicode)
}

type c13stats struct {
	scans, cacheDiff, changed int
}

// runC13 materializes the base tree, applies the edits one by one and lets
// every observer (every scan schedule) perform its accelerated scans, each
// compared with a cold scan of the same disk state. It returns the first
// difference ("" if none); logf, when non-nil, receives a step-by-step trace.
func runC13(t testing.TB, bases []*world, c c13case, sup supersets, logf func(string, ...interface{})) (string, c13stats, error) {
	var st c13stats
	if logf == nil {
		logf = func(string, ...interface{}) {}
	}
	tmp, err := os.MkdirTemp("", "c13")
	if err != nil {
		return "", st, err
	}
	defer os.RemoveAll(tmp)
	root := filepath.Join(tmp, "root")
	w := bases[c.Base].clone()
	if err := materializeModel(root, w.m); err != nil {
		return "", st, err
	}
	md := modes{core.SymbolicLinkMode(c.Sym), core.PermissionsMode(c.Perm)}
	ign := ignorerFor(t, w.ign)
	cold := func() (*core.Snapshot, *core.Cache, error) {
		s, ch, _, err := doScan(root, nil, nil, nil, ign, nil, md)
		return s, ch, err
	}
	// Initial full scan: every observer starts from it, as an endpoint does.
	s0, c0, i0, err := doScan(root, nil, nil, nil, ign, nil, md)
	if err != nil {
		return "", st, fmt.Errorf("initial scan: %w", err)
	}
	k := len(c.Ops)
	var obs []*observer
	for sched := uint(0); sched < 1<<uint(k-1); sched++ {
		obs = append(obs, &observer{schedule: sched | 1<<uint(k-1), snap: s0, cache: c0, ic: i0, pending: map[string]bool{}})
	}
	prevCold := s0
	for i, o := range c.Ops {
		touched := w.apply(o)
		if err := applyOnDisk(root, o, w.m); err != nil {
			return "", st, fmt.Errorf("edit %v: %w", o, err)
		}
		if err := verifyDisk(root, w.m); err != nil {
			return "", st, fmt.Errorf("after %v: %w", o, err)
		}
		logf("edit %d: %v; reported paths %q", i, o, touched)
		coldSnap, coldCache, err := cold()
		if err != nil {
			return "", st, fmt.Errorf("cold scan: %w", err)
		}
		if !proto.Equal(coldSnap, prevCold) {
			st.changed++
		}
		prevCold = coldSnap
		for _, ob := range obs {
			for _, p := range touched {
				ob.pending[p] = true
			}
			if ob.schedule&(1<<uint(i)) == 0 {
				continue
			}
			recheck := ob.pending
			snap, cache, ic, err := doScan(root, ob.snap, recheck, ob.cache, ign, ob.ic, md)
			st.scans++
			keys := make([]string, 0, len(recheck))
			for p := range recheck {
				keys = append(keys, p)
			}
			sort.Strings(keys)
			if err != nil {
				return fmt.Sprintf("schedule %b after edit %d (%v), recheck %q: accelerated scan failed: %v", ob.schedule, i, o, keys, err), st, nil
			}
			if d := compareScans(snap, coldSnap); d != "" {
				return fmt.Sprintf("schedule %b after edit %d (%v), recheck %q: %s", ob.schedule, i, o, keys, d), st, nil
			}
			if !cache.Equal(coldCache) {
				st.cacheDiff++
				logf("  note: digest cache of schedule %b differs from the cold cache", ob.schedule)
			}
			logf("  schedule %b: accelerated scan with recheck %q equals the full scan", ob.schedule, keys)
			// "optionally plus extra paths": one more accelerated scan from the
			// same baseline per superset of the reported paths; not chained.
			if i == k-1 && (sup.Level >= 2 || (sup.Level == 1 && ob.schedule == 1<<uint(k-1))) {
				for _, extra := range supersetsOf(recheck, w, sup) {
					rx := map[string]bool{}
					for _, x := range extra {
						rx[x] = true
					}
					for p := range recheck {
						rx[p] = true
					}
					sx, _, _, err := doScan(root, ob.snap, rx, ob.cache, ign, ob.ic, md)
					st.scans++
					if err != nil {
						return fmt.Sprintf("schedule %b after edit %d (%v), recheck %q + extra %q: accelerated scan failed: %v", ob.schedule, i, o, keys, extra, err), st, nil
					}
					if d := compareScans(sx, coldSnap); d != "" {
						return fmt.Sprintf("schedule %b after edit %d (%v), recheck %q + extra %q: %s", ob.schedule, i, o, keys, extra, d), st, nil
					}
				}
			}
			// Chain: the accelerated result becomes the next baseline.
			ob.snap, ob.cache, ob.ic, ob.pending = snap, cache, ic, map[string]bool{}
		}
	}
	return "", st, nil
}

func TestC13(t *testing.T) {
	r := vr.New(t, "C13", "exploration")
	defer r.Finish()
	bases := c13Bases()
	// Every core.Scan allocates two 1024-slot maps and a 32 KiB buffer; collect less often.
	defer debug.SetGCPercent(debug.SetGCPercent(800))

	if raw := vr.ReplayCase(); raw != nil {
		var c c13case
		must(t, json.Unmarshal(raw, &c))
		t.Logf("replay base tree %d: %s", c.Base, describe(bases[c.Base].m))
		what, st, err := runC13(t, bases, c, supersets{Level: 2, MaxS: 2, All: true}, t.Logf)
		must(t, err)
		t.Logf("accelerated scans %d; verdict %q", st.scans, what)
		r.Case(vr.J(c), true)
		if what != "" {
			r.Violate(vr.J(c), what, c, nil)
		}
		return
	}

	type job struct {
		base  int
		first c13op
	}
	// modeSets[n] = mode pairs run on sequences of length n (the first pair of
	// a set also gets the extra recheck paths when n <= extrasUpTo).
	var allModes []modes
	for _, sm := range []core.SymbolicLinkMode{core.SymbolicLinkMode_SymbolicLinkModePortable, core.SymbolicLinkMode_SymbolicLinkModePOSIXRaw, core.SymbolicLinkMode_SymbolicLinkModeIgnore} {
		for _, pm := range permModes {
			allModes = append(allModes, modes{sm, pm})
		}
	}
	threeModes := []modes{allModes[0], allModes[3], allModes[4]} // portable/portable, posix-raw/manual, ignore/portable
	modeSets := map[int][]modes{1: allModes, 2: allModes[:1], 3: allModes[:1]}
	// sups[n] = supersets of the reported paths tried on sequences of length n
	// (first mode pair of the set only).
	sups := map[int]supersets{1: {Level: 2, MaxS: 2}, 2: {Level: 1, MaxS: 2}, 3: {Level: 1, MaxS: 1}}
	maxLen := 2
	if vr.Thorough() {
		modeSets = map[int][]modes{1: allModes, 2: threeModes, 3: allModes[:1]}
		sups = map[int]supersets{1: {Level: 2, MaxS: 2, All: true}, 2: {Level: 2, MaxS: 2}, 3: {Level: 1, MaxS: 1}}
		maxLen = 3
	}
	deadline := vr.Deadline(50*time.Second, 510*time.Second)
	// Shards = (first edit, base tree), ordered first-edit-major so that a
	// budget cut takes a slice out of every base tree rather than dropping the
	// larger trees entirely.
	var jobs []job
	for oi := 0; ; oi++ {
		any := false
		for b, w := range bases {
			if en := w.enabled(); oi < len(en) {
				jobs = append(jobs, job{b, en[oi]})
				any = true
			}
		}
		if !any {
			break
		}
	}
	r.Rule(fmt.Sprintf("%d base trees (a in {absent, file, dir{x}} x d in 8 shapes up to depth 3, incl. a link, a FIFO, executable files; plus a root that is itself a file, edited in place; plus 5 trees in which a name recurs at different levels with different content, e.g. d/{x,d/{x}} and d/{x}+e/{x,d/{x}}, edited over %v; plus ignore trees = 3 shapes of d/{x,e/{z,j}} (+a) x 3 ignore configurations (Docker [d/e, !d/e/z], Docker [d, !d/e/z], Mutagen [z, !d/e/z, j]) used by every scan of the tree, edited over [a d/x d/e d/e/z d/e/j] with edit kinds mkfile/rm/edit/mkdir up to length 3 (quick: length 3 under the first Docker configuration only, else 2; thorough: additionally with every edit kind up to length 2)) x every sequence of 1..%d enabled edits from {mkfile, mkdir, mklink, rm (recursive), mv (incl. replacing a file or an empty directory), edit (same size, later mtime), grow, chmod, swap (same size and mtime, new inode), touch} over the path universe %v; for every sequence every scan schedule (which edits are followed by a scan; 2^(n-1)) is run as a chain of accelerated core.Scan calls whose baseline/cache/ignore cache are the previous accelerated result and whose recheck set is exactly the paths created/deleted/modified since the previous scan (no ancestors); each accelerated result is compared with a cold core.Scan of the same disk; at the final scan, supersets of the reported paths are tried as recheck sets too (reported ∪ S, not chained): length 1: every S of size <= 2 (thorough: every subset) from the ancestors (incl. the root) of the reported paths and the siblings of both, the full ancestor chain, and each of %d paths naming nothing, for every chain; length 2: S of size <= 2 from the ancestors plus the full chain for the scan-once-at-the-end chain (thorough: as length 1 with |S| <= 2); length 3: single ancestors and the full chain (first mode pair only in each case, bound %d). Mode pairs: length 1 all 6; length 2 portable/portable (quick) or portable/portable, posix-raw/manual, ignore/portable (thorough); length 3 (thorough only, run last, under the time budget) portable/portable. Non-trivial = at least one edit changed what a full scan returns; distinct by (base, edit sequence, modes).",
		len(bases), c13NamesakeUniverse, maxLen, c13Universe, len(c13misc), sups[1].MaxS))
	r.Assume("the harness stamps a distinct, strictly increasing modification time on every file it writes and keeps replaced inodes allocated, so every content change alters size, mtime or identity (the property's precondition) by construction; 'swap' keeps size and mtime and changes only the inode",
		"reported paths = every created, deleted or modified path incl. all members of a removed or renamed subtree; ancestors and siblings appear only through the enumerated supersets",
		"Mutagen ignorer with no patterns, SHA-1, probe mode probe, Linux/ext4",
		"only snapshot equality is judged; digest-cache equality with the cold cache is recorded as an outcome")

	var seqs, scans, cacheDiffs atomic.Int64
	// pass evaluates every sequence whose length is in [minLen, maxLen]; it
	// reports whether the time budget cut it short.
	// modeFrom/modeTo select the slice of modeSets[len] that the pass runs;
	// budgeted=false exempts the pass from the time budget.
	// sel picks the base trees of the pass: 'i' ignore trees only, 'n' the
	// others only, 'a' all.
	pass := func(minLen, maxLen, modeFrom, modeTo int, budgeted bool, sel byte) bool {
		var capped atomic.Bool
		vr.Parallel(len(jobs), func(ji int) {
			l := r.Local()
			defer l.Flush()
			j := jobs[ji]
			if isIgn := bases[j.base].ign != 0; (sel == 'i' && !isIgn) || (sel == 'n' && isIgn) {
				return
			}
			var rec func(w *world, ops []c13op)
			rec = func(w *world, ops []c13op) {
				if len(ops) < maxLen && (w.maxLen == 0 || len(ops) < w.maxLen) {
					defer func() {
						for _, o := range w.enabled() {
							nw := w.clone()
							nw.apply(o)
							rec(nw, append(append([]c13op{}, ops...), o))
						}
					}()
				}
				if len(ops) < minLen {
					return
				}
				if budgeted && time.Now().After(deadline) {
					capped.Store(true)
					return
				}
				for mi, md := range modeSets[len(ops)] {
					if mi < modeFrom || mi >= modeTo {
						continue
					}
					c := c13case{j.base, ops, int(md.Sym), int(md.Perm)}
					sp := supersets{}
					if mi == 0 {
						sp = sups[len(ops)]
					}
					what, st, err := runC13(t, bases, c, sp, nil)
					if err != nil {
						t.Errorf("INFRA: %v (%s)", err, vr.J(c))
						return
					}
					seqs.Add(1)
					scans.Add(int64(st.scans))
					cacheDiffs.Add(int64(st.cacheDiff))
					l.Case(vr.J(c), st.changed > 0)
					switch {
					case what != "":
						l.Outcome("VIOLATION")
						r.Violate(vr.J(c), what, c, func() bool {
							w, _, err := runC13(t, bases, c, supersets{Level: 2, MaxS: 2, All: true}, nil)
							return err == nil && w != ""
						})
					case st.cacheDiff > 0:
						l.Outcome("equal-snapshot-but-cache-differs")
					case st.changed == 0:
						l.Outcome("equal-nothing-visible-changed")
					default:
						l.Outcome(fmt.Sprintf("equal-%d-of-%d-edits-visible", st.changed, len(ops)))
					}
				}
			}
			w := bases[j.base].clone()
			w.apply(j.first)
			rec(w, []c13op{j.first})
		})
		return capped.Load()
	}
	// Order: (1) length 1 under the first mode pair with the widest superset
	// enumeration, all trees, no budget; (2) the ignore trees (Docker / Mutagen
	// patterns with negations): length 2 without budget, then length 3 (chains
	// of three accelerated scans, each fed the previous snapshot, digest cache
	// and ignore cache); (3) the remaining mode pairs at length 1; (4) length 2
	// of the other trees; (5, thorough) their length 3.
	pass(1, 1, 0, 1, false, 'a')
	pass(2, 2, 0, 1, false, 'i')
	r.Set("scans_in_unbudgeted_passes", scans.Load())
	if pass(3, 3, 0, 1, true, 'i') {
		r.NotExhaustive("length 1 (all trees, portable/portable, all supersets) and length 2 of the ignore trees were run completely; the time budget ended the length-3 pass of the ignore trees")
	} else if pass(1, 1, 1, 99, true, 'a') {
		r.NotExhaustive("length 1 under portable/portable (with all supersets) and the ignore trees up to length 3 were run completely; the time budget ended the length-1 pass under the other mode pairs")
	} else if pass(2, 2, 0, 99, true, 'n') {
		r.NotExhaustive("every sequence of length 1 and the ignore trees up to length 3 were run; the time budget ended the length-2 pass (shards are (first edit, base) in a fixed order, the tail was not run)")
	} else if maxLen == 3 {
		before := seqs.Load()
		if pass(3, 3, 0, 99, true, 'n') {
			r.NotExhaustive(fmt.Sprintf("every sequence of length <= 2 (and <= 3 on the ignore trees) was run; the time budget ended the length-3 pass after %d of its sequences (shards are (first edit, base) in a fixed order; the tail was not run)", seqs.Load()-before))
		}
	}
	r.Set("edit_sequences", seqs.Load())
	r.Set("accelerated_scans_compared", scans.Load())
	r.Set("cache_differences", cacheDiffs.Load())
	r.Sample(c13case{13, []c13op{{Kind: "rm", P: "d/e"}, {Kind: "mv", P: "a", Q: "d/e"}}, 2, 1})
	r.Sample(c13case{5, []c13op{{Kind: "swap", P: "d/x"}, {Kind: "mkdir", P: "a"}}, 2, 1})
}

// describe renders a model compactly for replay logs.
func describe(m model) string {
	paths := make([]string, 0, len(m))
	for p := range m {
		paths = append(paths, p)
	}
	sort.Strings(paths)
	var b strings.Builder
	for _, p := range paths {
		n := m[p]
		fmt.Fprintf(&b, "%s(%c", p, n.Kind)
		if n.Kind == 'f' {
			fmt.Fprintf(&b, " %q x=%v t=%d", n.Data, n.Exec, n.Mtime)
		}
		if n.Kind == 'l' {
			fmt.Fprintf(&b, " ->%s", n.Target)
		}
		b.WriteString(") ")
	}
	return b.String()
}
