//go:build verif

// Package scan holds the bounded-exhaustive checks for C12 (a scan describes
// the filesystem exactly), C13 (accelerated scans equal full scans) and C16
// (portable symbolic links never point outside the root). All three drive the
// real core.Scan on real temporary directories; the oracles below are written
// from the property statements and use only os.Lstat / os.Readlink /
// os.ReadFile / crypto/sha1 — never the code under test.
package scan

import (
	"bytes"
	"context"
	"crypto/sha1"
	"fmt"
	"os"
	"path/filepath"
	"sort"
	"strings"
	"syscall"
	"testing"
	"unicode/utf8"

	"google.golang.org/protobuf/proto"

	"github.com/mutagen-io/mutagen/pkg/filesystem/behavior"
	"github.com/mutagen-io/mutagen/pkg/synchronization/core"
	"github.com/mutagen-io/mutagen/pkg/synchronization/core/ignore"
	mutagenignore "github.com/mutagen-io/mutagen/pkg/synchronization/core/ignore/mutagen"
)

// temporaryPrefix is the Mutagen temporary-file name prefix, written out here
// (not imported) so that the oracle is independent of the scanner's constant.
const temporaryPrefix = ".mutagen-temporary-"

// Names with these prefixes get a fault injected through verifhook (we run as
// root, so chmod 000 does not make anything unreadable).
const (
	noReadPrefix   = "noread-" // openat fails with EACCES (file or directory)
	readFailPrefix = "rdfail-" // read of the opened file fails with EIO
	linkFailPrefix = "lnfail-" // readlinkat fails with EACCES
	ignoredPrefix  = "ig-"     // matched by the ignore pattern "ig-*" when patterns are on
)

// modes is the (symbolic link mode, permissions mode) pair of one scan.
type modes struct {
	Sym  core.SymbolicLinkMode
	Perm core.PermissionsMode
}

var symModes = []core.SymbolicLinkMode{
	core.SymbolicLinkMode_SymbolicLinkModeIgnore,
	core.SymbolicLinkMode_SymbolicLinkModePortable,
	core.SymbolicLinkMode_SymbolicLinkModePOSIXRaw,
}

var permModes = []core.PermissionsMode{
	core.PermissionsMode_PermissionsModePortable,
	core.PermissionsMode_PermissionsModeManual,
}

func (m modes) String() string {
	s := map[core.SymbolicLinkMode]string{1: "ignore", 2: "portable", 3: "posix-raw"}[m.Sym]
	p := map[core.PermissionsMode]string{1: "portable", 2: "manual"}[m.Perm]
	return s + "/" + p
}

// newIgnorer builds the real Mutagen-syntax ignorer, as the local endpoint does.
func newIgnorer(t testing.TB, patterns []string) ignore.Ignorer {
	i, err := mutagenignore.NewIgnorer(patterns)
	if err != nil {
		t.Fatalf("INFRA: ignorer: %v", err)
	}
	return i
}

// doScan calls the real core.Scan with the call shape of
// endpoint/local.(*endpoint).scan: SHA-1 hasher (the default hashing
// algorithm), probe mode "probe", caller-supplied baseline / recheck paths /
// digest cache / ignore cache.
func doScan(root string, baseline *core.Snapshot, recheck map[string]bool, cache *core.Cache,
	ign ignore.Ignorer, ic ignore.IgnoreCache, m modes) (*core.Snapshot, *core.Cache, ignore.IgnoreCache, error) {
	return core.Scan(context.Background(), root, baseline, recheck, sha1.New(), cache, ign, ic,
		behavior.ProbeMode_ProbeModeProbe, m.Sym, m.Perm)
}

// fsPreservesExecutability determines, independently of mutagen's probing,
// whether the filesystem holding dir keeps POSIX executable bits.
func fsPreservesExecutability(t testing.TB, dir string) bool {
	p := filepath.Join(dir, "xprobe")
	if err := os.WriteFile(p, nil, 0o600); err != nil {
		t.Fatalf("INFRA: %v", err)
	}
	defer os.Remove(p)
	if err := os.Chmod(p, 0o700); err != nil {
		t.Fatalf("INFRA: %v", err)
	}
	fi, err := os.Lstat(p)
	if err != nil {
		t.Fatalf("INFRA: %v", err)
	}
	return fi.Mode()&0o100 != 0
}

// ---- lexical oracle for portable link targets (C16; also used by C12) ----

// lexicallyPortable decides from the property text alone whether a link at
// root-relative path linkPath with the given target may be accepted in
// portable mode: "resolves to a location inside the synchronization root.
// Empty, absolute, over-long, colon-containing or backslash-containing targets
// are rejected." Resolution is lexical POSIX resolution starting in the link's
// directory: an empty component (doubled or trailing slash) and "." stay where
// they are, ".." ascends, anything else descends. Stepping above the root at
// any point is outside the root (what lies there is not under our control).
func lexicallyPortable(linkPath, target string) (bool, string) {
	if target == "" {
		return false, "empty"
	}
	if len(target) > 247 {
		return false, "over-long"
	}
	if strings.ContainsRune(target, ':') {
		return false, "colon"
	}
	if strings.ContainsRune(target, '\\') {
		return false, "backslash"
	}
	if target[0] == '/' {
		return false, "absolute"
	}
	depth := strings.Count(linkPath, "/") // number of directories between the root and the link
	for _, comp := range strings.Split(target, "/") {
		switch comp {
		case "", ".": // stays in the same directory
		case "..":
			depth--
		default:
			depth++
		}
		if depth < 0 {
			return false, "outside"
		}
	}
	return true, "inside"
}

// ---- independent walk ----

// xnode is what the oracle expects a snapshot entry to be.
type xnode struct {
	Kind     string // dir, file, link, untracked, problem, unsync (= untracked or problem)
	Digest   []byte
	Exec     bool
	Target   string
	Children map[string]*xnode
	BadNames int // number of non-UTF-8 names directly in this directory
}

// xcounts are the totals the property demands of the snapshot's counters.
type xcounts struct{ Dirs, Files, Links, Bytes uint64 }

// walkOpts parametrises the oracle walk.
type walkOpts struct {
	m        modes
	fsExec   bool // filesystem preserves executability (independent probe)
	patterns bool // ignore pattern "ig-*" active
	// faulted maps root-relative paths of regular files to what a fault
	// injected during their hashing makes of them: "problem" (a read failed:
	// "unreadable content ... as problems") or "any" (the file was modified
	// while being read; the statement does not say what it becomes).
	faulted map[string]string
	// skipWalkCounts drops the comparison of the counters with the walk's
	// totals (used with "any" entries, whose kind the walk cannot know); the
	// recount of the snapshot's own content is still compared.
	skipWalkCounts bool
}

// walk describes abs (root-relative rel) as the property says a snapshot must.
func walk(abs, rel string, o walkOpts, c *xcounts) (*xnode, error) {
	fi, err := os.Lstat(abs)
	if err != nil {
		return nil, err
	}
	name := filepath.Base(abs)
	switch {
	case fi.Mode().IsRegular():
		if rel != "" && (strings.HasPrefix(name, noReadPrefix) || strings.HasPrefix(name, readFailPrefix)) {
			// "unreadable content ... as problems"
			return &xnode{Kind: "problem"}, nil
		}
		if f := o.faulted[rel]; f != "" {
			return &xnode{Kind: f}, nil
		}
		data, err := os.ReadFile(abs)
		if err != nil {
			return nil, err
		}
		sum := sha1.Sum(data)
		n := &xnode{Kind: "file", Digest: sum[:]}
		// "executability (only where the filesystem preserves it)"; the
		// permissions mode "manual" does not propagate executability at all.
		if o.m.Perm == core.PermissionsMode_PermissionsModePortable && o.fsExec {
			n.Exec = fi.Mode().Perm()&0o111 != 0
		}
		c.Files++
		c.Bytes += uint64(len(data))
		return n, nil
	case fi.Mode()&os.ModeSymlink != 0:
		if o.m.Sym == core.SymbolicLinkMode_SymbolicLinkModeIgnore {
			// links are ignored content in this mode: "ignored paths as untracked"
			return &xnode{Kind: "untracked"}, nil
		}
		if strings.HasPrefix(name, linkFailPrefix) {
			return &xnode{Kind: "problem"}, nil
		}
		target, err := os.Readlink(abs)
		if err != nil {
			return nil, err
		}
		if o.m.Sym == core.SymbolicLinkMode_SymbolicLinkModePortable {
			if ok, _ := lexicallyPortable(rel, target); !ok {
				// The statement does not say how a non-portable link is
				// marked, only that it is not synchronizable content: accept
				// problematic or untracked, never a link.
				return &xnode{Kind: "unsync"}, nil
			}
		}
		c.Links++
		return &xnode{Kind: "link", Target: target}, nil
	case fi.IsDir():
		if rel != "" && strings.HasPrefix(name, noReadPrefix) {
			return &xnode{Kind: "problem"}, nil
		}
		d, err := os.Open(abs)
		if err != nil {
			return nil, err
		}
		names, err := d.Readdirnames(-1)
		d.Close()
		if err != nil {
			return nil, err
		}
		sort.Strings(names)
		n := &xnode{Kind: "dir", Children: map[string]*xnode{}}
		c.Dirs++
		for _, cn := range names {
			// "It omits Mutagen temporary files"
			if strings.HasPrefix(cn, temporaryPrefix) {
				continue
			}
			// "non-UTF-8 names as problems"
			if !utf8.ValidString(cn) {
				n.BadNames++
				continue
			}
			crel := cn
			if rel != "" {
				crel = rel + "/" + cn
			}
			cabs := filepath.Join(abs, cn)
			cfi, err := os.Lstat(cabs)
			if err != nil {
				return nil, err
			}
			// "unsupported file types ... as untracked"
			if !cfi.Mode().IsRegular() && !cfi.IsDir() && cfi.Mode()&os.ModeSymlink == 0 {
				n.Children[cn] = &xnode{Kind: "untracked"}
				continue
			}
			// "ignored paths as untracked"
			if o.patterns && strings.HasPrefix(cn, ignoredPrefix) {
				n.Children[cn] = &xnode{Kind: "untracked"}
				continue
			}
			ch, err := walk(cabs, crel, o, c)
			if err != nil {
				return nil, err
			}
			n.Children[cn] = ch
		}
		return n, nil
	}
	return nil, fmt.Errorf("unsupported root type %v", fi.Mode())
}

// kindName renders an entry kind in the oracle's vocabulary.
func kindName(e *core.Entry) string {
	if e == nil {
		return "nil"
	}
	switch e.Kind {
	case core.EntryKind_Directory:
		return "dir"
	case core.EntryKind_File:
		return "file"
	case core.EntryKind_SymbolicLink:
		return "link"
	case core.EntryKind_Untracked:
		return "untracked"
	case core.EntryKind_Problematic:
		return "problem"
	case core.EntryKind_PhantomDirectory:
		return "phantom"
	}
	return fmt.Sprintf("kind%d", e.Kind)
}

// diffEntry compares a snapshot entry with the oracle's expectation (order
// insensitive: both sides are maps) and returns the first difference, "" if none.
func diffEntry(rel string, want *xnode, got *core.Entry) string {
	at := rel
	if at == "" {
		at = "<root>"
	}
	if want == nil {
		if got != nil {
			return fmt.Sprintf("%s: snapshot lists a %s that is not on disk", at, kindName(got))
		}
		return ""
	}
	if got == nil {
		return fmt.Sprintf("%s: on disk (%s) but missing from the snapshot", at, want.Kind)
	}
	if want.Kind == "any" {
		return ""
	}
	if want.Kind == "unsync" {
		if k := kindName(got); k != "problem" && k != "untracked" {
			return fmt.Sprintf("%s: snapshot kind %s, expected problematic or untracked (non-portable link)", at, k)
		}
		return ""
	}
	if k := kindName(got); k != want.Kind {
		return fmt.Sprintf("%s: snapshot kind %s, expected %s", at, k, want.Kind)
	}
	switch want.Kind {
	case "file":
		if !bytes.Equal(got.Digest, want.Digest) {
			return fmt.Sprintf("%s: digest %x, expected %x", at, got.Digest, want.Digest)
		}
		if got.Executable != want.Exec {
			return fmt.Sprintf("%s: executable=%v, expected %v", at, got.Executable, want.Exec)
		}
	case "link":
		if got.Target != want.Target {
			return fmt.Sprintf("%s: target %q, expected %q", at, got.Target, want.Target)
		}
	case "dir":
		names := make([]string, 0, len(want.Children))
		for n := range want.Children {
			names = append(names, n)
		}
		sort.Strings(names)
		for _, n := range names {
			crel := n
			if rel != "" {
				crel = rel + "/" + n
			}
			if d := diffEntry(crel, want.Children[n], got.Contents[n]); d != "" {
				return d
			}
		}
		// Everything else in the snapshot must be the stand-ins for non-UTF-8
		// names: exactly one problematic entry per such name (the key under
		// which it is stored is the scanner's business).
		extra := 0
		var extras []string
		for n, e := range got.Contents {
			if _, ok := want.Children[n]; ok {
				continue
			}
			extras = append(extras, n)
			if e == nil || e.Kind != core.EntryKind_Problematic {
				sort.Strings(extras)
				return fmt.Sprintf("%s: snapshot lists %q (%s) which the walk does not expect", at, n, kindName(e))
			}
			extra++
		}
		if extra != want.BadNames {
			return fmt.Sprintf("%s: %d problematic stand-in entries for %d non-UTF-8 names", at, extra, want.BadNames)
		}
	}
	return ""
}

// contentCounts recomputes the counters from the snapshot's own content
// ("its reported directory, file, link and byte counts match its content").
func contentCounts(e *core.Entry, c *xcounts) {
	if e == nil {
		return
	}
	switch e.Kind {
	case core.EntryKind_Directory, core.EntryKind_PhantomDirectory:
		c.Dirs++
		for _, ch := range e.Contents {
			contentCounts(ch, c)
		}
	case core.EntryKind_File:
		c.Files++
	case core.EntryKind_SymbolicLink:
		c.Links++
	}
}

// checkSnapshot applies the whole C12 oracle to one snapshot of root.
func checkSnapshot(root string, snap *core.Snapshot, o walkOpts) string {
	var wc xcounts
	var want *xnode
	if _, err := os.Lstat(root); err == nil {
		w, err := walk(root, "", o, &wc)
		if err != nil {
			return "INFRA: oracle walk failed: " + err.Error()
		}
		want = w
	}
	if d := diffEntry("", want, snap.Content); d != "" {
		return d
	}
	// A snapshot is a wire message: it must satisfy its own invariants and be
	// encodable (a name that is not UTF-8 stored as a key makes Marshal fail).
	if err := snap.EnsureValid(); err != nil {
		return "snapshot fails its own EnsureValid: " + err.Error()
	}
	if _, err := proto.Marshal(snap); err != nil {
		return "snapshot cannot be marshalled: " + err.Error()
	}
	var cc xcounts
	contentCounts(snap.Content, &cc)
	if snap.Directories != cc.Dirs || snap.Files != cc.Files || snap.SymbolicLinks != cc.Links {
		return fmt.Sprintf("counters dirs/files/links %d/%d/%d do not match the snapshot's own content %d/%d/%d",
			snap.Directories, snap.Files, snap.SymbolicLinks, cc.Dirs, cc.Files, cc.Links)
	}
	if o.skipWalkCounts {
		return ""
	}
	if snap.Directories != wc.Dirs || snap.Files != wc.Files || snap.SymbolicLinks != wc.Links || snap.TotalFileSize != wc.Bytes {
		return fmt.Sprintf("counters dirs/files/links/bytes %d/%d/%d/%d, walk counted %d/%d/%d/%d",
			snap.Directories, snap.Files, snap.SymbolicLinks, snap.TotalFileSize, wc.Dirs, wc.Files, wc.Links, wc.Bytes)
	}
	return ""
}

// mkfifo / mksock create the unsupported file types.
func mkfifo(p string) error { return syscall.Mkfifo(p, 0o600) }
func mksock(p string) error { return syscall.Mknod(p, syscall.S_IFSOCK|0o600, 0) }

// must aborts the test with an infrastructure error (never a violation).
func must(t testing.TB, err error) {
	if err != nil {
		t.Helper()
		t.Fatalf("INFRA: %v", err)
	}
}
