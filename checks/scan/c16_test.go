//go:build verif

package scan

import (
	"context"
	"encoding/json"
	"fmt"
	"os"
	"path/filepath"
	"sort"
	"strings"
	"testing"

	"github.com/mutagen-io/mutagen/pkg/synchronization/core"

	"verif/internal/vr"
)

// c16case is one enumerated (leg, link location, target) triple.
type c16case struct {
	Leg    string // normalize | scan | transition
	Path   string // root-relative path of the link
	Target string
}

func (c c16case) key() string {
	return fmt.Sprintf("%s:path=%s;target=%s", c.Leg, c.Path, c.Target)
}

// c16Tokens is the component alphabet of the property's quantifier:
// {name, '.', '..', empty}.
var c16Tokens = []string{"a", ".", "..", ""}

// c16Paths are the link locations, one per link depth 0..3.
var c16Paths = []string{"l", "d/l", "d/e/l", "d/e/g/l"}

// targetsOfLength returns every target made of exactly n tokens joined by '/'.
func targetsOfLength(n int) []string {
	out := []string{}
	idx := make([]int, n)
	for {
		parts := make([]string, n)
		for i, k := range idx {
			parts[i] = c16Tokens[k]
		}
		out = append(out, strings.Join(parts, "/"))
		i := n - 1
		for ; i >= 0; i-- {
			idx[i]++
			if idx[i] < len(c16Tokens) {
				break
			}
			idx[i] = 0
		}
		if i < 0 {
			return out
		}
	}
}

// c16Boundary lists the boundary strings of the property's second sentence
// (length limit, colon, backslash, absolute), built systematically.
func c16Boundary() []string {
	var out []string
	// Length boundary (see c16LongTargets).
	out = append(out, c16LongTargets()...)
	// A colon or a backslash at every position of every target of <= 3 tokens.
	for n := 1; n <= 3; n++ {
		for _, base := range targetsOfLength(n) {
			for pos := 0; pos <= len(base); pos++ {
				out = append(out, base[:pos]+":"+base[pos:])
				out = append(out, base[:pos]+"\\"+base[pos:])
			}
		}
	}
	// Absolute forms (a leading empty token is also produced by the token
	// enumeration; these add the multi-slash and dotted ones).
	out = append(out, "/", "//", "/a", "//a", "/..", "/./a", "/a/../..")
	return out
}

// c16LongTargets is the length family: targets of exactly 246, 247, 248, 249,
// 300 and 532 BYTES ("over-long" is a byte length: the limit protects a
// Windows path-length limit and is what the unchanged code applies to ASCII),
// built from a 1-, 2-, 3- and 4-byte UTF-8 character, as one name, as nested
// names of ten characters, and (ASCII) as a chain that climbs and descends.
func c16LongTargets() []string {
	var out []string
	pad := func(s string, n int) string { return s + strings.Repeat("b", n-len(s)) }
	for _, ch := range []string{"a", "\u00e9", "\u20ac", "\U0001F600"} {
		for _, n := range []int{246, 247, 248, 249, 300, 532} {
			out = append(out, pad(strings.Repeat(ch, n/len(ch)), n))
			comp := strings.Repeat(ch, 10) + "/"
			nested := ""
			for len(nested)+len(comp) <= n {
				nested += comp
			}
			out = append(out, pad(nested, n))
		}
	}
	for _, n := range []int{246, 247, 248, 249, 300} {
		s := strings.Repeat("a/../", n/5+1)
		out = append(out, s[:n])
	}
	return out
}

// judgeAccepted is the C16 oracle for something the implementation accepted.
func judgeAccepted(path, target string) string {
	if ok, why := lexicallyPortable(path, target); !ok {
		switch why {
		case "outside":
			return fmt.Sprintf("link %q -> %q accepted as portable, but it lexically resolves outside the synchronization root", path, target)
		default:
			return fmt.Sprintf("link %q -> %q accepted as portable although the target is %s", path, target, why)
		}
	}
	return ""
}

// runNormalize drives the real normalizeSymbolicLinkAndEnsurePortable.
func runNormalize(c c16case) (accepted bool, what string) {
	normalized, err := core.VerifNormalizeSymbolicLink(c.Path, c.Target)
	if err != nil {
		return false, ""
	}
	// What is accepted (and stored in the snapshot) is the normalized target.
	return true, judgeAccepted(c.Path, normalized)
}

var portableModes = modes{core.SymbolicLinkMode_SymbolicLinkModePortable, core.PermissionsMode_PermissionsModePortable}

// mkLinkDirs creates the directories d, d/e, d/e/g under root.
func mkLinkDirs(root string) error {
	return os.MkdirAll(filepath.Join(root, "d", "e", "g"), 0o700)
}

// entryAt looks a root-relative path up in a snapshot.
func entryAt(e *core.Entry, path string) *core.Entry {
	if path == "" {
		return e
	}
	for _, comp := range strings.Split(path, "/") {
		if e == nil {
			return nil
		}
		e = e.Contents[comp]
	}
	return e
}

// runScanOne creates one real link and scans it in portable mode.
func runScanOne(t testing.TB, c c16case) (accepted bool, what string, err error) {
	root, err := os.MkdirTemp("", "c16scan")
	if err != nil {
		return false, "", err
	}
	defer os.RemoveAll(root)
	if err := mkLinkDirs(root); err != nil {
		return false, "", err
	}
	if err := os.Symlink(c.Target, filepath.Join(root, c.Path)); err != nil {
		return false, "", err
	}
	snap, _, _, err := doScan(root, nil, nil, nil, newIgnorer(t, nil), nil, portableModes)
	if err != nil {
		return false, "", err
	}
	e := entryAt(snap.Content, c.Path)
	if e == nil {
		return false, "", fmt.Errorf("link %s missing from snapshot", c.Path)
	}
	if e.Kind != core.EntryKind_SymbolicLink {
		return false, "", nil
	}
	return true, judgeAccepted(c.Path, e.Target), nil
}

// runTransitionOne plans the creation of one link and lets the real
// core.Transition apply it in portable mode; "accepted" = a link exists on disk
// afterwards or the transition reports the link as created.
func runTransitionOne(c c16case) (accepted bool, what string, err error) {
	root, err := os.MkdirTemp("", "c16tr")
	if err != nil {
		return false, "", err
	}
	defer os.RemoveAll(root)
	if err := mkLinkDirs(root); err != nil {
		return false, "", err
	}
	return transitionCreate(root, c)
}

func transitionCreate(root string, c c16case) (bool, string, error) {
	change := &core.Change{Path: c.Path, New: &core.Entry{Kind: core.EntryKind_SymbolicLink, Target: c.Target}}
	results, _, _ := core.Transition(context.Background(), root, []*core.Change{change}, &core.Cache{},
		core.SymbolicLinkMode_SymbolicLinkModePortable, 0o600, 0o700, nil, false, nil)
	if len(results) != 1 {
		return false, "", fmt.Errorf("transition returned %d results", len(results))
	}
	onDisk, lerr := os.Readlink(filepath.Join(root, c.Path))
	created := lerr == nil
	reported := results[0] != nil && results[0].Kind == core.EntryKind_SymbolicLink
	if !created && !reported {
		return false, "", nil
	}
	if created {
		if w := judgeAccepted(c.Path, onDisk); w != "" {
			return true, "transition created " + w, nil
		}
	}
	if reported {
		if w := judgeAccepted(c.Path, results[0].Target); w != "" {
			return true, "transition reports " + w, nil
		}
	}
	return true, "", nil
}

// replaceLegs are the legs in which an EXISTING entry is replaced by a link:
// retarget (a valid link `-> n`), file2link (a regular file), dir2link (a
// directory holding one file).
var replaceLegs = []string{"retarget", "file2link", "dir2link"}

// placeInitial creates what the replacement legs start from at rel.
func placeInitial(root, leg, rel string) error {
	switch leg {
	case "retarget":
		// "first create a valid link by Transition"
		ch := &core.Change{Path: rel, New: &core.Entry{Kind: core.EntryKind_SymbolicLink, Target: "n"}}
		res, problems, _ := core.Transition(context.Background(), root, []*core.Change{ch}, &core.Cache{},
			core.SymbolicLinkMode_SymbolicLinkModePortable, 0o600, 0o700, nil, false, nil)
		if len(res) != 1 || res[0] == nil || len(problems) != 0 {
			return fmt.Errorf("initial link %s not created: %v", rel, problems)
		}
		return nil
	case "file2link":
		return os.WriteFile(filepath.Join(root, rel), []byte("old"), 0o600)
	case "dir2link":
		if err := os.Mkdir(filepath.Join(root, rel), 0o700); err != nil {
			return err
		}
		return os.WriteFile(filepath.Join(root, rel, "in"), []byte("inner"), 0o600)
	}
	return fmt.Errorf("unknown leg %s", leg)
}

// replaceByLink plans "what the scan saw at rel -> link(target)" and lets the
// real core.Transition apply it in portable mode. Accepted = afterwards a link
// with the new target is on disk at rel, or the transition reports the new
// link as the result.
func replaceByLink(root string, snap *core.Snapshot, cache *core.Cache, rel, judgePath, target string) (bool, string, error) {
	old := entryAt(snap.Content, rel)
	if old == nil {
		return false, "", fmt.Errorf("%s missing from the snapshot", rel)
	}
	change := &core.Change{Path: rel, Old: old, New: &core.Entry{Kind: core.EntryKind_SymbolicLink, Target: target}}
	results, _, _ := core.Transition(context.Background(), root, []*core.Change{change}, cache,
		core.SymbolicLinkMode_SymbolicLinkModePortable, 0o600, 0o700, nil, snap.DecomposesUnicode, nil)
	if len(results) != 1 {
		return false, "", fmt.Errorf("transition returned %d results", len(results))
	}
	onDisk, lerr := os.Readlink(filepath.Join(root, rel))
	written := lerr == nil && onDisk == target
	reported := results[0] != nil && results[0].Kind == core.EntryKind_SymbolicLink && results[0].Target == target
	if !written && !reported {
		return false, "", nil
	}
	if w := judgeAccepted(judgePath, target); w != "" {
		if written {
			return true, "transition wrote " + w, nil
		}
		return true, "transition reports " + w, nil
	}
	return true, "", nil
}

// runReplaceOne runs one replacement case in a fresh root.
func runReplaceOne(t testing.TB, c c16case) (bool, string, error) {
	root, err := os.MkdirTemp("", "c16rp")
	if err != nil {
		return false, "", err
	}
	defer os.RemoveAll(root)
	if err := mkLinkDirs(root); err != nil {
		return false, "", err
	}
	if err := placeInitial(root, c.Leg, c.Path); err != nil {
		return false, "", err
	}
	snap, cache, _, err := doScan(root, nil, nil, nil, newIgnorer(t, nil), nil, portableModes)
	if err != nil {
		return false, "", err
	}
	return replaceByLink(root, snap, cache, c.Path, c.Path, c.Target)
}

func isReplaceLeg(leg string) bool {
	for _, l := range replaceLegs {
		if l == leg {
			return true
		}
	}
	return false
}

func TestC16(t *testing.T) {
	r := vr.New(t, "C16", "exploration")
	defer r.Finish()

	if raw := vr.ReplayCase(); raw != nil {
		var c c16case
		must(t, json.Unmarshal(raw, &c))
		var acc bool
		var what string
		var err error
		switch c.Leg {
		case "normalize":
			acc, what = runNormalize(c)
		case "scan":
			acc, what, err = runScanOne(t, c)
		case "transition":
			acc, what, err = runTransitionOne(c)
		default:
			if !isReplaceLeg(c.Leg) {
				t.Fatalf("INFRA: unknown leg %q", c.Leg)
			}
			acc, what, err = runReplaceOne(t, c)
		}
		must(t, err)
		ok, why := lexicallyPortable(c.Path, c.Target)
		t.Logf("replay %s: accepted by mutagen=%v; lexical oracle: portable=%v (%s); verdict %q", c.key(), acc, ok, why, what)
		r.Case(c.key(), true)
		if what != "" {
			r.Violate(c.key(), what, c, nil)
		}
		return
	}

	maxTok, diskTok := 6, 4
	if vr.Thorough() {
		maxTok, diskTok = 8, 5
	}
	r.Rule(fmt.Sprintf("normalize leg: every target of 1..%d tokens from {a, ., .., empty} joined by '/' x link paths %v, plus %d boundary strings (the length family: exactly 246/247/248/249/300/532 bytes built from a 1-, 2-, 3- and 4-byte UTF-8 character as one name and as nested names — also run through the scan and transition legs —, ':' and '\\' at every position of every <=3-token target, absolute forms) x the same paths, through core.VerifNormalizeSymbolicLink; scan leg: every target of 1..%d tokens as a real link at depth 0..2, scanned by core.Scan in portable mode; transition leg: the same targets (plus the empty one) as a planned link creation applied by core.Transition in portable mode; replacement legs: an existing valid link (created by Transition, then scanned) retargeted to each of those targets and to every boundary string, and an existing file / non-empty directory replaced by a link with each of those targets, Old = the scanned entry, applied by core.Transition in portable mode at depth 0..2. Non-trivial = the target is non-empty, relative, <= 247 bytes, colon- and backslash-free, so the depth walk decides; distinct by (leg, path, target).",
		maxTok, c16Paths, len(c16Boundary()), diskTok))
	r.Assume("resolution is lexical (components that are themselves links are C17's subject)",
		"stepping above the root at any point of the target counts as outside, whatever follows",
		"names are the single token 'a'; other names behave identically in a lexical walk",
		"POSIX host: the Windows backslash conversion branch is not exercised")

	type viol struct {
		c    c16case
		what string
		ntok int
	}
	var viols []viol
	note := func(c c16case, ntok int, acc bool, what string) {
		ok, why := lexicallyPortable(c.Path, c.Target)
		nontrivial := ok || why == "outside"
		r.Case(c.key(), nontrivial)
		switch {
		case what != "":
			r.Outcome(c.Leg + ":ACCEPTED-" + why)
			r.Add("violating_cases", 1)
			viols = append(viols, viol{c, what, ntok})
		case acc:
			r.Outcome(c.Leg + ":accepted-inside")
		default:
			r.Outcome(c.Leg + ":rejected-" + why)
		}
	}

	// ---- normalize leg (pure) ----
	for n := 1; n <= maxTok; n++ {
		for _, target := range targetsOfLength(n) {
			for _, p := range c16Paths {
				c := c16case{"normalize", p, target}
				acc, what := runNormalize(c)
				note(c, n, acc, what)
			}
		}
	}
	for _, target := range c16Boundary() {
		for _, p := range c16Paths {
			c := c16case{"normalize", p, target}
			acc, what := runNormalize(c)
			note(c, 99, acc, what)
		}
	}

	// ---- scan leg: all links of one depth live in one directory of one root,
	// one real Scan sees them all. ----
	root := t.TempDir()
	must(t, mkLinkDirs(root))
	type placed struct {
		c    c16case
		ntok int
		rel  string // actual path of the link on disk (unique name per target)
	}
	var links []placed
	serial := 0
	for n := 1; n <= diskTok; n++ {
		for _, target := range targetsOfLength(n) {
			if target == "" {
				continue // Linux cannot create a link with an empty target
			}
			for _, p := range c16Paths[:3] {
				serial++
				rel := fmt.Sprintf("%s%d", p, serial) // l17, d/l18, d/e/l19: same depth as p
				must(t, os.Symlink(target, filepath.Join(root, rel)))
				links = append(links, placed{c16case{"scan", p, target}, n, rel})
			}
		}
	}
	for _, target := range c16LongTargets() {
		for _, p := range c16Paths[:3] {
			serial++
			rel := fmt.Sprintf("%s%d", p, serial)
			must(t, os.Symlink(target, filepath.Join(root, rel)))
			links = append(links, placed{c16case{"scan", p, target}, 99, rel})
		}
	}
	snap, _, _, err := doScan(root, nil, nil, nil, newIgnorer(t, nil), nil, portableModes)
	must(t, err)
	for _, pl := range links {
		e := entryAt(snap.Content, pl.rel)
		if e == nil {
			t.Fatalf("INFRA: link %s missing from snapshot", pl.rel)
		}
		acc := e.Kind == core.EntryKind_SymbolicLink
		what := ""
		if acc {
			what = judgeAccepted(pl.c.Path, e.Target)
		}
		note(pl.c, pl.ntok, acc, what)
	}

	// ---- transition leg ----
	troot := t.TempDir()
	must(t, mkLinkDirs(troot))
	for n := 1; n <= diskTok; n++ {
		for _, target := range targetsOfLength(n) {
			for _, p := range c16Paths[:3] {
				serial++
				c := c16case{"transition", p, target}
				// Apply at a unique name of the same depth; judge under the case's path.
				at := c
				at.Path = fmt.Sprintf("%s%d", p, serial)
				acc, what, err := transitionCreate(troot, at)
				must(t, err)
				if what != "" {
					what = strings.ReplaceAll(what, at.Path, c.Path)
				}
				note(c, n, acc, what)
			}
		}
	}
	for _, target := range c16LongTargets() {
		for _, p := range c16Paths[:3] {
			serial++
			c := c16case{"transition", p, target}
			at := c
			at.Path = fmt.Sprintf("%s%d", p, serial)
			acc, what, err := transitionCreate(troot, at)
			must(t, err)
			if what != "" {
				what = strings.ReplaceAll(what, at.Path, c.Path)
			}
			note(c, 99, acc, what)
		}
	}

	// ---- replacement legs: an existing valid link / file / directory is
	// replaced by a link with each target. Batches of 150 cases share one root
	// (initial entries created, one real Scan, then one Transition per case). ----
	type rcase struct {
		target string
		ntok   int
	}
	var tokenTargets, allTargets []rcase
	for n := 1; n <= diskTok; n++ {
		for _, target := range targetsOfLength(n) {
			tokenTargets = append(tokenTargets, rcase{target, n})
		}
	}
	allTargets = append(allTargets, tokenTargets...)
	for _, target := range c16Boundary() {
		allTargets = append(allTargets, rcase{target, 99})
	}
	for _, leg := range replaceLegs {
		targets := tokenTargets
		if leg == "retarget" {
			targets = allTargets // incl. over-long, colon, backslash, absolute forms
		}
		for _, p := range c16Paths[:3] {
			for lo := 0; lo < len(targets); lo += 150 {
				hi := lo + 150
				if hi > len(targets) {
					hi = len(targets)
				}
				broot, err := os.MkdirTemp(troot, "batch")
				must(t, err)
				must(t, mkLinkDirs(broot))
				rels := make([]string, hi-lo)
				for i := range rels {
					rels[i] = fmt.Sprintf("%s%d", p, i)
					must(t, placeInitial(broot, leg, rels[i]))
				}
				snap, cache, _, err := doScan(broot, nil, nil, nil, newIgnorer(t, nil), nil, portableModes)
				must(t, err)
				for i, rc := range targets[lo:hi] {
					c := c16case{leg, p, rc.target}
					acc, what, err := replaceByLink(broot, snap, cache, rels[i], p, rc.target)
					must(t, err)
					note(c, rc.ntok, acc, what)
				}
				must(t, os.RemoveAll(broot))
			}
		}
	}

	// Report violations smallest first (fewest tokens, shallowest link, then
	// lexicographic) so that the first one printed is the minimal failing input.
	sort.SliceStable(viols, func(i, j int) bool {
		a, b := viols[i], viols[j]
		if a.ntok != b.ntok {
			return a.ntok < b.ntok
		}
		if len(a.c.Path) != len(b.c.Path) {
			return len(a.c.Path) < len(b.c.Path)
		}
		if a.c.Target != b.c.Target {
			return a.c.Target < b.c.Target
		}
		return a.c.Leg < b.c.Leg
	})
	if len(viols) > 0 {
		r.Set("minimal_violation", viols[0].c)
	}
	for _, v := range viols {
		c := v.c
		r.Violate(c.key(), v.what, c, func() bool {
			switch c.Leg {
			case "normalize":
				_, w := runNormalize(c)
				return w != ""
			case "scan":
				_, w, err := runScanOne(t, c)
				return err == nil && w != ""
			case "transition":
				_, w, err := runTransitionOne(c)
				return err == nil && w != ""
			default:
				_, w, err := runReplaceOne(t, c)
				return err == nil && w != ""
			}
		})
	}
	r.Sample(c16case{"normalize", "d/l", "a/../.."})
	r.Sample(c16case{"normalize", "l", "a//../.."})
	r.Sample(c16case{"scan", "d/e/l", "../../a"})
	r.Sample(c16case{"transition", "l", "./a/"})
	r.Sample(c16case{"retarget", "d/l", "../.."})
}
