//go:build verif

package scan

import (
	"bytes"
	"crypto/sha1"
	"encoding/json"
	"fmt"
	"os"
	"path/filepath"
	"sort"
	"strconv"
	"strings"
	"sync"
	"sync/atomic"
	"syscall"
	"testing"
	"time"

	"github.com/mutagen-io/mutagen/pkg/synchronization/core"
	"github.com/mutagen-io/mutagen/pkg/verifhook"

	"verif/internal/vr"
)

// leaf is one element of the C12 leaf alphabet. mk creates it inside dir using
// slot ("a", "b", "x", "y") as (part of) its name.
type leaf struct {
	ID string
	mk func(dir, slot string) error
}

// fileBytes is the deterministic content of a generated file.
func fileBytes(size int, slot string) []byte {
	b := make([]byte, size)
	for i := range b {
		b[i] = byte(i*7 + int(slot[0]))
	}
	return b
}

func mkFile(name func(slot string) string, size int, mode os.FileMode) func(dir, slot string) error {
	return func(dir, slot string) error {
		p := filepath.Join(dir, name(slot))
		if err := os.WriteFile(p, fileBytes(size, slot), 0o600); err != nil {
			return err
		}
		return os.Chmod(p, mode) // exact mode, independent of the umask
	}
}

func mkLink(name func(slot string) string, target string) func(dir, slot string) error {
	return func(dir, slot string) error { return os.Symlink(target, filepath.Join(dir, name(slot))) }
}

// mkDirWith creates a directory holding one file "in".
func mkDirWith(name func(slot string) string, populated bool) func(dir, slot string) error {
	return func(dir, slot string) error {
		p := filepath.Join(dir, name(slot))
		if err := os.Mkdir(p, 0o700); err != nil {
			return err
		}
		if populated {
			return os.WriteFile(filepath.Join(p, "in"), []byte("inner"), 0o600)
		}
		return nil
	}
}

func plain(slot string) string { return slot }
func pre(prefix string) func(string) string {
	return func(slot string) string { return prefix + slot }
}
func suf(suffix string) func(string) string {
	return func(slot string) string { return slot + suffix }
}

// c12Leaves is the alphabet named by the property's quantifier: files of
// several sizes and modes, links (portable, non-portable, POSIX-raw only),
// FIFOs (and sockets), non-UTF-8 names, temporary-prefixed names, plus ignored
// names and fault-injected unreadable content.
var c12Leaves = []leaf{
	{"-", nil},
	{"f0", mkFile(plain, 0, 0o600)},
	{"f1", mkFile(plain, 1, 0o644)},
	{"fbig", mkFile(plain, 40000, 0o600)}, // larger than the scanner's 32 KiB copy buffer
	{"fx", mkFile(plain, 1, 0o700)},
	{"fx111", mkFile(plain, 3, 0o111)},
	{"fgx", mkFile(plain, 2, 0o610)}, // only the group may execute
	{"fox", mkFile(plain, 2, 0o601)}, // only others may execute
	{"fsuid", mkFile(plain, 1, 0o644|os.ModeSetuid)},
	{"l-sib", mkLink(plain, "t")},
	{"l-up", mkLink(plain, "../t")},     // portable from depth 1 on
	{"l-up2", mkLink(plain, "../../t")}, // portable from depth 2 on
	{"l-abs", mkLink(plain, "/etc/passwd")},
	{"l-dot", mkLink(plain, ".")},
	{"l-slashes", mkLink(plain, "t//u/")}, // empty components, stays inside at every depth
	{"l-bs", mkLink(plain, `t\u`)},
	{"l-colon", mkLink(plain, "c:t")},
	{"l-128", mkLink(plain, strings.Repeat("t", 128))}, // exactly fills the initial readlink buffer
	{"l-129", mkLink(plain, strings.Repeat("t", 129))},
	{"l-247", mkLink(plain, strings.Repeat("t", 247))},
	{"l-248", mkLink(plain, strings.Repeat("t", 248))},
	{"fifo", func(dir, slot string) error { return mkfifo(filepath.Join(dir, slot)) }},
	{"sock", func(dir, slot string) error { return mksock(filepath.Join(dir, slot)) }},
	{"bad-f", mkFile(suf("\xff"), 1, 0o600)},    // non-UTF-8 file name
	{"bad-d", mkDirWith(suf("\xfe\xfd"), true)}, // non-UTF-8 directory name (with content)
	{"tmp-f", mkFile(pre(temporaryPrefix), 5, 0o600)},
	{"tmp-d", mkDirWith(pre(temporaryPrefix+"d"), true)},
	{"mid-tmp", mkFile(suf(temporaryPrefix), 4, 0o600)}, // marker not at the start: NOT a temporary file
	{"dir0", mkDirWith(plain, false)},
	{"dir1", mkDirWith(plain, true)},
	{"uni", mkFile(pre("ü"), 2, 0o600)},
	{"ig-f", mkFile(pre(ignoredPrefix), 6, 0o700)},
	{"ig-d", mkDirWith(pre(ignoredPrefix+"d"), true)},
	{"noread-f", mkFile(pre(noReadPrefix), 7, 0o600)},
	{"noread-d", mkDirWith(pre(noReadPrefix+"d"), true)},
	{"rdfail", mkFile(pre(readFailPrefix), 9, 0o600)},
	{"lnfail", mkLink(pre(linkFailPrefix), "t")},
}

func leafByID(id string) *leaf {
	for i := range c12Leaves {
		if c12Leaves[i].ID == id {
			return &c12Leaves[i]
		}
	}
	if strings.HasPrefix(id, "p:") {
		return productLeaf(id)
	}
	return nil
}

// The product leg draws the name shape and the kind of an entry independently:
// every shape x every kind. IDs are "p:<shape>:<kind>".
var (
	productShapes = []string{"plain", "bad", "tmp", "ig"}
	productKinds  = []string{"file", "dir", "link", "fifo", "sock"}
)

func productLeaf(id string) *leaf {
	parts := strings.Split(id, ":")
	if len(parts) != 3 {
		return nil
	}
	var name func(string) string
	switch parts[1] {
	case "plain":
		name = plain
	case "bad":
		name = suf("\xff\xfe")
	case "tmp":
		name = pre(temporaryPrefix)
	case "ig":
		name = pre(ignoredPrefix)
	default:
		return nil
	}
	var mk func(dir, slot string) error
	switch parts[2] {
	case "file":
		mk = mkFile(name, 3, 0o700)
	case "dir":
		mk = mkDirWith(name, true)
	case "link":
		mk = mkLink(name, "t")
	case "fifo":
		mk = func(dir, slot string) error { return mkfifo(filepath.Join(dir, name(slot))) }
	case "sock":
		mk = func(dir, slot string) error { return mksock(filepath.Join(dir, name(slot))) }
	default:
		return nil
	}
	return &leaf{id, mk}
}

func productIDs() []string {
	var out []string
	for _, sh := range productShapes {
		for _, k := range productKinds {
			out = append(out, "p:"+sh+":"+k)
		}
	}
	return out
}

// c12tree places leaves in four slots: A and B in the root (names a…, b…),
// X in d/ (depth 1), Y in d/e/ (depth 2). d exists iff X or Y is present, d/e
// iff Y is. RootFile != "" makes the root itself a regular file of that leaf
// kind; Missing makes the root not exist.
type c12tree struct {
	A, B, X, Y string
	RootFile   string `json:",omitempty"`
	Missing    bool   `json:",omitempty"`
}

type c12case struct {
	Tree     c12tree
	Sym      int
	Perm     int
	Patterns bool // ignore pattern "ig-*" active
	// Fault, when set, makes this a case of the mid-file fault leg (Tree, Sym,
	// Perm and Patterns are then unused: fixed tree, portable/portable).
	Fault *c12fault `json:",omitempty"`
	// Warm, when set, makes this a case of the warm leg (its own modes).
	Warm *c12warm `json:",omitempty"`
}

func (tr c12tree) hasIgnoredName() bool {
	for _, id := range []string{tr.A, tr.B, tr.X, tr.Y} {
		if strings.HasPrefix(id, "ig-") || strings.HasPrefix(id, "p:ig:") {
			return true
		}
	}
	return false
}

func (tr c12tree) trivial() bool {
	return tr.A == "-" && tr.B == "-" && tr.X == "-" && tr.Y == "-" && tr.RootFile == ""
}

// materialize builds the tree at root (which must not exist).
func (tr c12tree) materialize(root string) error {
	if tr.Missing {
		return nil
	}
	if tr.RootFile != "" {
		dir, name := filepath.Split(root)
		return leafByID(tr.RootFile).mk(dir, name)
	}
	if err := os.Mkdir(root, 0o700); err != nil {
		return err
	}
	place := func(dir, slot, id string) error {
		l := leafByID(id)
		if l == nil {
			return fmt.Errorf("unknown leaf %q", id)
		}
		if l.mk == nil {
			return nil
		}
		if err := os.MkdirAll(dir, 0o700); err != nil {
			return err
		}
		return l.mk(dir, slot)
	}
	if err := place(root, "a", tr.A); err != nil {
		return err
	}
	if err := place(root, "b", tr.B); err != nil {
		return err
	}
	if err := place(filepath.Join(root, "d"), "x", tr.X); err != nil {
		return err
	}
	return place(filepath.Join(root, "d", "e"), "y", tr.Y)
}

// installC12Hook makes content "unreadable" by name prefix. The handler is
// stateless, so it is safe under parallel workers on different roots.
func installC12Hook() {
	verifhook.Set(func(op string, fd int, name string) error {
		switch op {
		case "openat":
			if strings.HasPrefix(name, noReadPrefix) {
				return syscall.EACCES
			}
		case "readlinkat":
			if strings.HasPrefix(name, linkFailPrefix) {
				return syscall.EACCES
			}
		case "read":
			p, err := os.Readlink("/proc/self/fd/" + strconv.Itoa(fd))
			if err != nil {
				return nil
			}
			if strings.HasPrefix(filepath.Base(p), readFailPrefix) {
				return syscall.EIO
			}
			if v, ok := midFaults.Load(p); ok {
				mf := v.(*midFault)
				if n := int(mf.reads.Add(1)) - 1; n == mf.k {
					mf.fired.Store(true)
					if mf.action == "eio" {
						return syscall.EIO
					}
					// "grow": the file gets one more byte while it is being hashed.
					if f, err := os.OpenFile(p, os.O_APPEND|os.O_WRONLY, 0); err == nil {
						f.Write([]byte{'!'})
						f.Close()
					}
				}
			}
		}
		return nil
	})
}

// midFault is a fault armed on the k-th read (k = 0, 1, ...) of one file,
// identified by its absolute path (the read hook point carries the file
// descriptor, which /proc/self/fd resolves).
type midFault struct {
	k      int
	action string // "eio": that read fails with EIO; "grow": a byte is appended to the file just before it
	reads  atomic.Int32
	fired  atomic.Bool
}

var midFaults sync.Map // absolute path -> *midFault

// c12fault describes one case of the mid-file fault leg: a fixed tree of six
// regular files (two levels), whose names are rotated by Rot so that the
// directory order of the faulted file relative to the others varies; the file
// in role Target gets the fault at read ordinal K.
type c12fault struct {
	Rot    int
	Target string // role: big40 | big100 | sub40
	K      int
	Action string // eio | grow
}

var faultNames = []string{"p", "q", "r", "s", "t", "w"}

// faultRoles lists (role, directory, size); names are assigned by rotation.
var faultRoles = []struct {
	role string
	dir  string
	size int
}{
	{"one", "", 1}, {"big40", "", 40000}, {"big100", "", 100000}, {"five", "", 5}, {"sub40", "d", 40000}, {"three", "d", 3},
}

// materializeFaultTree builds the tree and returns the root-relative path of each role.
func materializeFaultTree(root string, rot int) (map[string]string, error) {
	if err := os.MkdirAll(filepath.Join(root, "d"), 0o700); err != nil {
		return nil, err
	}
	paths := map[string]string{}
	for i, fr := range faultRoles {
		rel := faultNames[(i+rot)%len(faultNames)]
		if fr.dir != "" {
			rel = fr.dir + "/" + rel
		}
		if err := os.WriteFile(filepath.Join(root, rel), fileBytes(fr.size, fr.role), 0o600); err != nil {
			return nil, err
		}
		paths[fr.role] = rel
	}
	return paths, nil
}

// runC12Fault runs one mid-file fault case in a fresh directory: the faulted
// file must be a problem (eio) and EVERY OTHER entry, digests included, must
// still match the independent walk; so must the digests in the returned cache.
func runC12Fault(t testing.TB, f c12fault, fsExec bool) (what string, fired bool, err error) {
	base, err := os.MkdirTemp("", "c12f")
	if err != nil {
		return "", false, err
	}
	defer os.RemoveAll(base)
	if base, err = filepath.EvalSymlinks(base); err != nil {
		return "", false, err
	}
	root := filepath.Join(base, "root")
	paths, err := materializeFaultTree(root, f.Rot)
	if err != nil {
		return "", false, err
	}
	rel := paths[f.Target]
	mf := &midFault{k: f.K, action: f.Action}
	abs := filepath.Join(root, rel)
	midFaults.Store(abs, mf)
	snap, cache, _, serr := doScan(root, nil, nil, nil, newIgnorer(t, nil), nil, portableModes)
	midFaults.Delete(abs)
	if !mf.fired.Load() {
		return "", false, nil
	}
	if serr != nil {
		return "scan failed: " + serr.Error(), true, nil
	}
	o := walkOpts{m: portableModes, fsExec: fsExec, faulted: map[string]string{rel: "problem"}}
	if f.Action == "grow" {
		o.faulted[rel] = "any"
		o.skipWalkCounts = true
	}
	if d := checkSnapshot(root, snap, o); d != "" {
		return fmt.Sprintf("with %s at read %d of %s: %s", f.Action, f.K, rel, d), true, nil
	}
	// The digest cache returned alongside must carry the same (right) digests.
	for role, p := range paths {
		if p == rel {
			continue
		}
		data, rerr := os.ReadFile(filepath.Join(root, p))
		if rerr != nil {
			return "", true, rerr
		}
		sum := sha1.Sum(data)
		ce := cache.Entries[p]
		if ce == nil || !bytes.Equal(ce.Digest, sum[:]) {
			return fmt.Sprintf("with %s at read %d of %s: returned digest cache entry for %s (%s) is %v, expected digest %x", f.Action, f.K, rel, p, role, ce, sum), true, nil
		}
	}
	return "", true, nil
}

// ---- warm leg: a second, plain (non-accelerated) full scan that is handed
// the first scan's digest cache and ignore cache, after one edit ----

// c12warm is one case: Edit applied to Path of the fixed warm tree between a
// cold scan and a warm scan under the given modes.
type c12warm struct {
	Edit string
	Path string
	Sym  int
	Perm int
}

// warmEdits lists (edit, paths it is applied to). The warm tree is
//
//	f (0600) g (0700) l -> f   d/{ x (0644) y (0755) m -> x  e/ (empty)  k/{z} }
var warmEdits = []struct {
	edit  string
	paths []string
}{
	{"none", []string{""}},
	{"chmod+x", []string{"f", "d/x"}},
	{"chmod-x", []string{"g", "d/y"}},
	{"chmod-other", []string{"f", "g", "d/x"}}, // toggles a non-executable permission bit
	{"rewrite", []string{"f", "g", "d/x"}},     // same size, new bytes, later mtime
	{"grow", []string{"f", "g", "d/x"}},        // size change
	{"swap", []string{"f", "g", "d/x"}},        // same size and mtime, new inode, new bytes
	{"retarget", []string{"l", "d/m"}},
	{"file2dir", []string{"f", "d/x"}},
	{"dir2file", []string{"d/e", "d/k"}},
	{"link2file", []string{"l"}},
	{"file2link", []string{"f"}},
	{"dir2link", []string{"d/e"}},
	{"link2dir", []string{"d/m"}},
	{"remove", []string{"g", "d/k"}},
}

func warmStamp(p string, sec int64) error {
	tm := time.Unix(1_400_000_000+sec, 0)
	return os.Chtimes(p, tm, tm)
}

func materializeWarmTree(root string) error {
	if err := os.MkdirAll(filepath.Join(root, "d", "e"), 0o700); err != nil {
		return err
	}
	if err := os.Mkdir(filepath.Join(root, "d", "k"), 0o700); err != nil {
		return err
	}
	files := []struct {
		rel  string
		data string
		mode os.FileMode
	}{{"f", "ffff", 0o600}, {"g", "gggg", 0o700}, {"d/x", "xxxx", 0o644}, {"d/y", "yyyy", 0o755}, {"d/k/z", "zzzz", 0o600}}
	for i, f := range files {
		p := filepath.Join(root, f.rel)
		if err := os.WriteFile(p, []byte(f.data), 0o600); err != nil {
			return err
		}
		if err := os.Chmod(p, f.mode); err != nil {
			return err
		}
		if err := warmStamp(p, int64(i+1)); err != nil {
			return err
		}
	}
	if err := os.Symlink("f", filepath.Join(root, "l")); err != nil {
		return err
	}
	return os.Symlink("x", filepath.Join(root, "d", "m"))
}

// applyWarmEdit performs one edit with ordinary os calls. Every content change
// gets a later mtime, except "swap", which changes the inode instead.
func applyWarmEdit(root string, w c12warm) error {
	p := filepath.Join(root, w.Path)
	switch w.Edit {
	case "none":
		return nil
	case "chmod+x", "chmod-x", "chmod-other":
		fi, err := os.Lstat(p)
		if err != nil {
			return err
		}
		m := fi.Mode().Perm()
		switch w.Edit {
		case "chmod+x":
			m |= 0o100
		case "chmod-x":
			m &^= 0o111
		default:
			m ^= 0o040
		}
		return os.Chmod(p, m)
	case "rewrite":
		if err := os.WriteFile(p, []byte("RRRR"), 0o600); err != nil {
			return err
		}
		return warmStamp(p, 100)
	case "grow":
		if err := os.WriteFile(p, []byte("GGGGG"), 0o600); err != nil {
			return err
		}
		return warmStamp(p, 101)
	case "swap":
		fi, err := os.Lstat(p)
		if err != nil {
			return err
		}
		tmp := filepath.Join(filepath.Dir(root), "swap-staging")
		if err := os.WriteFile(tmp, []byte("SSSS"), 0o600); err != nil {
			return err
		}
		if err := os.Chmod(tmp, fi.Mode().Perm()); err != nil {
			return err
		}
		if err := os.Chtimes(tmp, fi.ModTime(), fi.ModTime()); err != nil {
			return err
		}
		return os.Rename(tmp, p) // the old inode was still allocated when the new one was made
	case "retarget":
		if err := os.Remove(p); err != nil {
			return err
		}
		return os.Symlink("g", p)
	case "file2dir", "link2dir":
		if err := os.Remove(p); err != nil {
			return err
		}
		if err := os.Mkdir(p, 0o700); err != nil {
			return err
		}
		q := filepath.Join(p, "n")
		if err := os.WriteFile(q, []byte("nnnn"), 0o700); err != nil {
			return err
		}
		return warmStamp(q, 102)
	case "dir2file", "link2file":
		if err := os.RemoveAll(p); err != nil {
			return err
		}
		if err := os.WriteFile(p, []byte("NNNN"), 0o600); err != nil {
			return err
		}
		return warmStamp(p, 103)
	case "file2link", "dir2link":
		if err := os.RemoveAll(p); err != nil {
			return err
		}
		return os.Symlink("g", p)
	case "remove":
		return os.RemoveAll(p)
	}
	return fmt.Errorf("unknown edit %q", w.Edit)
}

// checkCacheAgainstDisk demands of the digest cache returned by a scan that
// every file the walk expects as a file has an entry whose digest, mode and
// size are what is on disk now.
func checkCacheAgainstDisk(root string, want *xnode, rel string, cache *core.Cache) string {
	if want == nil {
		return ""
	}
	switch want.Kind {
	case "dir":
		names := make([]string, 0, len(want.Children))
		for n := range want.Children {
			names = append(names, n)
		}
		sort.Strings(names)
		for _, n := range names {
			crel := n
			if rel != "" {
				crel = rel + "/" + n
			}
			if d := checkCacheAgainstDisk(root, want.Children[n], crel, cache); d != "" {
				return d
			}
		}
	case "file":
		var st syscall.Stat_t
		if err := syscall.Lstat(filepath.Join(root, rel), &st); err != nil {
			return "INFRA: " + err.Error()
		}
		ce := cache.GetEntries()[rel]
		if ce == nil {
			return fmt.Sprintf("%s: no entry in the returned digest cache", rel)
		}
		if !bytes.Equal(ce.Digest, want.Digest) {
			return fmt.Sprintf("%s: returned digest cache has digest %x, the file's is %x", rel, ce.Digest, want.Digest)
		}
		if ce.Mode != st.Mode || ce.Size != uint64(st.Size) {
			return fmt.Sprintf("%s: returned digest cache has mode %o size %d, the file has mode %o size %d", rel, ce.Mode, ce.Size, st.Mode, st.Size)
		}
	}
	return ""
}

// runC12Warm: cold scan, one edit, warm full scan (no baseline, no recheck
// paths; the first scan's caches), oracle on the warm result.
func runC12Warm(t testing.TB, w c12warm, fsExec bool) (string, error) {
	base, err := os.MkdirTemp("", "c12w")
	if err != nil {
		return "", err
	}
	defer os.RemoveAll(base)
	root := filepath.Join(base, "root")
	if err := materializeWarmTree(root); err != nil {
		return "", err
	}
	m := modes{core.SymbolicLinkMode(w.Sym), core.PermissionsMode(w.Perm)}
	ign := newIgnorer(t, nil)
	o := walkOpts{m: m, fsExec: fsExec}
	snap0, cache0, ic0, err := doScan(root, nil, nil, nil, ign, nil, m)
	if err != nil {
		return "", fmt.Errorf("cold scan: %w", err)
	}
	if d := checkSnapshot(root, snap0, o); d != "" {
		return "cold scan of the warm tree: " + d, nil
	}
	if err := applyWarmEdit(root, w); err != nil {
		return "", err
	}
	snap1, cache1, _, err := doScan(root, nil, nil, cache0, ign, ic0, m)
	if err != nil {
		return "warm scan failed: " + err.Error(), nil
	}
	if d := checkSnapshot(root, snap1, o); d != "" {
		return fmt.Sprintf("warm scan after %s %s: %s", w.Edit, w.Path, d), nil
	}
	var wc xcounts
	want, err := walk(root, "", o, &wc)
	if err != nil {
		return "", err
	}
	if d := checkCacheAgainstDisk(root, want, "", cache1); d != "" {
		return fmt.Sprintf("warm scan after %s %s: %s", w.Edit, w.Path, d), nil
	}
	return "", nil
}

// classes lists the observed entry classes of a snapshot (vacuity guard).
func classes(e *core.Entry, out map[string]bool) {
	if e == nil {
		return
	}
	k := kindName(e)
	if e.Kind == core.EntryKind_File && e.Executable {
		k = "file+x"
	}
	out[k] = true
	for _, c := range e.Contents {
		classes(c, out)
	}
}

// runC12 scans an already materialized root under one configuration and applies the oracle.
func runC12(t testing.TB, root string, c c12case, fsExec bool) (what string, snap *core.Snapshot) {
	m := modes{core.SymbolicLinkMode(c.Sym), core.PermissionsMode(c.Perm)}
	var patterns []string
	if c.Patterns {
		patterns = []string{ignoredPrefix + "*"}
	}
	snap, _, _, err := doScan(root, nil, nil, nil, newIgnorer(t, patterns), nil, m)
	if err != nil {
		return "scan failed: " + err.Error(), nil
	}
	return checkSnapshot(root, snap, walkOpts{m: m, fsExec: fsExec, patterns: c.Patterns}), snap
}

// runC12Fresh materializes the case's tree in a fresh directory and runs it.
func runC12Fresh(t testing.TB, c c12case, fsExec bool) string {
	base, err := os.MkdirTemp("", "c12r")
	must(t, err)
	defer os.RemoveAll(base)
	root := filepath.Join(base, "root")
	must(t, c.Tree.materialize(root))
	what, _ := runC12(t, root, c, fsExec)
	return what
}

func TestC12(t *testing.T) {
	r := vr.New(t, "C12", "exploration")
	defer r.Finish()
	installC12Hook()
	defer verifhook.Set(nil)
	scratch := t.TempDir()
	fsExec := fsPreservesExecutability(t, scratch)

	if raw := vr.ReplayCase(); raw != nil {
		var c c12case
		must(t, json.Unmarshal(raw, &c))
		if c.Warm != nil {
			what, err := runC12Warm(t, *c.Warm, fsExec)
			must(t, err)
			t.Logf("replay %s: verdict %q", vr.J(c), what)
			r.Case(vr.J(c), true)
			if what != "" {
				r.Violate(vr.J(c), what, c, nil)
			}
			return
		}
		if c.Fault != nil {
			what, fired, err := runC12Fault(t, *c.Fault, fsExec)
			must(t, err)
			t.Logf("replay %s: fault fired=%v verdict %q", vr.J(c), fired, what)
			r.Case(vr.J(c), fired)
			if what != "" {
				r.Violate(vr.J(c), what, c, nil)
			}
			return
		}
		root := filepath.Join(scratch, "root")
		must(t, c.Tree.materialize(root))
		what, snap := runC12(t, root, c, fsExec)
		t.Logf("replay %s: filesystem preserves executability=%v", vr.J(c), fsExec)
		if snap != nil {
			data, _ := json.MarshalIndent(snap, "", " ")
			t.Logf("snapshot: %s", data)
		}
		t.Logf("verdict %q", what)
		r.Case(vr.J(c), true)
		if what != "" {
			r.Violate(vr.J(c), what, c, nil)
		}
		return
	}

	ids := make([]string, len(c12Leaves))
	for i, l := range c12Leaves {
		ids[i] = l.ID
	}
	n := len(ids)
	shape := "every pair of leaves in slots (a,b), (a,d/x), (a,d/e/y), (d/x,d/e/y), other slots absent"
	if vr.Thorough() {
		shape = "every triple of leaves in slots (a, d/x, d/e/y) and every pair in slots (a,b)"
	}
	r.Rule(fmt.Sprintf("%s over a %d-leaf alphabet %v, plus the root itself as a regular file of each file kind and a missing root; each tree is created on disk and scanned cold by core.Scan under 3 symbolic link modes x 2 permissions modes (and again with the ignore pattern \"ig-*\" when it contains an ig- name). Before that, the product leg: name shape {plain, non-UTF-8, temporary-prefixed, ignored} x kind {file, dir, link, FIFO, socket} as a full product, each combination alone at depths 0..2 and every pair of combinations side by side, all mode pairs. Then the mid-file fault leg: a fixed tree of six regular files (1..100 000 bytes, two levels) under each of 6 name rotations, each file > 32 KiB in turn faulted at every read ordinal k (EIO on that read, or one byte appended to the file just before it), portable/portable: the faulted file must be problematic (EIO) and every other entry and every returned digest-cache entry must match the walk exactly. And the warm leg: a fixed 10-entry tree is scanned cold, one edit out of {chmod +x, chmod -x, chmod of another bit, same-size rewrite with later mtime, size change, same-size same-mtime inode swap, link retarget, file/dir/link type changes, removal} is applied, and a plain full scan that is handed the first scan's digest and ignore caches (no baseline, no recheck paths) must again match the walk, as must digest/mode/size of every entry of the returned digest cache; all 6 mode pairs. Non-trivial = at least one slot is occupied / the fault fired / an edit was applied; distinct by (tree, modes, patterns) / (rotation, target, k, action).", shape, n, ids))
	r.Assume("a snapshot must also pass its own EnsureValid and be proto.Marshal-able (it is a wire message; a raw non-UTF-8 key breaks that)",
		"Linux/ext4 scratch directory, probe mode \"probe\"; Unicode-decomposing filesystems are not available here",
		"running as root: unreadable content is produced by verifhook-injected EACCES on openat / readlinkat and EIO on read, keyed by name prefix",
		"in permissions mode manual a snapshot reports no executability (documented meaning of the mode)",
		"for links in portable mode the expected classification is the lexical oracle of C16; the alphabet contains no target on which the unfixed C16 defect shows (that is C16's finding)",
		"the keys under which non-UTF-8 names are stored are not constrained; one problematic entry per such name is demanded")
	if !fsExec {
		r.Assume("scratch filesystem does not preserve executability: executable is expected false everywhere")
	}

	// evalTree materializes one tree and runs every configuration on it.
	evalTree := func(l *vr.Local, dir string, serial *int, tr c12tree) {
		*serial++
		base := filepath.Join(dir, fmt.Sprintf("t%d", *serial))
		must(t, os.Mkdir(base, 0o700))
		root := filepath.Join(base, "root")
		must(t, tr.materialize(root))
		for _, sym := range symModes {
			for _, perm := range permModes {
				for _, pat := range []bool{false, true} {
					if pat && !tr.hasIgnoredName() {
						continue
					}
					c := c12case{Tree: tr, Sym: int(sym), Perm: int(perm), Patterns: pat}
					what, snap := runC12(t, root, c, fsExec)
					l.Case(vr.J(c), !tr.trivial())
					if what != "" {
						if strings.HasPrefix(what, "INFRA:") {
							t.Fatalf("%s (%s)", what, vr.J(c))
						}
						l.Outcome("VIOLATION")
						r.Violate(vr.J(c), what, c, func() bool { return runC12Fresh(t, c, fsExec) != "" })
						continue
					}
					cl := map[string]bool{}
					classes(snap.Content, cl)
					for k := range cl {
						l.Outcome("has-" + k)
					}
				}
			}
		}
		must(t, os.RemoveAll(base))
	}

	// ---- product leg (run first): name shape {plain, non-UTF-8, temporary-
	// prefixed, ignored} x kind {file, dir, link, FIFO, socket}, every
	// combination alone at depth 0, 1 and 2, and every pair of combinations in
	// the same directory; all mode pairs (and the ignore pattern when present).
	func() {
		l := r.Local()
		defer l.Flush()
		dir := filepath.Join(scratch, "product")
		must(t, os.Mkdir(dir, 0o700))
		serial := 0
		pids := productIDs()
		for _, a := range pids {
			evalTree(l, dir, &serial, c12tree{A: a, B: "-", X: "-", Y: "-"})
			evalTree(l, dir, &serial, c12tree{A: "-", B: "-", X: a, Y: "-"})
			evalTree(l, dir, &serial, c12tree{A: "-", B: "-", X: "-", Y: a})
			for _, b := range pids {
				evalTree(l, dir, &serial, c12tree{A: a, B: b, X: "-", Y: "-"})
			}
		}
	}()
	r.Sample(c12case{Tree: c12tree{A: "p:bad:fifo", B: "p:tmp:link", X: "-", Y: "-"}, Sym: 2, Perm: 1})

	// ---- mid-file fault leg (run first so that no budget can cut it) ----
	// A fixed tree of six regular files (1, 5, 3, 40 000, 40 000 and 100 000
	// bytes; two of them in d/) under every rotation of their names; each file
	// larger than the 32 KiB copy buffer in turn gets EIO at, or a concurrent
	// one-byte append just before, its k-th read for every k until the fault
	// no longer fires.
	for rot := 0; rot < len(faultNames); rot++ {
		for _, target := range []string{"big40", "big100", "sub40"} {
			for _, action := range []string{"eio", "grow"} {
				for k := 0; ; k++ {
					f := c12fault{rot, target, k, action}
					c := c12case{Fault: &f}
					what, fired, err := runC12Fault(t, f, fsExec)
					must(t, err)
					r.Case(vr.J(c), fired)
					if !fired {
						break
					}
					if what != "" {
						r.Outcome("VIOLATION")
						r.Violate(vr.J(c), what, c, func() bool {
							w, _, err := runC12Fault(t, f, fsExec)
							return err == nil && w != ""
						})
					} else {
						r.Outcome("midfile-" + action + "-others-exact")
					}
				}
			}
		}
	}
	r.Sample(c12case{Fault: &c12fault{2, "big100", 1, "eio"}})

	// ---- warm leg (also run before the wide enumeration) ----
	for _, we := range warmEdits {
		for _, p := range we.paths {
			for _, sym := range symModes {
				for _, perm := range permModes {
					w := c12warm{we.edit, p, int(sym), int(perm)}
					c := c12case{Warm: &w}
					what, err := runC12Warm(t, w, fsExec)
					must(t, err)
					r.Case(vr.J(c), we.edit != "none")
					if what != "" {
						r.Outcome("VIOLATION")
						r.Violate(vr.J(c), what, c, func() bool {
							x, err := runC12Warm(t, w, fsExec)
							return err == nil && x != ""
						})
					} else {
						r.Outcome("warm-" + we.edit + "-exact")
					}
				}
			}
		}
	}
	r.Sample(c12case{Warm: &c12warm{"chmod+x", "d/x", 2, 1}})

	vr.Parallel(n, func(i int) {
		l := r.Local()
		defer l.Flush()
		dir := filepath.Join(scratch, fmt.Sprintf("w%d", i))
		must(t, os.Mkdir(dir, 0o700))
		serial := 0
		a := ids[i]
		if vr.Thorough() {
			for _, x := range ids {
				for _, y := range ids {
					evalTree(l, dir, &serial, c12tree{A: a, B: "-", X: x, Y: y})
				}
			}
			for _, b := range ids {
				evalTree(l, dir, &serial, c12tree{A: a, B: b, X: "-", Y: "-"})
			}
		} else {
			for _, o := range ids {
				evalTree(l, dir, &serial, c12tree{A: a, B: o, X: "-", Y: "-"})
				evalTree(l, dir, &serial, c12tree{A: a, B: "-", X: o, Y: "-"})
				evalTree(l, dir, &serial, c12tree{A: a, B: "-", X: "-", Y: o})
				evalTree(l, dir, &serial, c12tree{A: "-", B: "-", X: a, Y: o})
			}
		}
		// Root that is itself a regular file (every file kind), and a missing root.
		if strings.HasPrefix(a, "f") && a != "fifo" {
			evalTree(l, dir, &serial, c12tree{A: "-", B: "-", X: "-", Y: "-", RootFile: a})
		}
		if i == 0 {
			evalTree(l, dir, &serial, c12tree{A: "-", B: "-", X: "-", Y: "-", Missing: true})
		}
	})
	r.Sample(c12case{Tree: c12tree{A: "fx", B: "-", X: "l-up", Y: "bad-f"}, Sym: 2, Perm: 1, Patterns: false})
	r.Sample(c12case{Tree: c12tree{A: "fifo", B: "tmp-d", X: "-", Y: "-"}, Sym: 3, Perm: 2, Patterns: false})
	r.Sample(c12case{Tree: c12tree{A: "ig-d", B: "-", X: "-", Y: "noread-f"}, Sym: 1, Perm: 1, Patterns: true})
}
