//go:build verif

package scan

import (
	"encoding/json"
	"fmt"
	"os"
	"path/filepath"
	"strconv"
	"strings"
	"syscall"
	"testing"

	"github.com/mutagen-io/mutagen/pkg/synchronization/core"
	"github.com/mutagen-io/mutagen/pkg/verifhook"

	"verif/internal/vr"
)

// leaf is one element of the C12 leaf alphabet. mk creates it inside dir using
// slot ("a", "b", "x", "y") as (part of) its name.
type leaf struct {
	ID string
	mk func(dir, slot string) error
}

// fileBytes is the deterministic content of a generated file.
func fileBytes(size int, slot string) []byte {
	b := make([]byte, size)
	for i := range b {
		b[i] = byte(i*7 + int(slot[0]))
	}
	return b
}

func mkFile(name func(slot string) string, size int, mode os.FileMode) func(dir, slot string) error {
	return func(dir, slot string) error {
		p := filepath.Join(dir, name(slot))
		if err := os.WriteFile(p, fileBytes(size, slot), 0o600); err != nil {
			return err
		}
		return os.Chmod(p, mode) // exact mode, independent of the umask
	}
}

func mkLink(name func(slot string) string, target string) func(dir, slot string) error {
	return func(dir, slot string) error { return os.Symlink(target, filepath.Join(dir, name(slot))) }
}

// mkDirWith creates a directory holding one file "in".
func mkDirWith(name func(slot string) string, populated bool) func(dir, slot string) error {
	return func(dir, slot string) error {
		p := filepath.Join(dir, name(slot))
		if err := os.Mkdir(p, 0o700); err != nil {
			return err
		}
		if populated {
			return os.WriteFile(filepath.Join(p, "in"), []byte("inner"), 0o600)
		}
		return nil
	}
}

func plain(slot string) string { return slot }
func pre(prefix string) func(string) string {
	return func(slot string) string { return prefix + slot }
}
func suf(suffix string) func(string) string {
	return func(slot string) string { return slot + suffix }
}

// c12Leaves is the alphabet named by the property's quantifier: files of
// several sizes and modes, links (portable, non-portable, POSIX-raw only),
// FIFOs (and sockets), non-UTF-8 names, temporary-prefixed names, plus ignored
// names and fault-injected unreadable content.
var c12Leaves = []leaf{
	{"-", nil},
	{"f0", mkFile(plain, 0, 0o600)},
	{"f1", mkFile(plain, 1, 0o644)},
	{"fbig", mkFile(plain, 40000, 0o600)}, // larger than the scanner's 32 KiB copy buffer
	{"fx", mkFile(plain, 1, 0o700)},
	{"fx111", mkFile(plain, 3, 0o111)},
	{"fgx", mkFile(plain, 2, 0o610)}, // only the group may execute
	{"fox", mkFile(plain, 2, 0o601)}, // only others may execute
	{"fsuid", mkFile(plain, 1, 0o644|os.ModeSetuid)},
	{"l-sib", mkLink(plain, "t")},
	{"l-up", mkLink(plain, "../t")},     // portable from depth 1 on
	{"l-up2", mkLink(plain, "../../t")}, // portable from depth 2 on
	{"l-abs", mkLink(plain, "/etc/passwd")},
	{"l-dot", mkLink(plain, ".")},
	{"l-slashes", mkLink(plain, "t//u/")}, // empty components, stays inside at every depth
	{"l-bs", mkLink(plain, `t\u`)},
	{"l-colon", mkLink(plain, "c:t")},
	{"l-247", mkLink(plain, strings.Repeat("t", 247))},
	{"l-248", mkLink(plain, strings.Repeat("t", 248))},
	{"fifo", func(dir, slot string) error { return mkfifo(filepath.Join(dir, slot)) }},
	{"sock", func(dir, slot string) error { return mksock(filepath.Join(dir, slot)) }},
	{"bad-f", mkFile(suf("\xff"), 1, 0o600)},    // non-UTF-8 file name
	{"bad-d", mkDirWith(suf("\xfe\xfd"), true)}, // non-UTF-8 directory name (with content)
	{"tmp-f", mkFile(pre(temporaryPrefix), 5, 0o600)},
	{"tmp-d", mkDirWith(pre(temporaryPrefix+"d"), true)},
	{"mid-tmp", mkFile(suf(temporaryPrefix), 4, 0o600)}, // marker not at the start: NOT a temporary file
	{"dir0", mkDirWith(plain, false)},
	{"dir1", mkDirWith(plain, true)},
	{"uni", mkFile(pre("ü"), 2, 0o600)},
	{"ig-f", mkFile(pre(ignoredPrefix), 6, 0o700)},
	{"ig-d", mkDirWith(pre(ignoredPrefix+"d"), true)},
	{"noread-f", mkFile(pre(noReadPrefix), 7, 0o600)},
	{"noread-d", mkDirWith(pre(noReadPrefix+"d"), true)},
	{"rdfail", mkFile(pre(readFailPrefix), 9, 0o600)},
	{"lnfail", mkLink(pre(linkFailPrefix), "t")},
}

func leafByID(id string) *leaf {
	for i := range c12Leaves {
		if c12Leaves[i].ID == id {
			return &c12Leaves[i]
		}
	}
	return nil
}

// c12tree places leaves in four slots: A and B in the root (names a…, b…),
// X in d/ (depth 1), Y in d/e/ (depth 2). d exists iff X or Y is present, d/e
// iff Y is. RootFile != "" makes the root itself a regular file of that leaf
// kind; Missing makes the root not exist.
type c12tree struct {
	A, B, X, Y string
	RootFile   string `json:",omitempty"`
	Missing    bool   `json:",omitempty"`
}

type c12case struct {
	Tree     c12tree
	Sym      int
	Perm     int
	Patterns bool // ignore pattern "ig-*" active
}

func (tr c12tree) hasIgnoredName() bool {
	for _, id := range []string{tr.A, tr.B, tr.X, tr.Y} {
		if strings.HasPrefix(id, "ig-") {
			return true
		}
	}
	return false
}

func (tr c12tree) trivial() bool {
	return tr.A == "-" && tr.B == "-" && tr.X == "-" && tr.Y == "-" && tr.RootFile == ""
}

// materialize builds the tree at root (which must not exist).
func (tr c12tree) materialize(root string) error {
	if tr.Missing {
		return nil
	}
	if tr.RootFile != "" {
		dir, name := filepath.Split(root)
		return leafByID(tr.RootFile).mk(dir, name)
	}
	if err := os.Mkdir(root, 0o700); err != nil {
		return err
	}
	place := func(dir, slot, id string) error {
		l := leafByID(id)
		if l == nil {
			return fmt.Errorf("unknown leaf %q", id)
		}
		if l.mk == nil {
			return nil
		}
		if err := os.MkdirAll(dir, 0o700); err != nil {
			return err
		}
		return l.mk(dir, slot)
	}
	if err := place(root, "a", tr.A); err != nil {
		return err
	}
	if err := place(root, "b", tr.B); err != nil {
		return err
	}
	if err := place(filepath.Join(root, "d"), "x", tr.X); err != nil {
		return err
	}
	return place(filepath.Join(root, "d", "e"), "y", tr.Y)
}

// installC12Hook makes content "unreadable" by name prefix. The handler is
// stateless, so it is safe under parallel workers on different roots.
func installC12Hook() {
	verifhook.Set(func(op string, fd int, name string) error {
		switch op {
		case "openat":
			if strings.HasPrefix(name, noReadPrefix) {
				return syscall.EACCES
			}
		case "readlinkat":
			if strings.HasPrefix(name, linkFailPrefix) {
				return syscall.EACCES
			}
		case "read":
			if p, err := os.Readlink("/proc/self/fd/" + strconv.Itoa(fd)); err == nil &&
				strings.HasPrefix(filepath.Base(p), readFailPrefix) {
				return syscall.EIO
			}
		}
		return nil
	})
}

// classes lists the observed entry classes of a snapshot (vacuity guard).
func classes(e *core.Entry, out map[string]bool) {
	if e == nil {
		return
	}
	k := kindName(e)
	if e.Kind == core.EntryKind_File && e.Executable {
		k = "file+x"
	}
	out[k] = true
	for _, c := range e.Contents {
		classes(c, out)
	}
}

// runC12 scans an already materialized root under one configuration and applies the oracle.
func runC12(t testing.TB, root string, c c12case, fsExec bool) (what string, snap *core.Snapshot) {
	m := modes{core.SymbolicLinkMode(c.Sym), core.PermissionsMode(c.Perm)}
	var patterns []string
	if c.Patterns {
		patterns = []string{ignoredPrefix + "*"}
	}
	snap, _, _, err := doScan(root, nil, nil, nil, newIgnorer(t, patterns), nil, m)
	if err != nil {
		return "scan failed: " + err.Error(), nil
	}
	return checkSnapshot(root, snap, walkOpts{m: m, fsExec: fsExec, patterns: c.Patterns}), snap
}

// runC12Fresh materializes the case's tree in a fresh directory and runs it.
func runC12Fresh(t testing.TB, c c12case, fsExec bool) string {
	base, err := os.MkdirTemp("", "c12r")
	must(t, err)
	defer os.RemoveAll(base)
	root := filepath.Join(base, "root")
	must(t, c.Tree.materialize(root))
	what, _ := runC12(t, root, c, fsExec)
	return what
}

func TestC12(t *testing.T) {
	r := vr.New(t, "C12", "exploration")
	defer r.Finish()
	installC12Hook()
	defer verifhook.Set(nil)
	scratch := t.TempDir()
	fsExec := fsPreservesExecutability(t, scratch)

	if raw := vr.ReplayCase(); raw != nil {
		var c c12case
		must(t, json.Unmarshal(raw, &c))
		root := filepath.Join(scratch, "root")
		must(t, c.Tree.materialize(root))
		what, snap := runC12(t, root, c, fsExec)
		t.Logf("replay %s: filesystem preserves executability=%v", vr.J(c), fsExec)
		if snap != nil {
			data, _ := json.MarshalIndent(snap, "", " ")
			t.Logf("snapshot: %s", data)
		}
		t.Logf("verdict %q", what)
		r.Case(vr.J(c), true)
		if what != "" {
			r.Violate(vr.J(c), what, c, nil)
		}
		return
	}

	ids := make([]string, len(c12Leaves))
	for i, l := range c12Leaves {
		ids[i] = l.ID
	}
	n := len(ids)
	shape := "every pair of leaves in slots (a,b), (a,d/x), (a,d/e/y), (d/x,d/e/y), other slots absent"
	if vr.Thorough() {
		shape = "every triple of leaves in slots (a, d/x, d/e/y) and every pair in slots (a,b)"
	}
	r.Rule(fmt.Sprintf("%s over a %d-leaf alphabet %v, plus the root itself as a regular file of each file kind and a missing root; each tree is created on disk and scanned cold by core.Scan under 3 symbolic link modes x 2 permissions modes (and again with the ignore pattern \"ig-*\" when it contains an ig- name). Non-trivial = at least one slot is occupied; distinct by (tree, modes, patterns).", shape, n, ids))
	r.Assume("Linux/ext4 scratch directory, probe mode \"probe\"; Unicode-decomposing filesystems are not available here",
		"running as root: unreadable content is produced by verifhook-injected EACCES on openat / readlinkat and EIO on read, keyed by name prefix",
		"in permissions mode manual a snapshot reports no executability (documented meaning of the mode)",
		"for links in portable mode the expected classification is the lexical oracle of C16; the alphabet contains no target on which the unfixed C16 defect shows (that is C16's finding)",
		"the keys under which non-UTF-8 names are stored are not constrained; one problematic entry per such name is demanded")
	if !fsExec {
		r.Assume("scratch filesystem does not preserve executability: executable is expected false everywhere")
	}

	// evalTree materializes one tree and runs every configuration on it.
	evalTree := func(l *vr.Local, dir string, serial *int, tr c12tree) {
		*serial++
		base := filepath.Join(dir, fmt.Sprintf("t%d", *serial))
		must(t, os.Mkdir(base, 0o700))
		root := filepath.Join(base, "root")
		must(t, tr.materialize(root))
		for _, sym := range symModes {
			for _, perm := range permModes {
				for _, pat := range []bool{false, true} {
					if pat && !tr.hasIgnoredName() {
						continue
					}
					c := c12case{tr, int(sym), int(perm), pat}
					what, snap := runC12(t, root, c, fsExec)
					l.Case(vr.J(c), !tr.trivial())
					if what != "" {
						if strings.HasPrefix(what, "INFRA:") {
							t.Fatalf("%s (%s)", what, vr.J(c))
						}
						l.Outcome("VIOLATION")
						r.Violate(vr.J(c), what, c, func() bool { return runC12Fresh(t, c, fsExec) != "" })
						continue
					}
					cl := map[string]bool{}
					classes(snap.Content, cl)
					for k := range cl {
						l.Outcome("has-" + k)
					}
				}
			}
		}
		must(t, os.RemoveAll(base))
	}

	vr.Parallel(n, func(i int) {
		l := r.Local()
		defer l.Flush()
		dir := filepath.Join(scratch, fmt.Sprintf("w%d", i))
		must(t, os.Mkdir(dir, 0o700))
		serial := 0
		a := ids[i]
		if vr.Thorough() {
			for _, x := range ids {
				for _, y := range ids {
					evalTree(l, dir, &serial, c12tree{A: a, B: "-", X: x, Y: y})
				}
			}
			for _, b := range ids {
				evalTree(l, dir, &serial, c12tree{A: a, B: b, X: "-", Y: "-"})
			}
		} else {
			for _, o := range ids {
				evalTree(l, dir, &serial, c12tree{A: a, B: o, X: "-", Y: "-"})
				evalTree(l, dir, &serial, c12tree{A: a, B: "-", X: o, Y: "-"})
				evalTree(l, dir, &serial, c12tree{A: a, B: "-", X: "-", Y: o})
				evalTree(l, dir, &serial, c12tree{A: "-", B: "-", X: a, Y: o})
			}
		}
		// Root that is itself a regular file (every file kind), and a missing root.
		if strings.HasPrefix(a, "f") && a != "fifo" {
			evalTree(l, dir, &serial, c12tree{A: "-", B: "-", X: "-", Y: "-", RootFile: a})
		}
		if i == 0 {
			evalTree(l, dir, &serial, c12tree{A: "-", B: "-", X: "-", Y: "-", Missing: true})
		}
	})
	r.Sample(c12case{c12tree{A: "fx", B: "-", X: "l-up", Y: "bad-f"}, 2, 1, false})
	r.Sample(c12case{c12tree{A: "fifo", B: "tmp-d", X: "-", Y: "-"}, 3, 2, false})
	r.Sample(c12case{c12tree{A: "ig-d", B: "-", X: "-", Y: "noread-f"}, 1, 1, true})
}
