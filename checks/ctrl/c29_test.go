//go:build verif

package ctrl

import (
	"context"
	"encoding/json"
	"fmt"
	"sort"
	"strings"
	"testing"
	"testing/synctest"
	"time"

	"github.com/mutagen-io/mutagen/pkg/synchronization/core"

	"verif/internal/vr"
)

// ---------------------------------------------------------------------------
// C29, controller leg: "After pausing returns, a session performs no scanning,
// staging or transitions until it is resumed ... A flush that waits returns
// success only after a complete cycle that started after the request ... and a
// reset clears history without losing either root's content."
//
// checks/session drives the lifecycle commands against real local endpoints,
// which never lose their connection. Here the scripted endpoints can become
// UNREACHABLE (a pending Poll fails, Scan/Stage/Transition and Connect fail), so
// the commands are also issued while the controller's run loop is in its
// connect / wait-to-reconnect phase, with virtual time driving the back-off.
// ---------------------------------------------------------------------------

type c29case struct {
	Mode   string   `json:"mode"`
	Events []string `json:"events"` // after the fixed prefix: both disks D{a,b,c}, one completed cycle
}

func (c c29case) key() string { return "c29ctrl:" + c.Mode + ":" + strings.Join(c.Events, ",") }

// c29alphabet: user edits, one cycle (waiting Flush), endpoint faults, virtual
// time, lifecycle commands.
func c29alphabet(thorough bool) []string {
	a := []string{"del-b-beta", "new-d-alpha", "down-alpha", "up-alpha", "advance", "cycle", "reset", "pause", "resume"}
	if thorough {
		a = append(a, "del-b-alpha", "new-d-beta", "down-beta", "up-beta")
	}
	return a
}

// c29histories: every event sequence of exactly depth events that respects the
// static rules (each edit once; an endpoint comes back only after it went away,
// at most one outage per endpoint; no two advances in a row; at most one reset
// and one pause; resume only after pause). Shorter histories are their prefixes.
func c29histories(alphabet []string, depth int) [][]string {
	var out [][]string
	var rec func(prefix []string)
	rec = func(prefix []string) {
		if len(prefix) == depth {
			out = append(out, append([]string{}, prefix...))
			return
		}
		count := map[string]int{}
		for _, e := range prefix {
			count[e]++
		}
		last := ""
		if len(prefix) > 0 {
			last = prefix[len(prefix)-1]
		}
		for _, e := range alphabet {
			ok := true
			switch {
			case strings.HasPrefix(e, "del-") || strings.HasPrefix(e, "new-"):
				ok = count[e] == 0
			case strings.HasPrefix(e, "down-"):
				ok = count[e] == 0
			case strings.HasPrefix(e, "up-"):
				ok = count["down-"+e[3:]] == 1 && count[e] == 0
			case e == "advance":
				ok = last != "advance"
			case e == "reset":
				ok = count[e] == 0
			case e == "pause":
				ok = count[e] == 0
			case e == "resume":
				ok = count["pause"] == 1 && count[e] == 0
			}
			if ok {
				rec(append(prefix, e))
			}
		}
	}
	rec(nil)
	return out
}

type c29result struct {
	verdict      string
	infra        string
	class        string
	inapplicable bool
	nontrivial   bool
	cycles       int
}

func runC29(t *testing.T, root string, c c29case, logf func(string, ...any)) (res c29result) {
	inBubble(t, func() {
		start := dir("a", file(1, false), "b", file(1, false), "c", file(1, false))
		w := newWorld(root, worldConfig{Mode: modeByName(c.Mode), AlphaPreserves: true, BetaPreserves: true}, start, start, logf != nil)
		ctx := context.Background()
		flags := map[string]bool{}

		// flush issues a waiting Flush and applies clause (iii).
		flush := func(name string) (completed bool) {
			callSeq := w.mark()
			done := make(chan error, 1)
			go func() { done <- w.mgr.Flush(ctx, w.sel(), "", false) }()
			synctest.Wait()
			var err error
			select {
			case err = <-done:
			default:
				time.Sleep(40 * time.Second)
				synctest.Wait()
				select {
				case err = <-done:
				default:
					w.fail("%s: flush still pending after 40 virtual seconds", name)
					return false
				}
			}
			res.cycles++
			if logf != nil {
				logf("  %s: flush -> %v; alpha %s beta %s", name, err, show(w.alpha.tree), show(w.beta.tree))
			}
			if err != nil {
				flags["flush-error"] = true
				return false
			}
			flags["flush-ok"] = true
			// "A flush that waits returns success only after a complete cycle that
			// started after the request": both endpoints were scanned after the call.
			seen := map[string]bool{}
			w.mu.Lock()
			for _, j := range w.journal {
				if j.Seq > callSeq && j.Op == "Scan" {
					seen[j.Side] = true
				}
			}
			w.mu.Unlock()
			if !seen["alpha"] || !seen["beta"] {
				res.verdict = fmt.Sprintf("%s: a waiting Flush returned success but no scan of both endpoints started after the request (scanned after the call: %v)", name, seen)
			}
			return true
		}

		if !flush("initial cycle") && w.infra == "" && res.verdict == "" {
			w.fail("initial cycle did not complete")
		}

		paused, pauseSeq := false, 0
		// Obligation of clause (i), set by a Reset that returned nil: file name ->
		// where it was present and with what content at the time of the Reset.
		type held struct {
			content string
			on      map[string]bool
		}
		var oblig map[string]*held
		flatFiles := func(e *E) map[string]string {
			m := map[string]string{}
			for n, ch := range e.GetContents() {
				m[n] = show(ch)
			}
			return m
		}

		for i, ev := range c.Events {
			if w.infra != "" || res.verdict != "" {
				break
			}
			name := fmt.Sprintf("event %d (%s)", i+1, ev)
			switch {
			case strings.HasPrefix(ev, "del-"), strings.HasPrefix(ev, "new-"):
				parts := strings.Split(ev, "-")
				d := w.alpha
				if parts[2] == "beta" {
					d = w.beta
				}
				exists := at(d.tree, parts[1]) != nil
				if d.tree == nil || (parts[0] == "del") != exists {
					res.inapplicable = true
					break
				}
				if parts[0] == "del" {
					d.tree = setAt(d.tree, parts[1], nil)
				} else {
					d.tree = setAt(d.tree, parts[1], file(2, false))
				}
				// A file the user touched after the reset is no longer covered by it.
				delete(oblig, parts[1])
			case strings.HasPrefix(ev, "down-"):
				w.setReachable(ev[5:], false)
				synctest.Wait()
				flags["fault"] = true
			case strings.HasPrefix(ev, "up-"):
				w.setReachable(ev[3:], true)
				synctest.Wait()
			case ev == "advance":
				time.Sleep(20 * time.Second)
				synctest.Wait()
			case ev == "cycle":
				if flush(name) && res.verdict == "" && oblig != nil {
					// "(a reset) clears history without losing either root's content": in
					// two-way-safe mode the first completed cycle after the reset leaves
					// every file that either disk held at the time of the reset on BOTH.
					af, bf := flatFiles(w.alpha.tree), flatFiles(w.beta.tree)
					var names []string
					for n := range oblig {
						names = append(names, n)
					}
					sort.Strings(names)
					for _, n := range names {
						if af[n] != oblig[n].content || bf[n] != oblig[n].content {
							res.verdict = fmt.Sprintf("%s: first completed cycle after a successful Reset: file %q (%s at the time of the reset) is now %q on alpha and %q on beta", name, n, oblig[n].content, af[n], bf[n])
							break
						}
					}
					oblig = nil
				}
			case ev == "reset":
				err := w.mgr.Reset(ctx, w.sel(), "")
				synctest.Wait()
				if logf != nil {
					logf("  %s -> %v", name, err)
				}
				if err != nil {
					flags["reset-error"] = true
					break
				}
				flags["reset-ok"] = true
				res.nontrivial = true
				if a, aerr := w.archive(); aerr != nil || a.Content != nil {
					res.verdict = fmt.Sprintf("%s: Reset returned success but the archive on disk is %s (%v)", name, show(a.GetContent()), aerr)
					break
				}
				oblig = map[string]*held{}
				for side, tree := range map[string]*E{"alpha": w.alpha.tree, "beta": w.beta.tree} {
					for n, content := range flatFiles(tree) {
						if oblig[n] == nil {
							oblig[n] = &held{content: content, on: map[string]bool{}}
						}
						if oblig[n].content != content {
							delete(oblig, n) // differing versions: a conflict, not judged
							continue
						}
						oblig[n].on[side] = true
					}
				}
			case ev == "pause":
				err := w.mgr.Pause(ctx, w.sel(), "")
				synctest.Wait()
				if logf != nil {
					logf("  %s -> %v", name, err)
				}
				if err == nil {
					paused, pauseSeq = true, w.mark()
					flags["pause-ok"] = true
					res.nontrivial = true
				} else {
					flags["pause-error"] = true
				}
			case ev == "resume":
				paused = false
				err := w.mgr.Resume(ctx, w.sel(), "")
				synctest.Wait()
				if logf != nil {
					logf("  %s -> %v", name, err)
				}
				if err == nil {
					flags["resume-ok"] = true
				} else {
					flags["resume-error"] = true
				}
			default:
				w.fail("unknown event %q", ev)
			}
			if res.inapplicable || res.verdict != "" || w.infra != "" {
				break
			}
			// "After pausing returns, a session performs no scanning, staging or
			// transitions until it is resumed."
			if paused {
				w.mu.Lock()
				for _, j := range w.journal {
					if j.Seq > pauseSeq && (j.Op == "Scan" || j.Op == "Stage" || j.Op == "Transition") {
						res.verdict = fmt.Sprintf("%s: %s on %s after Pause had returned and before any Resume", name, j.Op, j.Side)
						break
					}
				}
				w.mu.Unlock()
			}
			// Nothing is deleted on the strength of pre-reset history: until the
			// obligation is discharged every covered file stays where it was.
			for n, h := range oblig {
				for side := range h.on {
					tree := w.alpha.tree
					if side == "beta" {
						tree = w.beta.tree
					}
					if got := flatFiles(tree)[n]; got != h.content && res.verdict == "" {
						res.verdict = fmt.Sprintf("%s: after a successful Reset, file %q (%s) on %s became %q", name, n, h.content, side, got)
					}
				}
			}
			if logf != nil {
				st := "?"
				if _, states, err := w.mgr.List(ctx, w.sel(), 0); err == nil && len(states) == 1 {
					st = states[0].Status.String()
				}
				arch := "?"
				if a, err := w.archive(); err == nil {
					arch = show(a.Content)
				}
				logf("  after %s: alpha %s beta %s archive %s status %s", name, show(w.alpha.tree), show(w.beta.tree), arch, st)
			}
		}
		if logf != nil && res.verdict != "" {
			for _, l := range w.log.all {
				logf("    log %s", l)
			}
		}
		w.setReachable("alpha", true)
		w.setReachable("beta", true)
		w.close()
		if w.infra != "" {
			res.infra = w.infra
		}
		var fl []string
		for f := range flags {
			fl = append(fl, f)
		}
		sort.Strings(fl)
		res.class = strings.Join(fl, "+")
	})
	return res
}

func c29depth(thorough bool) int { return 6 }

func c29worker(t *testing.T, job *wJob, out *wOutput) {
	root := scratch(t)
	hists := c29histories(c29alphabet(job.Thorough), c29depth(job.Thorough))
	mode := modeName(core.SynchronizationMode_SynchronizationModeTwoWaySafe)
	for i := job.Shard; i < len(hists); i += job.Shards {
		if job.expired() {
			out.Extra["capped_histories"]++
			continue
		}
		c := c29case{Mode: mode, Events: hists[i]}
		res := runC29(t, root, c, nil)
		out.Extra["flushes_on_real_code"] += int64(res.cycles)
		if res.infra != "" {
			out.fail("%s: %s", c.key(), res.infra)
			return
		}
		if res.inapplicable {
			out.Extra["inapplicable_histories"]++
			continue
		}
		if res.verdict != "" {
			out.addCase(c.key(), true, "violation")
			out.violate(c.key(), res.verdict, c)
			continue
		}
		out.addCase(c.key(), res.nontrivial, res.class)
	}
}

func init() { workerFuncs["c29"] = c29worker }

func TestC29Controller(t *testing.T) {
	r := vr.New(t, "C29", "exploration")
	defer r.Finish()
	root := scratch(t)
	defer removeScratch()
	tuneGC()
	if raw := vr.ReplayCase(); raw != nil {
		var c c29case
		if err := json.Unmarshal(raw, &c); err != nil {
			t.Fatalf("INFRA: bad replay case: %v", err)
		}
		res := runC29(t, root, c, t.Logf)
		t.Logf("replay %s: verdict %q infra %q class %s inapplicable %v", c.key(), res.verdict, res.infra, res.class, res.inapplicable)
		r.Case(c.key(), true)
		if res.infra != "" {
			t.Fatalf("INFRA: %s", res.infra)
		}
		if res.verdict != "" {
			r.Violate(c.key(), res.verdict, c, nil)
		}
		return
	}
	alphabet, depth := c29alphabet(vr.Thorough()), c29depth(vr.Thorough())
	n := len(c29histories(alphabet, depth))
	r.Rule(fmt.Sprintf("two-way-safe session of the REAL Manager/controller on scripted disks, both D{a,b,c}, one completed cycle, then every sequence of exactly %d events from %v that respects the static rules (each edit once, one outage per endpoint, an endpoint returns only after it left, no two advances in a row, one reset, one pause, resume after pause): %d histories (shorter ones are their prefixes; sequences with an edit that is not enabled are skipped); 'down-X' makes endpoint X unreachable (a pending Poll fails, Scan/Stage/Transition/Connect fail), 'advance' is 20 virtual seconds (more than the controller's 15 s reconnect back-off), 'cycle' a waiting Manager.Flush; judged after every event: (i) a Reset that returned nil leaves an archive without content, no file it covers (present on either disk, not touched by the user since) changes before, and all are on both disks after, the next completed cycle; (ii) no Scan/Stage/Transition between a Pause return and the next Resume; (iii) a waiting Flush that returns nil was followed by a scan of both endpoints; non-trivial = a Reset or Pause returned success", depth, alphabet, n))
	r.Assume("clauses of C29 that need a daemon restart or terminate are decided in checks/session; files are single-digest leaves in the root directory",
		"Resume / Reset that fail because an endpoint is unreachable return an error; no obligation is attached to a Reset that returned an error")
	deadline := scaledDeadline(50*time.Second, 8*time.Minute)
	outs := runWorkers(t, "c29", vr.Workers(), deadline, nil)
	extra := mergeWorkers(r, outs, func(v wViolation) bool {
		var c c29case
		json.Unmarshal(v.Case, &c)
		again := runC29(t, root, c, nil)
		return again.infra == "" && again.verdict != ""
	})
	r.Set("histories", n)
	r.Set("flushes_on_real_code", extra["flushes_on_real_code"])
	r.Set("inapplicable_histories", extra["inapplicable_histories"])
	if k := extra["capped_histories"]; k > 0 {
		r.NotExhaustive(fmt.Sprintf("wall budget reached: %d of %d histories were not run", k, n))
	}
	r.Sample(c29case{Mode: "two-way-safe", Events: []string{"del-b-beta", "down-alpha", "reset", "up-alpha", "advance", "cycle"}})
}
