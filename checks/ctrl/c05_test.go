//go:build verif

package ctrl

import (
	"encoding/json"
	"fmt"
	"sort"
	"strings"
	"testing"
	"time"

	"github.com/mutagen-io/mutagen/pkg/synchronization/core"

	"verif/internal/vr"
)

// ---------------------------------------------------------------------------
// C05, controller leg: "For any mix of transition outcomes (complete success,
// partial creation, partial removal, failure, cancellation), updating the
// last-synchronized state succeeds, contains only synchronizable content, and
// records at each transitioned path exactly what the endpoint reported."
//
// The pure recipe (Apply of ancestor changes + results) is decided in
// checks/recon. Here the REAL controller runs the cycle: the scripted endpoints
// answer each requested change with a harness-chosen outcome, and the oracle
// reads the archive the controller saved.
// ---------------------------------------------------------------------------

type c05case struct {
	Ancestor string            `json:"ancestor"` // last-synchronized tree reached by a first real cycle ("nil": none)
	Alpha    string            `json:"alpha"`
	Beta     string            `json:"beta"`
	Mode     string            `json:"mode"`
	Outcomes map[string]string `json:"outcomes,omitempty"` // "side|path" -> reported result; absent = applied exactly
	Fault    string            `json:"fault,omitempty"`    // "", "alpha-error", "beta-error", "cancel"
}

func (c c05case) key() string {
	var parts []string
	for k, v := range c.Outcomes {
		parts = append(parts, k+"="+v)
	}
	sort.Strings(parts)
	return fmt.Sprintf("c05ctrl:%s:A=%s:a=%s:b=%s:%s:%s", c.Mode, c.Ancestor, c.Alpha, c.Beta, strings.Join(parts, ";"), c.Fault)
}

func (c c05case) script() cycleScript {
	s := cycleScript{Outcome: c.Outcomes, Err: map[string]bool{}}
	switch c.Fault {
	case "alpha-error":
		s.Err["alpha"] = true
	case "beta-error":
		s.Err["beta"] = true
	case "cancel":
		s.Cancel = true
	}
	return s
}

// c05result is what one execution of a case yields.
type c05result struct {
	verdict string // "" = held
	infra   string
	class   string
	obs     *cycleObs
}

// runC05 executes one case in a fresh bubble: reach the ancestor by a real cycle
// from an empty archive, put the endpoint trees in place, run the cycle under
// test with the scripted outcomes, judge the saved archive.
func runC05(t *testing.T, root string, c c05case, logf func(string, ...any)) (res c05result) {
	inBubble(t, func() {
		anc, x, y := parse(c.Ancestor), parse(c.Alpha), parse(c.Beta)
		cfg := worldConfig{Mode: modeByName(c.Mode), AlphaPreserves: true, BetaPreserves: true}
		var w *world
		if anc != nil {
			w = newWorld(root, cfg, anc, anc, logf != nil)
			o := w.cycle(cycleScript{})
			if w.infra == "" && (o.FlushErr != "" || len(o.Calls) != 0) {
				w.fail("set-up cycle on identical endpoints %s: flush=%q calls=%d", c.Ancestor, o.FlushErr, len(o.Calls))
			}
			if w.infra == "" && !deepEq(o.Archive, anc) {
				// Both endpoints hold the same tree and nothing was transitioned, yet
				// the saved state is something else: "never leaves the session with an
				// ... inaccurate archive".
				res.verdict = fmt.Sprintf("after a completed cycle on two identical endpoints %s the saved archive records %s (%s)", c.Ancestor, show(o.Archive), o.ArchiveErr)
				res.class = "violation"
				res.obs = o
				w.close()
				return
			}
			w.alpha.tree, w.beta.tree = clone(x), clone(y)
		} else {
			w = newWorld(root, cfg, x, y, logf != nil)
		}
		var prev *E
		if a, err := w.archive(); err == nil {
			prev = a.Content
		} else {
			w.fail("archive before the cycle: %v", err)
		}
		o := w.cycle(c.script())
		if logf != nil {
			for _, l := range w.log.all {
				logf("    log %s", l)
			}
			logf("  cycle: flushErr=%q loopErrs=%v status=%v archive=%s archiveErr=%q alpha=%s beta=%s", o.FlushErr, o.LoopErrs, o.Status, show(o.Archive), o.ArchiveErr, show(o.AlphaAfter), show(o.BetaAfter))
			for _, call := range o.Calls {
				for _, ch := range call.Changes {
					logf("    %s transition %q: %s -> %s reported %s (errored=%v)", call.Side, ch.Path, show(ch.Old), show(ch.New), show(ch.Result), call.Errored)
				}
			}
		}
		w.close()
		res.obs = o
		if w.infra != "" {
			res.infra = w.infra
			return
		}
		res.verdict, res.class = judgeC05(c, prev, o)
	})
	return res
}

// judgeC05 is the oracle.
func judgeC05(c c05case, prev *E, o *cycleObs) (verdict, class string) {
	halted := isHaltStatus(o.Status)
	// "updating the last-synchronized state succeeds": the cycle must not have
	// ended for any reason other than the injected endpoint failure, the
	// harness's own cancellation, or a safety halt decided before any transition.
	for _, e := range o.LoopErrs {
		switch {
		case c.Fault == "alpha-error" && e == "unable to apply changes to alpha: "+errInjected.Error():
		case c.Fault == "beta-error" && e == "unable to apply changes to beta: "+errInjected.Error():
		case c.Fault == "cancel" && strings.HasPrefix(e, "cancelled"):
		case halted && e == "synchronization halted":
		default:
			return "the cycle failed: " + e, "violation"
		}
	}
	if c.Fault == "" && !halted && o.FlushErr != "" {
		return "the cycle did not complete: " + o.FlushErr, "violation"
	}
	// "A cycle therefore never leaves the session with an unusable ... archive."
	if o.ArchiveErr != "" {
		return "saved archive unusable: " + o.ArchiveErr, "violation"
	}
	// "contains only synchronizable content"
	if hasUnsync(o.Archive) {
		return "saved archive contains unsynchronizable content: " + show(o.Archive), "violation"
	}
	// "records at each transitioned path exactly what the endpoint reported"
	n, faulty := 0, 0
	for _, call := range o.Calls {
		for _, ch := range call.Changes {
			n++
			got := at(o.Archive, ch.Path)
			if call.Errored {
				// The endpoint reported a failure of the whole operation, i.e. nothing
				// about this path: the record there stays what it was.
				faulty++
				if was := at(prev, ch.Path); !deepEq(got, was) {
					return fmt.Sprintf("%s's Transition returned an error, but the archive now records %s at %q (before the cycle: %s; requested %s -> %s)", call.Side, show(got), ch.Path, show(was), show(ch.Old), show(ch.New)), "violation"
				}
				continue
			}
			if ch.Problem {
				faulty++
			}
			if !deepEq(got, ch.Result) {
				return fmt.Sprintf("archive records %s at %q but %s reported %s (requested %s -> %s)", show(got), ch.Path, call.Side, show(ch.Result), show(ch.Old), show(ch.New)), "violation"
			}
		}
	}
	switch {
	case halted:
		class = "halted-for-safety"
	case n == 0:
		class = "no-transition"
	case c.Fault != "":
		class = c.Fault
	case faulty == 0:
		class = "all-applied"
	case faulty == n:
		class = "all-faulty"
	default:
		class = "mixed"
	}
	return "", class
}

// c05universe lists the trees of the tier's universe: root nil or a directory
// with slot a (and b) drawn from the slot alphabets.
func c05universe(two bool, bAlphabet []*E) []*E {
	slotA := []*E{nil, file(1, false), file(2, false), dir("x", file(1, false)), dir()}
	out := []*E{nil}
	for _, a := range slotA {
		if !two {
			out = append(out, dir("a", a))
			continue
		}
		for _, b := range bAlphabet {
			out = append(out, dir("a", a, "b", b))
		}
	}
	return out
}

type c05triple struct{ a, x, y *E }

// c05triples is the tier's enumeration, in a fixed order: the one-slot universe
// first (so that it completes even under a budget cap), then two slots.
func c05triples(thorough bool) (triples []c05triple, bValues int) {
	bAlpha := []*E{nil, file(1, false), file(2, false)}
	if thorough {
		bAlpha = []*E{nil, file(1, false), file(2, false), dir("x", file(1, false)), dir()}
	}
	seen := map[string]bool{}
	universes := [][]*E{c05universe(false, nil), c05universe(true, bAlpha)}
	if thorough {
		// Third universe (last in the order): three flat slots a, b, c in
		// {nil, F1, F2} - plans with up to three requested changes.
		flat := []*E{nil, file(1, false), file(2, false)}
		u3 := []*E{nil}
		for _, a := range flat {
			for _, b := range flat {
				for _, c := range flat {
					u3 = append(u3, dir("a", a, "b", b, "c", c))
				}
			}
		}
		universes = append(universes, u3)
	}
	for _, u := range universes {
		for _, a := range u {
			for _, x := range u {
				for _, y := range u {
					k := show(a) + "|" + show(x) + "|" + show(y)
					if !seen[k] {
						seen[k] = true
						triples = append(triples, c05triple{a, x, y})
					}
				}
			}
		}
	}
	return triples, len(bAlpha)
}

// c05maxChanges bounds the number of requested changes per plan (the universes
// of the quick tier never produce more than two).
func c05maxChanges(thorough bool) int {
	if thorough {
		return 3
	}
	return 2
}

// c05worker explores the triples i with i mod Shards == Shard, one bubble after
// the other.
func c05worker(t *testing.T, job *wJob, out *wOutput) {
	root := scratch(t)
	triples, _ := c05triples(job.Thorough)
	run := func(c c05case) *cycleObs {
		res := runC05(t, root, c, nil)
		out.Extra["executed"]++
		if res.infra != "" {
			out.fail("%s: %s", c.key(), res.infra)
			return nil
		}
		if res.obs != nil {
			out.Extra["requests_not_matching_disk"] += int64(res.obs.Stale)
		}
		nontrivial := (c.Fault != "" || len(c.Outcomes) > 0) && res.class != "no-transition" && res.class != "halted-for-safety"
		if res.verdict != "" {
			out.addCase(c.key(), nontrivial, "violation")
			out.violate(c.key(), res.verdict, c)
		} else {
			out.addCase(c.key(), nontrivial, res.class)
		}
		return res.obs
	}
	for i := job.Shard; i < len(triples); i += job.Shards {
		if job.expired() {
			out.Extra["capped_triples"]++
			continue
		}
		tr := triples[i]
		for _, m := range allModes {
			base := c05case{Ancestor: show(tr.a), Alpha: show(tr.x), Beta: show(tr.y), Mode: modeName(m)}
			// Probe: everything applied exactly. It tells which changes the
			// controller requests for this triple and mode.
			o := run(base)
			if o == nil {
				return
			}
			type req struct {
				key  string
				opts []string
				side string
			}
			var reqs []req
			for _, call := range o.Calls {
				for _, ch := range call.Changes {
					rq := req{key: call.Side + "|" + ch.Path, side: call.Side}
					for _, e := range outcomesFor(&core.Change{Path: ch.Path, Old: ch.Old, New: ch.New}) {
						rq.opts = append(rq.opts, show(e))
					}
					reqs = append(reqs, rq)
				}
			}
			if len(reqs) == 0 {
				continue
			}
			if len(reqs) > c05maxChanges(job.Thorough) {
				out.Extra["skipped_plans"]++
				continue
			}
			sort.Slice(reqs, func(i, j int) bool { return reqs[i].key < reqs[j].key })
			hasSide := map[string]bool{}
			for _, rq := range reqs {
				hasSide[rq.side] = true
			}
			faults := []string{""}
			if hasSide["alpha"] {
				faults = append(faults, "alpha-error")
			}
			if hasSide["beta"] {
				faults = append(faults, "beta-error")
			}
			faults = append(faults, "cancel")
			idx := make([]int, len(reqs))
			for {
				for _, f := range faults {
					// The outcomes scripted for a side whose Transition fails as a
					// whole are never consulted: enumerate them once only.
					redundant, allNew := false, true
					for k, rq := range reqs {
						if idx[k] != 0 {
							allNew = false
							if (f == "alpha-error" && rq.side == "alpha") || (f == "beta-error" && rq.side == "beta") {
								redundant = true
							}
						}
					}
					if redundant || (allNew && f == "") {
						continue
					}
					c := base
					c.Fault = f
					c.Outcomes = map[string]string{}
					for k, rq := range reqs {
						if idx[k] != 0 {
							c.Outcomes[rq.key] = rq.opts[idx[k]]
						}
					}
					if run(c) == nil {
						return
					}
					if len(c.Outcomes) == len(reqs) && len(reqs) == 2 {
						out.sample(c, 1)
					}
				}
				k := len(idx) - 1
				for k >= 0 {
					idx[k]++
					if idx[k] < len(reqs[k].opts) {
						break
					}
					idx[k] = 0
					k--
				}
				if k < 0 {
					break
				}
			}
		}
	}
}

func init() { workerFuncs["c05"] = c05worker }

func TestC05Controller(t *testing.T) {
	r := vr.New(t, "C05", "fault_enumeration")
	defer r.Finish()
	root := scratch(t)
	defer removeScratch()
	tuneGC()
	if raw := vr.ReplayCase(); raw != nil {
		var c c05case
		if err := json.Unmarshal(raw, &c); err != nil {
			t.Fatalf("INFRA: bad replay case: %v", err)
		}
		res := runC05(t, root, c, t.Logf)
		t.Logf("replay %s: verdict %q infra %q class %s", c.key(), res.verdict, res.infra, res.class)
		r.Case(c.key(), true)
		if res.infra != "" {
			t.Fatalf("INFRA: %s", res.infra)
		}
		if res.verdict != "" {
			r.Violate(c.key(), res.verdict, c, nil)
		}
		return
	}
	triples, bValues := c05triples(vr.Thorough())
	r.Rule(fmt.Sprintf("every (last-synchronized tree, alpha tree, beta tree) with root in {nil, D{a}} (one slot) and {nil, D{a,b}} (two slots), slot a in {nil,F1,F2,D{x:F1},D{}}, slot b in %d values (thorough also: three flat slots a,b,c in {nil,F1,F2}), x 4 synchronization modes: the REAL Manager/controller reaches the ancestor by a first cycle, then runs ONE cycle against scripted in-memory endpoints; for each plan with 1..%d requested changes EVERY vector assigning each change one outcome from {applied exactly, refused (Old), removed-but-not-created (nil), every prefix-closed sub-tree of Old or New} x {no endpoint failure, alpha's Transition returns an error, beta's does, the cycle is cancelled (session paused) while the endpoints are in Transition} is executed; the saved archive is read back from the data directory; each (triple, mode, vector, fault) is executed once; non-trivial = some change was not applied exactly or an endpoint failed / was cancelled", bValues, c05maxChanges(vr.Thorough())))
	r.Assume("endpoints report sub-trees of what the plan named (what Transition can report); a failing endpoint returns the planned entries next to its error and leaves its disk unchanged",
		"staging is a no-op (the scripted endpoints declare every file already staged); root deletion / type change cycles halt before any transition and are counted as trivial",
		"plans with more requested changes than the bound are skipped and counted (skipped_plans)")
	deadline := scaledDeadline(45*time.Second, 8*time.Minute)
	outs := runWorkers(t, "c05", vr.Workers(), deadline, nil)
	extra := mergeWorkers(r, outs, func(v wViolation) bool {
		var c c05case
		json.Unmarshal(v.Case, &c)
		again := runC05(t, root, c, nil)
		return again.infra == "" && again.verdict != ""
	})
	r.Set("triples", len(triples))
	r.Set("controller_cycles_executed", extra["executed"]*2)
	r.Set("skipped_plans", extra["skipped_plans"])
	r.Set("requests_not_matching_disk", extra["requests_not_matching_disk"])
	if n := extra["capped_triples"]; n > 0 {
		r.NotExhaustive(fmt.Sprintf("wall budget reached: %d of %d triples (the last in each worker's enumeration order, i.e. of the largest universe) were not run", n, len(triples)))
	}
	r.Sample(c05case{Ancestor: "D{a:D{x:F1}}", Alpha: "D{a:F2}", Beta: "D{a:D{x:F1}}", Mode: "two-way-safe", Outcomes: map[string]string{"beta|a": "D{}"}})
}
