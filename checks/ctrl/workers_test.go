//go:build verif

package ctrl

import (
	"bytes"
	"crypto/sha1"
	"encoding/hex"
	"encoding/json"
	"fmt"
	"os"
	"os/exec"
	"path/filepath"
	"runtime"
	"sync"
	"testing"
	"time"

	"verif/internal/vr"
)

// ---------------------------------------------------------------------------
// Worker processes. Every execution is one synctest bubble, and the go1.25.0
// runtime reports "WaitGroup.Add called from multiple synctest bubbles" when
// bubbles that use sync.WaitGroup (the controller does, for its parallel scans
// and transitions) run CONCURRENTLY in one process. Bubbles are therefore run
// strictly one after the other inside a process, and the enumeration is sharded
// over child processes: the parent test re-executes the test binary
// (-test.run=^TestCtrlWorker$, job in VERIF_CTRL_JOB); each worker explores its
// shard sequentially and writes one JSON result file.
// ---------------------------------------------------------------------------

type wJob struct {
	Leg      string          `json:"leg"`
	Shard    int             `json:"shard"`
	Shards   int             `json:"shards"`
	Thorough bool            `json:"thorough"`
	Deadline int64           `json:"deadline_unix_ms"`
	Out      string          `json:"out"`
	Input    json.RawMessage `json:"input,omitempty"`
}

func (j *wJob) expired() bool { return time.Now().UnixMilli() > j.Deadline }

type wViolation struct {
	Key  string          `json:"key"`
	What string          `json:"what"`
	Case json.RawMessage `json:"case"`
}

type wOutput struct {
	Evaluations int64             `json:"evaluations"`
	Keys        []string          `json:"keys"` // hashed keys of non-trivial cases
	Outcomes    map[string]int64  `json:"outcomes"`
	Violations  []wViolation      `json:"violations"`
	Extra       map[string]int64  `json:"extra"`
	Samples     []json.RawMessage `json:"samples"`
	Infra       string            `json:"infra"`
	Payload     json.RawMessage   `json:"payload,omitempty"`
}

func newWOutput() *wOutput {
	return &wOutput{Outcomes: map[string]int64{}, Extra: map[string]int64{}}
}

func shortHash(s string) string {
	h := sha1.Sum([]byte(s))
	return hex.EncodeToString(h[:10])
}

func (o *wOutput) addCase(key string, nontrivial bool, outcome string) {
	o.Evaluations++
	if nontrivial {
		o.Keys = append(o.Keys, shortHash(key))
	}
	if outcome != "" {
		o.Outcomes[outcome]++
	}
}

func (o *wOutput) violate(key, what string, c any) {
	for _, v := range o.Violations {
		if v.Key == key {
			return
		}
	}
	if len(o.Violations) >= 40 {
		o.Extra["violations_truncated"]++
		return
	}
	raw, _ := json.Marshal(c)
	o.Violations = append(o.Violations, wViolation{key, what, raw})
}

func (o *wOutput) sample(c any, max int) {
	if len(o.Samples) < max {
		raw, _ := json.Marshal(c)
		o.Samples = append(o.Samples, raw)
	}
}

func (o *wOutput) fail(format string, args ...any) {
	if o.Infra == "" {
		o.Infra = fmt.Sprintf(format, args...)
	}
}

// scaledDeadline is vr.Deadline made robust against a loaded machine: the
// budgets are sized for an idle 16-core box; when the 1-minute load average
// exceeds the number of CPUs the same enumeration needs proportionally longer,
// so the budget is stretched by load/CPUs (never beyond what the INDEX timeouts
// of 15 min / 45 min leave room for). An explicit VERIF_BUDGET_S is taken as
// is. The budget only decides how much is explored before the run reports
// exhaustive=false; it is never part of an oracle.
func scaledDeadline(quick, thorough time.Duration) time.Time {
	d := time.Until(vr.Deadline(quick, thorough))
	if os.Getenv("VERIF_BUDGET_S") != "" {
		return time.Now().Add(d)
	}
	limit := 8 * time.Minute
	if vr.Thorough() {
		limit = 25 * time.Minute
	}
	if data, err := os.ReadFile("/proc/loadavg"); err == nil {
		var load float64
		if _, err := fmt.Sscan(string(data), &load); err == nil {
			if scale := load / float64(runtime.NumCPU()); scale > 1 {
				d = time.Duration(float64(d) * scale)
			}
		}
	}
	if d > limit {
		d = limit
	}
	return time.Now().Add(d)
}

var workerFuncs = map[string]func(t *testing.T, job *wJob, out *wOutput){}

// TestCtrlWorker is the entry point of worker processes; it does nothing when
// run directly.
func TestCtrlWorker(t *testing.T) {
	raw := os.Getenv("VERIF_CTRL_JOB")
	if raw == "" {
		t.Skip("worker entry point (only meaningful when spawned by the TestCnnController tests)")
	}
	var job wJob
	if err := json.Unmarshal([]byte(raw), &job); err != nil {
		t.Fatalf("INFRA: bad job: %v", err)
	}
	if in := os.Getenv("VERIF_CTRL_INPUT"); in != "" {
		data, err := os.ReadFile(in)
		if err != nil {
			t.Fatalf("INFRA: cannot read job input: %v", err)
		}
		job.Input = data
	}
	tuneGC()
	fn := workerFuncs[job.Leg]
	if fn == nil {
		t.Fatalf("INFRA: no worker function for %s", job.Leg)
	}
	out := newWOutput()
	defer removeScratch()
	fn(t, &job, out)
	data, err := json.Marshal(out)
	if err != nil {
		t.Fatalf("INFRA: result does not marshal: %v", err)
	}
	if err := os.WriteFile(job.Out, data, 0o600); err != nil {
		t.Fatalf("INFRA: cannot write result: %v", err)
	}
}

func runWorker(dir string, job wJob, inputFile string, timeout time.Duration) (*wOutput, error) {
	job.Out = filepath.Join(dir, fmt.Sprintf("out-%s-%d.json", job.Leg, job.Shard))
	os.Remove(job.Out)
	job.Input = nil
	raw, _ := json.Marshal(job)
	cmd := exec.Command(os.Args[0], "-test.run=^TestCtrlWorker$", "-test.count=1", fmt.Sprintf("-test.timeout=%s", timeout))
	cmd.Env = append(os.Environ(), "VERIF_CTRL_JOB="+string(raw), "VERIF_CTRL_INPUT="+inputFile, "VERIF_REPLAY=")
	var buf bytes.Buffer
	cmd.Stdout = &buf
	cmd.Stderr = &buf
	err := cmd.Run()
	data, rerr := os.ReadFile(job.Out)
	if rerr != nil {
		tail := buf.String()
		if len(tail) > 4000 {
			tail = tail[:1500] + "\n...\n" + tail[len(tail)-2500:]
		}
		return nil, fmt.Errorf("worker %s shard %d produced no result (exit: %v); output:\n%s", job.Leg, job.Shard, err, tail)
	}
	os.Remove(job.Out)
	out := newWOutput()
	if jerr := json.Unmarshal(data, out); jerr != nil {
		return nil, fmt.Errorf("worker result does not parse: %v", jerr)
	}
	return out, nil
}

// runWorkers runs leg on `shards` child processes (all at once; at most
// vr.Workers()) and returns their outputs. input, when non-nil, is written to a
// file every worker reads.
func runWorkers(t *testing.T, leg string, shards int, deadline time.Time, input any) []*wOutput {
	dir := scratch(t)
	inputFile := ""
	if input != nil {
		data, err := json.Marshal(input)
		if err != nil {
			t.Fatalf("INFRA: job input does not marshal: %v", err)
		}
		inputFile = filepath.Join(dir, "input-"+leg+".json")
		if err := os.WriteFile(inputFile, data, 0o600); err != nil {
			t.Fatalf("INFRA: cannot write job input: %v", err)
		}
		defer os.Remove(inputFile)
	}
	timeout := time.Until(deadline) + 5*time.Minute
	outs := make([]*wOutput, shards)
	errs := make([]error, shards)
	var wg sync.WaitGroup
	for s := 0; s < shards; s++ {
		wg.Add(1)
		go func(s int) {
			defer wg.Done()
			job := wJob{Leg: leg, Shard: s, Shards: shards, Thorough: vr.Thorough(), Deadline: deadline.UnixMilli()}
			outs[s], errs[s] = runWorker(dir, job, inputFile, timeout)
		}(s)
	}
	wg.Wait()
	for s, err := range errs {
		if err != nil {
			t.Fatalf("INFRA: %v", err)
		}
		if outs[s].Infra != "" {
			t.Fatalf("INFRA: worker %s shard %d: %s", leg, s, outs[s].Infra)
		}
	}
	return outs
}

// mergeWorkers folds worker outputs into the report and returns the summed
// extras. Violations are handed to the report afterwards (rerun re-executes a
// case in the parent process, where no other bubble is running by then).
func mergeWorkers(r *vr.Report, outs []*wOutput, rerun func(v wViolation) bool) map[string]int64 {
	extra := map[string]int64{}
	nsamples := 0
	for _, o := range outs {
		l := r.Local()
		for _, k := range o.Keys {
			l.Case(k, true)
		}
		for i := int64(len(o.Keys)); i < o.Evaluations; i++ {
			l.Case("", false)
		}
		for k, n := range o.Outcomes {
			for i := int64(0); i < n; i++ {
				l.Outcome(k)
			}
		}
		l.Flush()
		for k, v := range o.Extra {
			extra[k] += v
		}
		for _, s := range o.Samples {
			if nsamples < 3 {
				nsamples++
				var x any
				json.Unmarshal(s, &x)
				r.Sample(x)
			}
		}
	}
	for _, o := range outs {
		for _, v := range o.Violations {
			v := v
			var c any
			json.Unmarshal(v.Case, &c)
			r.Violate(v.Key, v.What, c, func() bool { return rerun(v) })
		}
	}
	return extra
}
