//go:build verif

package ctrl

import (
	"encoding/json"
	"fmt"
	"sort"
	"strings"
	"testing"
	"time"

	"github.com/mutagen-io/mutagen/pkg/synchronization/core"

	"verif/internal/vr"
)

// ---------------------------------------------------------------------------
// C01, controller leg: "In two-way-safe mode, a synchronization cycle never
// deletes or overwrites content on either endpoint unless that content is
// unchanged since the last successful synchronization. When both endpoints
// created or modified content at overlapping paths, the disagreement is
// reported as a conflict and both versions stay on disk."
//
// Multi-cycle histories through the REAL Manager/controller with scripted
// endpoints: before each cycle the user may rewrite slot "a" on either disk;
// in at most one cycle per history one requested transition is refused (or,
// thorough, answered with any other partial outcome) or one endpoint's
// Transition fails as a whole. What the controller saves as last-synchronized
// state after such a cycle decides what the NEXT cycle dares to overwrite -
// that is what single-cycle checks of core.Reconcile cannot see.
//
// Oracle, as in checks/recon/history_test.go: the harness keeps its own record
// L, per path, of the content on which both disks last AGREED after a cycle
// (parents must agree too), independently of mutagen's archive.
// ---------------------------------------------------------------------------

var c01paths = []string{"a", "a/x"}

type c01step struct {
	Alpha    string            `json:"alpha,omitempty"`    // value the user writes to slot a on alpha before the cycle ("" = untouched)
	Beta     string            `json:"beta,omitempty"`     // same for beta
	Outcomes map[string]string `json:"outcomes,omitempty"` // "side|path" -> reported result (absent: applied exactly)
	Err      string            `json:"err,omitempty"`      // side whose Transition returns an error in this cycle
}

func (s c01step) faulty() bool { return len(s.Outcomes) > 0 || s.Err != "" }

func (s c01step) String() string {
	var parts []string
	if s.Alpha != "" {
		parts = append(parts, "alpha:a="+s.Alpha)
	}
	if s.Beta != "" {
		parts = append(parts, "beta:a="+s.Beta)
	}
	c := "cycle"
	var os []string
	for k, v := range s.Outcomes {
		os = append(os, k+"=>"+v)
	}
	sort.Strings(os)
	if len(os) > 0 {
		c += "[" + strings.Join(os, ",") + "]"
	}
	if s.Err != "" {
		c += "[" + s.Err + " fails]"
	}
	return strings.Join(append(parts, c), " ")
}

type c01case struct {
	Mode  string    `json:"mode"`
	Steps []c01step `json:"steps"`
}

func (c c01case) key() string {
	var parts []string
	for _, s := range c.Steps {
		parts = append(parts, s.String())
	}
	return "c01ctrl:" + c.Mode + ":" + strings.Join(parts, "; ")
}

// c01state is what a history leaves behind (dedup key of the search).
type c01state struct {
	Archive string    `json:"archive"`
	Alpha   string    `json:"alpha"` // slot a on alpha's disk
	Beta    string    `json:"beta"`
	L       [2]string `json:"l"`    // last agreed node (shallow) at "a", "a/x"
	Prov    [2]string `json:"prov"` // provenance of the archive entries at "a", "a/x" (see updateProv)
	Faults  int       `json:"faults"`
}

func (s c01state) key() string {
	return fmt.Sprintf("%s|%s|%s|%s|%s|%s|%s|%d", s.Archive, s.Alpha, s.Beta, s.L[0], s.L[1], s.Prov[0], s.Prov[1], s.Faults)
}

type c01req struct {
	Side string `json:"side"`
	Path string `json:"path"`
	Old  string `json:"old"`
	New  string `json:"new"`
}

type c01result struct {
	verdict string
	vkey    string // key of the violation: the history, or a class key (classKeyRefusedReport)
	infra   string
	class   string
	state   c01state
	reqs    []c01req // transitions requested in the LAST cycle
	cycles  int
	stale   int // requests whose Old did not describe the disk (refused by the scripted endpoint)
}

func (r *c01result) violationKey(c c01case) string {
	if r.vkey != "" {
		return r.vkey
	}
	return c.key()
}

func shallowOf(e *E) *E {
	if e == nil {
		return nil
	}
	c := clone(e)
	c.Contents = nil
	return c
}

// lTree rebuilds the tree of last-agreed content at and below slot a.
func lTree(l [2]*E) *E {
	root := dir()
	if l[0] == nil {
		return root
	}
	a := clone(l[0])
	if a.Kind == core.EntryKind_Directory && l[1] != nil {
		a.Contents = map[string]*E{"x": clone(l[1])}
	}
	root.Contents = map[string]*E{"a": a}
	return root
}

// judgeC01Cycle judges one cycle against L; protect* select the sides whose
// modifications the mode promises to keep; wantConflicts is the second sentence
// of C01 (two-way-safe only).
//
// For a violation of the first sentence (content replaced) it also returns the
// side and the index into c01paths of the replaced node (otherwise "", -1).
func judgeC01Cycle(l [2]*E, o *cycleObs, protectAlpha, protectBeta, wantConflicts bool) (string, string, int) {
	check := func(side string, before, after *E) (string, int) {
		for i, p := range c01paths {
			b, a := at(before, p), at(after, p)
			// "never deletes or overwrites content ... unless that content is
			// unchanged since the last successful synchronization"
			if b != nil && !shallowEq(b, a) && !shallowEq(b, l[i]) {
				return fmt.Sprintf("%s: the cycle replaced %s at %q by %s although the endpoints last agreed on %s there", side, show(shallowOf(b)), p, show(shallowOf(a)), show(l[i])), i
			}
		}
		return "", -1
	}
	if protectAlpha {
		if w, i := check("alpha", o.AlphaBefore, o.AlphaAfter); w != "" {
			return w, "alpha", i
		}
	}
	if protectBeta {
		if w, i := check("beta", o.BetaBefore, o.BetaAfter); w != "" {
			return w, "beta", i
		}
	}
	if wantConflicts {
		lt := lTree(l)
		for _, d := range disagreementPoints(o.AlphaBefore, o.BetaBefore) {
			// "When both endpoints created or modified content at overlapping paths,
			// the disagreement is reported as a conflict and both versions stay on disk."
			if hasNew(at(lt, d), at(o.AlphaBefore, d)) && hasNew(at(lt, d), at(o.BetaBefore, d)) {
				found := false
				for _, c := range o.Conflicts {
					if c.Root == d {
						found = true
					}
				}
				if !found {
					return fmt.Sprintf("both endpoints created/modified content at %q since they last agreed (on %s; alpha %s, beta %s) but the session lists no conflict rooted there (%d conflicts listed)", d, show(at(lt, d)), show(at(o.AlphaBefore, d)), show(at(o.BetaBefore, d)), len(o.Conflicts)), "", -1
				}
				if !deepEq(at(o.AlphaBefore, d), at(o.AlphaAfter, d)) || !deepEq(at(o.BetaBefore, d), at(o.BetaAfter, d)) {
					return fmt.Sprintf("both endpoints created/modified content at %q but a version did not stay on disk (alpha %s -> %s, beta %s -> %s)", d, show(at(o.AlphaBefore, d)), show(at(o.AlphaAfter, d)), show(at(o.BetaBefore, d)), show(at(o.BetaAfter, d))), "", -1
				}
			}
		}
	}
	return "", "", -1
}

// updateProv maintains, per path of c01paths, the PROVENANCE of the archive
// entry there: the name of the endpoint whose refused / partially applied
// transition (reported with a problem) made the controller record that entry
// although the two disks did not agree on it after that cycle; "" for every
// entry that stems from an agreement of the two sides. An entry keeps its
// provenance while it stays in the archive unchanged and the sides still do not
// agree at that path.
func updateProv(prov [2]string, archiveBefore *E, o *cycleObs) [2]string {
	for i, p := range c01paths {
		entry := at(o.Archive, p)
		agreed := shallowEq(at(o.AlphaAfter, "a"), at(o.BetaAfter, "a")) && shallowEq(at(o.AlphaAfter, p), at(o.BetaAfter, p))
		if entry == nil || agreed {
			prov[i] = ""
			continue
		}
		marked := ""
		for _, call := range o.Calls {
			if call.Errored {
				continue // results of a failed endpoint are never recorded
			}
			for _, ch := range call.Changes {
				if !ch.Problem || !(p == ch.Path || strings.HasPrefix(p, ch.Path+"/")) {
					continue
				}
				rel := strings.TrimPrefix(strings.TrimPrefix(p, ch.Path), "/")
				if node := at(ch.Result, rel); node != nil && shallowEq(node, entry) {
					marked = call.Side
				}
			}
		}
		if marked != "" {
			prov[i] = marked
		} else if !shallowEq(entry, at(archiveBefore, p)) {
			prov[i] = ""
		}
	}
	return prov
}

// classKeyRefusedReport is the class of violations with one exact root cause:
// the protected side's content that a cycle replaces equals the archive entry at
// that path, and that entry was recorded from the OTHER endpoint's refused /
// partially applied transition report at a path where the sides never agreed.
func classKeyRefusedReport(mode string) string {
	return "ctrl|" + mode + "|protected-content-equals-archive-entry-recorded-from-refused-transition"
}

// updateL: a path counts as synchronized by a cycle when, afterwards, both
// disks hold the same node there (or both nothing) AND agree on every parent;
// agreeing on "absent" or on a non-directory settles everything below as absent.
func updateL(l [2]*E, x, y *E) [2]*E {
	ua, va := at(x, "a"), at(y, "a")
	if ua == nil && va == nil {
		return [2]*E{nil, nil}
	}
	if ua != nil && va != nil && shallowEq(ua, va) {
		l[0] = shallowOf(ua)
		if ua.Kind != core.EntryKind_Directory {
			l[1] = nil
		} else {
			ux, vx := at(x, "a/x"), at(y, "a/x")
			if ux == nil && vx == nil {
				l[1] = nil
			} else if ux != nil && vx != nil && shallowEq(ux, vx) {
				l[1] = shallowOf(ux)
			}
		}
	}
	return l
}

// protection says what a mode promises: whose modifications survive (C01 for
// two-way-safe; C02 for the protected side of the other modes), whether
// both-modified disagreements must be listed as conflicts (C01), and whether
// alpha must not be touched at all (C02, one-way modes).
func protection(m core.SynchronizationMode) (alpha, beta, conflicts, alphaReadOnly bool) {
	switch m {
	case core.SynchronizationMode_SynchronizationModeTwoWaySafe:
		return true, true, true, false
	case core.SynchronizationMode_SynchronizationModeTwoWayResolved:
		return true, false, false, false
	case core.SynchronizationMode_SynchronizationModeOneWaySafe:
		return true, true, false, true
	}
	return true, false, false, true
}

// runC01 replays one history in a fresh bubble and judges every cycle.
func runC01(t *testing.T, root string, c c01case, logf func(string, ...any)) (res c01result) {
	inBubble(t, func() {
		m := modeByName(c.Mode)
		pa, pb, wc, aro := protection(m)
		w := newWorld(root, worldConfig{Mode: m, AlphaPreserves: true, BetaPreserves: true}, dir(), dir(), logf != nil)
		var l [2]*E
		var prov [2]string
		var archive *E // the archive before the current cycle
		faults := 0
		var last *cycleObs
		for i, s := range c.Steps {
			if s.Alpha != "" {
				w.alpha.tree = dir("a", parse(s.Alpha))
			}
			if s.Beta != "" {
				w.beta.tree = dir("a", parse(s.Beta))
			}
			script := cycleScript{Outcome: s.Outcomes, Err: map[string]bool{}}
			if s.Err != "" {
				script.Err[s.Err] = true
			}
			if s.faulty() {
				faults++
			}
			o := w.cycle(script)
			res.cycles++
			last = o
			if logf != nil {
				logf("  step %d: %s", i+1, s)
				logf("    before: alpha %s beta %s, last agreed a=%s a/x=%s", show(o.AlphaBefore), show(o.BetaBefore), show(l[0]), show(l[1]))
				for _, call := range o.Calls {
					for _, ch := range call.Changes {
						logf("    %s asked %q: %s -> %s, reported %s (errored=%v)", call.Side, ch.Path, show(ch.Old), show(ch.New), show(ch.Result), call.Errored)
					}
				}
				logf("    after:  alpha %s beta %s archive %s conflicts %d flushErr=%q loopErrs=%v", show(o.AlphaAfter), show(o.BetaAfter), show(o.Archive), len(o.Conflicts), o.FlushErr, o.LoopErrs)
			}
			if w.infra != "" {
				break
			}
			if s.Err == "" && o.FlushErr != "" {
				w.fail("cycle %d did not complete: %s %v (status %v)", i+1, o.FlushErr, o.LoopErrs, o.Status)
				break
			}
			if what, side, pi := judgeC01Cycle(l, o, pa, pb, wc); what != "" {
				res.verdict = fmt.Sprintf("cycle %d: %s", i+1, what)
				res.vkey = c.key()
				if pi >= 0 {
					before, other := o.AlphaBefore, "beta"
					if side == "beta" {
						before, other = o.BetaBefore, "alpha"
					}
					if prov[pi] == other && shallowEq(at(before, c01paths[pi]), at(archive, c01paths[pi])) {
						res.vkey = classKeyRefusedReport(c.Mode)
						res.verdict += fmt.Sprintf(" [the replaced content equals the archive entry at %q, which the controller recorded from %s's refused/partial transition report in an earlier cycle although the two sides never agreed on it]", c01paths[pi], other)
					}
				}
				break
			}
			if aro {
				// C02: "In one-way modes the source (alpha) endpoint is never modified,
				// neither by planned changes nor through its endpoint accepting staging
				// or transition requests."
				if call := o.callFor("alpha"); call != nil && len(call.Changes) > 0 {
					res.verdict = fmt.Sprintf("cycle %d: alpha was asked to change %q (%s -> %s) in a one-way mode", i+1, call.Changes[0].Path, show(call.Changes[0].Old), show(call.Changes[0].New))
					break
				}
				if w.staged["alpha"] > 0 || !deepEq(o.AlphaBefore, o.AlphaAfter) {
					res.verdict = fmt.Sprintf("cycle %d: alpha was asked to stage files or was modified in a one-way mode", i+1)
					break
				}
			}
			l = updateL(l, o.AlphaAfter, o.BetaAfter)
			prov = updateProv(prov, archive, o)
			archive = o.Archive
		}
		if logf != nil && len(w.log.all) > 0 && res.verdict != "" {
			for _, line := range w.log.all {
				logf("    log %s", line)
			}
		}
		w.close()
		res.stale = w.stale
		if w.infra != "" {
			res.infra = w.infra
			return
		}
		if last != nil {
			res.state = c01state{Archive: show(last.Archive), Alpha: show(at(last.AlphaAfter, "a")), Beta: show(at(last.BetaAfter, "a")),
				L: [2]string{show(l[0]), show(l[1])}, Prov: prov, Faults: faults}
			for _, call := range last.Calls {
				for _, ch := range call.Changes {
					res.reqs = append(res.reqs, c01req{call.Side, ch.Path, show(ch.Old), show(ch.New)})
				}
			}
			sort.Slice(res.reqs, func(i, j int) bool {
				return res.reqs[i].Side+"|"+res.reqs[i].Path < res.reqs[j].Side+"|"+res.reqs[j].Path
			})
			switch {
			case c.Steps[len(c.Steps)-1].faulty():
				res.class = "cycle-with-fault"
			case len(last.Conflicts) > 0 && len(res.reqs) > 0:
				res.class = "cycle-changes+conflict"
			case len(last.Conflicts) > 0:
				res.class = "cycle-conflict-only"
			case len(res.reqs) > 0:
				res.class = "cycle-changes"
			default:
				res.class = "cycle-idle"
			}
		}
	})
	return res
}

func c01alphabet(thorough bool) []string {
	vals := []*E{nil, file(1, false), file(2, false), dir(), dir("x", file(1, false)), dir("x", file(2, false))}
	var out []string
	for _, v := range vals {
		out = append(out, show(v))
	}
	return out
}

// c01node is one frontier element: a history and the state it leads to.
type c01node struct {
	Steps []c01step `json:"steps"`
	State c01state  `json:"state"`
}

type c01input struct {
	Mode      string    `json:"mode"`
	Nodes     []c01node `json:"nodes"`
	MaxFaults int       `json:"max_faults"`
	AllKinds  bool      `json:"all_kinds"` // faults: every outcome of outcomesFor, not only refusal
}

// c01worker expands its share of (frontier node, alpha edit, beta edit) items by
// one cycle: the fault-free cycle, and - while the history's fault budget lasts -
// one variant per requested transition and fault kind.
func c01worker(t *testing.T, job *wJob, out *wOutput) {
	root := scratch(t)
	var in c01input
	if err := json.Unmarshal(job.Input, &in); err != nil {
		out.fail("bad input: %v", err)
		return
	}
	alphabet := c01alphabet(job.Thorough)
	var succ []c01node
	run := func(steps []c01step) *c01result {
		c := c01case{Mode: in.Mode, Steps: steps}
		res := runC01(t, root, c, nil)
		out.Extra["cycles_on_real_code"] += int64(res.cycles)
		out.Extra["histories"]++
		out.Extra["requests_not_matching_disk"] += int64(res.stale)
		if res.infra != "" {
			out.fail("%s: %s", c.key(), res.infra)
			return nil
		}
		if res.verdict != "" {
			out.addCase(c.key(), true, "violation")
			out.violate(res.violationKey(c), res.verdict, c)
			return &res
		}
		out.addCase(c.key(), res.class != "cycle-idle", res.class)
		succ = append(succ, c01node{Steps: steps, State: res.state})
		return &res
	}
	item := 0
	for _, nd := range in.Nodes {
		edits := func(cur string) []string {
			opts := []string{""}
			for _, v := range alphabet {
				if v != cur {
					opts = append(opts, v)
				}
			}
			return opts
		}
		for _, av := range edits(nd.State.Alpha) {
			for _, bv := range edits(nd.State.Beta) {
				item++
				if (item-1)%job.Shards != job.Shard {
					continue
				}
				if job.expired() {
					out.Extra["capped_items"]++
					continue
				}
				steps := append(append([]c01step{}, nd.Steps...), c01step{Alpha: av, Beta: bv})
				res := run(steps)
				if res == nil {
					return
				}
				if res.verdict != "" || nd.State.Faults >= in.MaxFaults {
					continue
				}
				sides := map[string]bool{}
				for _, rq := range res.reqs {
					sides[rq.Side] = true
					opts := []string{rq.Old} // refused
					if in.AllKinds {
						opts = nil
						for _, e := range outcomesFor(&core.Change{Path: rq.Path, Old: parse(rq.Old), New: parse(rq.New)})[1:] {
							opts = append(opts, show(e))
						}
					}
					for _, o := range opts {
						fs := append([]c01step{}, steps...)
						fs[len(fs)-1].Outcomes = map[string]string{rq.Side + "|" + rq.Path: o}
						if run(fs) == nil {
							return
						}
					}
				}
				for _, side := range []string{"alpha", "beta"} {
					if sides[side] {
						fs := append([]c01step{}, steps...)
						fs[len(fs)-1].Err = side
						if run(fs) == nil {
							return
						}
					}
				}
			}
		}
	}
	out.Payload, _ = json.Marshal(succ)
}

func init() { workerFuncs["c01"] = c01worker }

// exploreC01 runs the level-synchronous search for one mode and folds the
// results into r.
func exploreC01(t *testing.T, r *vr.Report, root string, m core.SynchronizationMode, maxDepth, maxFaults int, allKinds bool, deadline time.Time) {
	init := c01node{State: c01state{Archive: "nil", Alpha: "nil", Beta: "nil", L: [2]string{"nil", "nil"}}}
	seen := map[string]bool{init.State.key(): true}
	frontier := []c01node{init}
	depth := 0
	var states, transitions int64 = 1, 0
	for len(frontier) > 0 && depth < maxDepth {
		if time.Now().After(deadline) {
			break
		}
		in := c01input{Mode: modeName(m), Nodes: frontier, MaxFaults: maxFaults, AllKinds: allKinds}
		shards := vr.Workers()
		outs := runWorkers(t, "c01", shards, deadline, in)
		extra := mergeWorkers(r, outs, func(v wViolation) bool {
			var c c01case
			json.Unmarshal(v.Case, &c)
			again := runC01(t, root, c, nil)
			return again.infra == "" && again.verdict != "" && again.violationKey(c) == v.Key
		})
		r.Add("cycles_on_real_code", extra["cycles_on_real_code"])
		r.Add("histories", extra["histories"])
		r.Add("requests_not_matching_disk", extra["requests_not_matching_disk"])
		if n := extra["capped_items"]; n > 0 {
			r.NotExhaustive(fmt.Sprintf("wall budget reached at depth %d (%s): %d expansions not run", depth+1, modeName(m), n))
		}
		var all []c01node
		for _, o := range outs {
			var succ []c01node
			if len(o.Payload) > 0 {
				if err := json.Unmarshal(o.Payload, &succ); err != nil {
					t.Fatalf("INFRA: worker payload: %v", err)
				}
			}
			all = append(all, succ...)
		}
		// Deterministic choice of the representative history of each new state.
		hkeys := make(map[*c01step]string, len(all))
		for i := range all {
			hkeys[&all[i].Steps[0]] = c01case{Steps: all[i].Steps}.key()
		}
		sort.SliceStable(all, func(i, j int) bool { return hkeys[&all[i].Steps[0]] < hkeys[&all[j].Steps[0]] })
		var next []c01node
		for _, nd := range all {
			transitions++
			if k := nd.State.key(); !seen[k] {
				seen[k] = true
				states++
				next = append(next, nd)
			}
		}
		frontier = next
		depth++
	}
	if len(frontier) > 0 {
		r.NotExhaustive(fmt.Sprintf("histories of %s explored to %d cycles; %d states on the frontier are not expanded further", modeName(m), depth, len(frontier)))
	}
	r.Add("history_states", states)
	r.Add("history_transitions", transitions)
	r.Set("history_depth_cycles_"+modeName(m), depth)
}

func TestC01Controller(t *testing.T) {
	r := vr.New(t, "C01", "exploration")
	defer r.Finish()
	root := scratch(t)
	defer removeScratch()
	tuneGC()
	if raw := vr.ReplayCase(); raw != nil {
		var c c01case
		if err := json.Unmarshal(raw, &c); err != nil {
			t.Fatalf("INFRA: bad replay case: %v", err)
		}
		res := runC01(t, root, c, t.Logf)
		t.Logf("replay %s: verdict %q infra %q", c.key(), res.verdict, res.infra)
		r.Case(c.key(), true)
		if res.infra != "" {
			t.Fatalf("INFRA: %s", res.infra)
		}
		if res.verdict != "" {
			r.Violate(res.violationKey(c), res.verdict, c, nil)
		}
		return
	}
	maxDepth, maxFaults, allKinds := 8, 1, false
	if vr.Thorough() {
		maxDepth, maxFaults, allKinds = 12, 2, true
	}
	kinds := "refused (reports Old, problem)"
	if allKinds {
		kinds = "answered with any other outcome (refused, removed-but-not-created, any prefix-closed sub-tree of Old or New)"
	}
	r.Rule(fmt.Sprintf("two-way-safe sessions of the REAL Manager/controller on two scripted in-memory disks, root directory with slot a in {nil,F1,F2,D{},D{x:F1},D{x:F2}}: every history of <= %d steps, a step = (user rewrites slot a on alpha to any value or leaves it) x (same on beta) x one real cycle, where in at most %d cycle(s) of the history one requested transition is %s or one endpoint's Transition fails as a whole; level-synchronous search, a history is extended only from the first (in a fixed order) history reaching each (archive, provenance of its entries, disks, last-agreed record, faults used) state; a case = one history, judged on every cycle; non-trivial = its last cycle requested a transition, listed a conflict or had a fault", maxDepth, maxFaults, kinds))
	r.Assume("one slot with one nested name, two file digests; symbolic links, untracked content and deeper trees are covered at the core level (checks/recon)",
		"a refused transition leaves the disk as it was; a failing endpoint leaves its disk unchanged and returns the planned entries next to its error",
		"the scripted endpoint applies a requested change only if Old matches its disk (as the real transition's just-in-time check does)")
	deadline := scaledDeadline(50*time.Second, 8*time.Minute)
	exploreC01(t, r, root, core.SynchronizationMode_SynchronizationModeTwoWaySafe, maxDepth, maxFaults, allKinds, deadline)
	r.Sample(c01case{Mode: "two-way-safe", Steps: []c01step{{Alpha: "F1"}, {Alpha: "F2", Outcomes: map[string]string{"beta|a": "F1"}}, {}}})
}

// TestC02Controller is the same history search under the three other modes,
// judged for C02's clauses (alpha untouched in one-way modes; one-way-safe
// keeps beta's modifications, two-way-resolved keeps alpha's). Registered as an
// additional C02 leg (the META entry is recon's). Known finding on the
// unchanged tree: see classKeyRefusedReport.
func TestC02Controller(t *testing.T) {
	r := vr.New(t, "C02", "exploration")
	defer r.Finish()
	root := scratch(t)
	defer removeScratch()
	tuneGC()
	if raw := vr.ReplayCase(); raw != nil {
		var c c01case
		if err := json.Unmarshal(raw, &c); err != nil {
			t.Fatalf("INFRA: bad replay case: %v", err)
		}
		res := runC01(t, root, c, t.Logf)
		t.Logf("replay %s: verdict %q infra %q", c.key(), res.verdict, res.infra)
		r.Case(c.key(), true)
		if res.infra != "" {
			t.Fatalf("INFRA: %s", res.infra)
		}
		if res.verdict != "" {
			r.Violate(res.violationKey(c), res.verdict, c, nil)
		}
		return
	}
	maxDepth, maxFaults, allKinds := 8, 1, false
	if vr.Thorough() {
		maxDepth, maxFaults, allKinds = 12, 2, true
	}
	r.Rule(fmt.Sprintf("as TestC01Controller (histories of <= %d cycles of the real Manager/controller on scripted disks, <= %d faulty cycle(s) per history) under one-way-safe, one-way-replica and two-way-resolved; judged: alpha's endpoint receives no staging/transition request and its disk is unchanged in one-way modes; one-way-safe never replaces beta content that differs from the last agreed content; two-way-resolved never replaces such alpha content; a violation is keyed by its history, except the one class with a single exact root cause (the replaced protected content equals the archive entry at that path AND the harness's provenance record says that entry was recorded from the other endpoint's refused/partial transition report where the sides never agreed), which gets the class key ctrl|<mode>|protected-content-equals-archive-entry-recorded-from-refused-transition; non-trivial = the last cycle requested a transition, listed a conflict or had a fault", maxDepth, maxFaults))
	r.Assume("same bounds as the C01 controller leg; the scripted alpha endpoint accepts requests (the read-only refusal of the real local endpoint is decided in checks/recon's endpoint leg)")
	deadline := scaledDeadline(55*time.Second, 9*time.Minute)
	for _, m := range []core.SynchronizationMode{
		core.SynchronizationMode_SynchronizationModeOneWaySafe,
		core.SynchronizationMode_SynchronizationModeOneWayReplica,
		core.SynchronizationMode_SynchronizationModeTwoWayResolved,
	} {
		exploreC01(t, r, root, m, maxDepth, maxFaults, allKinds, deadline)
	}
	r.Sample(c01case{Mode: "one-way-safe", Steps: []c01step{{Alpha: "F1"}, {Beta: "F2"}, {Alpha: "F2", Err: "beta"}}})
}
