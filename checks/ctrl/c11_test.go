//go:build verif

package ctrl

import (
	"context"
	"encoding/json"
	"fmt"
	"strings"
	"testing"
	"testing/synctest"
	"time"

	"github.com/mutagen-io/mutagen/pkg/synchronization/core"

	"verif/internal/vr"
)

// ---------------------------------------------------------------------------
// C11, controller leg: "A session never propagates the deletion of a
// synchronization root, a change of a root's type, or the emptying of a root
// that previously held at least two entries on only one side. It stops in a
// halted state, changes neither endpoint, and stays halted until the user
// intervenes."
//
// checks/session decides this on real roots with the session's history intact.
// Here the same statement is driven through the REAL Manager/controller with
// scripted disks over the states in which the controller has NO recorded
// history when the cycle runs: fresh sessions over every pair of root shapes,
// and sessions whose history was wiped by Manager.Reset after a synchronized
// state - plus the states with history, for comparison.
// ---------------------------------------------------------------------------

// Root shapes: absent, a file, a directory with 0..3 entries.
var c11roots = []string{"nil", "F1", "D{}", "D{a:F1}", "D{a:F1,b:F1}", "D{a:F1,b:F1,c:F1}"}

type c11event struct {
	Side  string `json:"side,omitempty"`  // alpha | beta ("" for reset)
	Kind  string `json:"kind"`            // delete | to-file | to-dir | empty | reset
	Cycle bool   `json:"cycle,omitempty"` // run a cycle right after this event (the history always ends with a cycle + one more flush)
}

func (e c11event) String() string {
	s := e.Kind
	if e.Side != "" {
		s = e.Side + ":" + e.Kind
	}
	if e.Cycle {
		s += ",cycle"
	}
	return s
}

type c11case struct {
	Mode   string     `json:"mode"`
	Alpha  string     `json:"alpha"` // initial roots
	Beta   string     `json:"beta"`
	Synced bool       `json:"synced"` // run a first cycle before the events (only used with Alpha == Beta)
	Events []c11event `json:"events"`
}

func (c c11case) key() string {
	var parts []string
	for _, e := range c.Events {
		parts = append(parts, e.String())
	}
	base := "fresh"
	if c.Synced {
		base = "synchronized"
	}
	return fmt.Sprintf("c11ctrl:%s:%s:alpha=%s:beta=%s:%s", c.Mode, base, c.Alpha, c.Beta, strings.Join(parts, ";"))
}

type c11result struct {
	verdict      string
	infra        string
	class        string
	inapplicable bool
	nontrivial   bool
	cycles       int
}

func entries(e *E) int { return len(e.GetContents()) }

// offence says how side's root differs from the root both sides held at the
// last synchronization in one of the three ways the statement names.
func offence(ref, cur *E) string {
	switch {
	case ref == nil:
		return ""
	case cur == nil:
		return "deleted"
	case cur.Kind != ref.Kind:
		return "type-changed"
	case ref.Kind == core.EntryKind_Directory && entries(ref) >= 2 && entries(cur) == 0:
		return "emptied"
	}
	return ""
}

func runC11(t *testing.T, root string, c c11case, logf func(string, ...any)) (res c11result) {
	inBubble(t, func() {
		m := modeByName(c.Mode)
		twoWay := m == core.SynchronizationMode_SynchronizationModeTwoWaySafe || m == core.SynchronizationMode_SynchronizationModeTwoWayResolved
		w := newWorld(root, worldConfig{Mode: m, AlphaPreserves: true, BetaPreserves: true}, parse(c.Alpha), parse(c.Beta), logf != nil)
		// ref: the root both disks held after the last completed cycle that left
		// them identical, as long as the session's history was not reset since
		// (haveRef); it is the harness's own notion of "previously".
		var ref *E
		haveRef := false
		// touched: sides the user has written to since ref was established ("the
		// other side is unchanged" means never touched, not "looks the same again").
		touched := map[string]bool{}
		halted := false
		classes := []string{}

		// judgeCycle runs one flush and judges it; final adds the "stays halted" flush.
		judgeCycle := func(name string) bool {
			o := w.cycle(cycleScript{})
			res.cycles++
			if w.infra != "" {
				return false
			}
			nreq := 0
			for _, call := range o.Calls {
				nreq += len(call.Changes)
			}
			nowHalted := isHaltStatus(o.Status)
			if logf != nil {
				logf("  %s: alpha %s -> %s, beta %s -> %s, requests %d, status %v, archive %s, flushErr %q loopErrs %v", name, show(o.AlphaBefore), show(o.AlphaAfter), show(o.BetaBefore), show(o.BetaAfter), nreq, o.Status, show(o.Archive), o.FlushErr, o.LoopErrs)
				for _, call := range o.Calls {
					for _, ch := range call.Changes {
						logf("    %s asked %q: %s -> %s", call.Side, ch.Path, show(ch.Old), show(ch.New))
					}
				}
			}
			// "A session never propagates the deletion of a synchronization root, a
			// change of a root's type": whatever the history, no cycle may remove an
			// existing root or turn it into another kind of object.
			for _, sd := range []struct {
				name          string
				before, after *E
			}{{"alpha", o.AlphaBefore, o.AlphaAfter}, {"beta", o.BetaBefore, o.BetaAfter}} {
				if sd.before != nil && sd.after == nil {
					res.verdict = fmt.Sprintf("%s: the cycle deleted %s's root %s (other side before: alpha %s, beta %s)", name, sd.name, show(sd.before), show(o.AlphaBefore), show(o.BetaBefore))
					return false
				}
				if sd.before != nil && sd.after != nil && sd.before.Kind != sd.after.Kind {
					res.verdict = fmt.Sprintf("%s: the cycle changed the type of %s's root from %s to %s", name, sd.name, show(sd.before), show(sd.after))
					return false
				}
			}
			for _, call := range o.Calls {
				for _, ch := range call.Changes {
					if ch.Path == "" && ch.Old != nil && (ch.New == nil || ch.New.Kind != ch.Old.Kind) {
						res.verdict = fmt.Sprintf("%s: %s was asked to replace its root %s by %s", name, call.Side, show(ch.Old), show(ch.New))
						return false
					}
				}
			}
			offA, offB := "", ""
			if haveRef {
				offA, offB = offence(ref, o.AlphaBefore), offence(ref, o.BetaBefore)
			}
			if offA != "" || offB != "" {
				res.nontrivial = true
			}
			// "... or the emptying of a root that previously held at least two
			// entries on only one side": the other side must not be emptied.
			if offA == "emptied" && entries(o.BetaBefore) > 0 && o.BetaAfter != nil && entries(o.BetaAfter) == 0 {
				res.verdict = fmt.Sprintf("%s: alpha's root (%d entries at the last synchronization) was emptied and the cycle emptied beta's root too (%s -> %s)", name, entries(ref), show(o.BetaBefore), show(o.BetaAfter))
				return false
			}
			if offB == "emptied" && entries(o.AlphaBefore) > 0 && o.AlphaAfter != nil && entries(o.AlphaAfter) == 0 {
				res.verdict = fmt.Sprintf("%s: beta's root (%d entries at the last synchronization) was emptied and the cycle emptied alpha's root too (%s -> %s)", name, entries(ref), show(o.AlphaBefore), show(o.AlphaAfter))
				return false
			}
			// "It stops in a halted state": demanded where the offending side's state
			// would otherwise flow to the untouched other side - history intact, the
			// other side still exactly as synchronized, and the mode lets that side's
			// changes through (either side in two-way modes, alpha in one-way modes).
			mustHalt := ""
			if offA != "" && !touched["beta"] && deepEq(o.BetaBefore, ref) {
				mustHalt = "alpha's root was " + offA
			} else if offB != "" && !touched["alpha"] && deepEq(o.AlphaBefore, ref) && twoWay {
				mustHalt = "beta's root was " + offB
			}
			if mustHalt != "" && !nowHalted {
				res.verdict = fmt.Sprintf("%s: %s since the last synchronization (%s) while the other side is unchanged, but the session is not halted (status %v, %d requests)", name, mustHalt, show(ref), o.Status, nreq)
				return false
			}
			// "changes neither endpoint, and stays halted until the user intervenes"
			if nowHalted {
				res.nontrivial = true
				if nreq > 0 || !deepEq(o.AlphaBefore, o.AlphaAfter) || !deepEq(o.BetaBefore, o.BetaAfter) {
					res.verdict = fmt.Sprintf("%s: the session reports %v but %d transition(s) were requested / a disk changed", name, o.Status, nreq)
					return false
				}
			}
			if halted && !nowHalted {
				res.verdict = fmt.Sprintf("%s: the session was halted and, without user intervention, is now %v", name, o.Status)
				return false
			}
			halted = nowHalted
			if nowHalted {
				classes = append(classes, "halted:"+o.Status.String())
			} else if o.FlushErr != "" || len(o.LoopErrs) > 0 {
				w.fail("%s did not complete: %s %v (status %v)", name, o.FlushErr, o.LoopErrs, o.Status)
				return false
			} else {
				switch {
				case nreq > 0:
					classes = append(classes, "propagated")
				case len(o.Conflicts) > 0:
					classes = append(classes, "conflict")
				default:
					classes = append(classes, "idle")
				}
				if deepEq(o.AlphaAfter, o.BetaAfter) {
					ref, haveRef = clone(o.AlphaAfter), true
					touched = map[string]bool{}
				}
			}
			return true
		}

		ok := true
		if c.Synced {
			ok = judgeCycle("synchronizing cycle")
		}
		for i, ev := range c.Events {
			if !ok || w.infra != "" {
				break
			}
			d := w.alpha
			if ev.Side == "beta" {
				d = w.beta
			}
			if ev.Side != "" {
				touched[ev.Side] = true
			}
			switch ev.Kind {
			case "delete":
				if d.tree == nil {
					res.inapplicable = true
				}
				d.tree = nil
			case "to-file":
				if d.tree == nil || d.tree.Kind != core.EntryKind_Directory {
					res.inapplicable = true
				}
				d.tree = file(1, false)
			case "to-dir":
				if d.tree == nil || d.tree.Kind != core.EntryKind_File {
					res.inapplicable = true
				}
				d.tree = dir("z", file(2, false))
			case "empty":
				if d.tree == nil || d.tree.Kind != core.EntryKind_Directory || entries(d.tree) == 0 {
					res.inapplicable = true
				}
				d.tree = dir()
			case "reset":
				// The user wipes the session's history: an intervention. It also ends
				// the harness's notion of "previously held" and a halted state.
				if err := w.mgr.Reset(context.Background(), w.sel(), ""); err != nil {
					w.fail("reset: %v", err)
				}
				synctest.Wait()
				haveRef, ref, halted = false, nil, false
			default:
				w.fail("unknown event %q", ev.Kind)
			}
			if res.inapplicable {
				break
			}
			if logf != nil {
				logf("  event %d: %s -> alpha %s beta %s", i+1, ev, show(w.alpha.tree), show(w.beta.tree))
			}
			if ev.Cycle {
				ok = judgeCycle(fmt.Sprintf("cycle after event %d", i+1))
			}
		}
		if ok && !res.inapplicable && w.infra == "" {
			if judgeCycle("final cycle") && w.infra == "" {
				// "stays halted until the user intervenes": let (virtual) time pass -
				// far longer than the controller's reconnect interval - then flush again.
				w.mu.Lock()
				scans0, connects0 := w.scans, w.connects
				w.mu.Unlock()
				time.Sleep(2 * time.Minute)
				synctest.Wait()
				w.mu.Lock()
				scans1, connects1 := w.scans, w.connects
				w.mu.Unlock()
				if halted && (scans1 != scans0 || connects1 != connects0) {
					res.verdict = fmt.Sprintf("the halted session resumed by itself: %d scan(s) and %d reconnect(s) within two minutes without any user intervention", scans1-scans0, connects1-connects0)
				} else {
					judgeCycle("one more flush, two minutes later")
				}
			}
		}
		if logf != nil && res.verdict != "" {
			for _, l := range w.log.all {
				logf("    log %s", l)
			}
		}
		w.close()
		if w.infra != "" {
			res.infra = w.infra
		}
		res.class = strings.Join(classes, ">")
	})
	return res
}

// c11bases: every pair of root shapes for a fresh session, and every shape for
// a session synchronized over two identical roots.
func c11bases() []c11case {
	var out []c11case
	for _, a := range c11roots {
		for _, b := range c11roots {
			out = append(out, c11case{Alpha: a, Beta: b})
		}
	}
	for _, a := range c11roots[1:] {
		out = append(out, c11case{Alpha: a, Beta: a, Synced: true})
	}
	return out
}

// c11histories: all sequences of <= 2 (thorough: 3) events; a cycle may run
// between them.
func c11histories(thorough bool) [][]c11event {
	var single []c11event
	for _, side := range []string{"alpha", "beta"} {
		for _, k := range []string{"delete", "to-file", "to-dir", "empty"} {
			single = append(single, c11event{Side: side, Kind: k})
		}
	}
	single = append(single, c11event{Kind: "reset"})
	out := [][]c11event{nil}
	for _, e := range single {
		out = append(out, []c11event{e})
	}
	for _, e1 := range single {
		for _, cyc := range []bool{false, true} {
			for _, e2 := range single {
				if e1.Kind == "reset" && e2.Kind == "reset" {
					continue
				}
				f := e1
				f.Cycle = cyc
				out = append(out, []c11event{f, e2})
				if !thorough {
					continue
				}
				for _, cyc2 := range []bool{false, true} {
					for _, e3 := range single {
						if e3.Kind == "reset" && (e1.Kind == "reset" || e2.Kind == "reset") {
							continue
						}
						g := e2
						g.Cycle = cyc2
						out = append(out, []c11event{f, g, e3})
					}
				}
			}
		}
	}
	return out
}

func c11worker(t *testing.T, job *wJob, out *wOutput) {
	root := scratch(t)
	bases, hists := c11bases(), c11histories(job.Thorough)
	item := 0
	for _, b := range bases {
		for _, m := range allModes {
			for _, h := range hists {
				item++
				if (item-1)%job.Shards != job.Shard {
					continue
				}
				if job.expired() {
					out.Extra["capped_histories"]++
					continue
				}
				c := b
				c.Mode, c.Events = modeName(m), h
				res := runC11(t, root, c, nil)
				out.Extra["cycles_on_real_code"] += int64(res.cycles)
				if res.infra != "" {
					out.fail("%s: %s", c.key(), res.infra)
					return
				}
				if res.inapplicable {
					out.Extra["inapplicable_histories"]++
					continue
				}
				if res.verdict != "" {
					out.addCase(c.key(), true, "violation")
					out.violate(c.key(), res.verdict, c)
					continue
				}
				out.addCase(c.key(), res.nontrivial, res.class)
				if res.nontrivial && len(h) == 2 && h[0].Kind == "reset" {
					out.sample(c, 1)
				}
			}
		}
	}
}

func init() { workerFuncs["c11"] = c11worker }

func TestC11Controller(t *testing.T) {
	r := vr.New(t, "C11", "exploration")
	defer r.Finish()
	root := scratch(t)
	defer removeScratch()
	tuneGC()
	if raw := vr.ReplayCase(); raw != nil {
		var c c11case
		if err := json.Unmarshal(raw, &c); err != nil {
			t.Fatalf("INFRA: bad replay case: %v", err)
		}
		res := runC11(t, root, c, t.Logf)
		t.Logf("replay %s: verdict %q infra %q class %s inapplicable %v", c.key(), res.verdict, res.infra, res.class, res.inapplicable)
		r.Case(c.key(), true)
		if res.infra != "" {
			t.Fatalf("INFRA: %s", res.infra)
		}
		if res.verdict != "" {
			r.Violate(c.key(), res.verdict, c, nil)
		}
		return
	}
	r.Rule(fmt.Sprintf("REAL Manager/controller on scripted disks whose root is one of %v: %d bases (fresh session over every pair of roots; session synchronized by a first cycle over two identical roots) x 4 modes x every sequence of <= 2 (thorough: 3) events from {delete root, replace directory root by a file, replace file root by a directory, empty a directory root} on alpha or beta and {Manager.Reset}, with or without a cycle between consecutive events, always followed by a cycle and one more flush; every cycle judged: no cycle deletes an existing root or changes its type (on disk or by request), a root emptied on one side (>= 2 entries at the last synchronization, history not reset) is not emptied on the other, a session whose one root was deleted / type-changed / emptied since the last synchronization while the other is unchanged halts when the mode lets that side's changes through, a halted session requests no transition, changes no disk and stays halted across the next flush (Reset counts as the user intervening); sequences whose event is not enabled are skipped; non-trivial = a root differed from the last synchronized root in one of the three ways at some cycle, or the session halted", c11roots, len(c11bases())))
	r.Assume("entries are single files; 'previously held' is the root both disks held after the last completed cycle that left them identical, forgotten on Reset (after a reset the session has no record of it, and the emptying clause is not demanded); after Reset or in a fresh session only non-propagation of root deletion / type change is demanded, not halting",
		"transitions are applied exactly")
	deadline := scaledDeadline(50*time.Second, 8*time.Minute)
	outs := runWorkers(t, "c11", vr.Workers(), deadline, nil)
	extra := mergeWorkers(r, outs, func(v wViolation) bool {
		var c c11case
		json.Unmarshal(v.Case, &c)
		again := runC11(t, root, c, nil)
		return again.infra == "" && again.verdict != ""
	})
	r.Set("bases", len(c11bases()))
	r.Set("event_sequences", len(c11histories(vr.Thorough())))
	r.Set("cycles_on_real_code", extra["cycles_on_real_code"])
	r.Set("inapplicable_histories", extra["inapplicable_histories"])
	if n := extra["capped_histories"]; n > 0 {
		r.NotExhaustive(fmt.Sprintf("wall budget reached: %d histories were not run", n))
	}
	r.Sample(c11case{Mode: "one-way-replica", Alpha: "D{a:F1,b:F1}", Beta: "D{a:F1,b:F1}", Synced: true, Events: []c11event{{Kind: "reset"}, {Side: "alpha", Kind: "delete"}}})
}
