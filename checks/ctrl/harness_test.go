//go:build verif

// Package ctrl holds the controller-level legs of C05, C01 and C18: the REAL
// synchronization.Manager and controller ((*controller).synchronize) are driven
// with two SCRIPTED IN-MEMORY ENDPOINTS inside a testing/synctest bubble. The
// pure functions core.Reconcile / core.Apply / core.PropagateExecutability are
// decided in checks/recon; what is decided here is how the controller combines
// them: which snapshot pre-processing runs in which order, and what it folds
// into the saved last-synchronized state (the archive) after the endpoints
// reported their transition results.
package ctrl

import (
	"bytes"
	"context"
	"errors"
	"fmt"
	"os"
	"path/filepath"
	"runtime/debug"
	"sort"
	"strings"
	"sync"
	"sync/atomic"
	"testing"
	"testing/synctest"
	"time"

	"google.golang.org/protobuf/proto"

	"github.com/mutagen-io/mutagen/pkg/logging"
	"github.com/mutagen-io/mutagen/pkg/selection"
	"github.com/mutagen-io/mutagen/pkg/synchronization"
	"github.com/mutagen-io/mutagen/pkg/synchronization/core"
	"github.com/mutagen-io/mutagen/pkg/synchronization/core/ignore"
	"github.com/mutagen-io/mutagen/pkg/synchronization/rsync"
	urlpkg "github.com/mutagen-io/mutagen/pkg/url"
)

type E = core.Entry

// ---------------------------------------------------------------------------
// Tree helpers, written here independently of the code under test.
// ---------------------------------------------------------------------------

func file(d byte, x bool) *E { return &E{Kind: core.EntryKind_File, Digest: []byte{d}, Executable: x} }

func dir(kv ...interface{}) *E {
	e := &E{Kind: core.EntryKind_Directory}
	for i := 0; i+1 < len(kv); i += 2 {
		if c := kv[i+1].(*E); c != nil {
			if e.Contents == nil {
				e.Contents = map[string]*E{}
			}
			e.Contents[kv[i].(string)] = c
		}
	}
	return e
}

func isDirKind(e *E) bool {
	return e != nil && (e.Kind == core.EntryKind_Directory || e.Kind == core.EntryKind_PhantomDirectory)
}

func isUnsync(e *E) bool {
	return e != nil && (e.Kind == core.EntryKind_Untracked || e.Kind == core.EntryKind_Problematic || e.Kind == core.EntryKind_PhantomDirectory)
}

func shallowEq(a, b *E) bool {
	if a == nil || b == nil {
		return a == nil && b == nil
	}
	return a.Kind == b.Kind && a.Executable == b.Executable && bytes.Equal(a.Digest, b.Digest) && a.Target == b.Target && a.Problem == b.Problem
}

func deepEq(a, b *E) bool {
	if !shallowEq(a, b) {
		return false
	}
	if a == nil {
		return true
	}
	if len(a.Contents) != len(b.Contents) {
		return false
	}
	for n, c := range a.Contents {
		o, ok := b.Contents[n]
		if !ok || !deepEq(c, o) {
			return false
		}
	}
	return true
}

func at(t *E, path string) *E {
	if path == "" {
		return t
	}
	for _, c := range strings.Split(path, "/") {
		if t == nil {
			return nil
		}
		t = t.Contents[c]
	}
	return t
}

func join(p, n string) string {
	if p == "" {
		return n
	}
	if n == "" {
		return p
	}
	return p + "/" + n
}

func clone(e *E) *E {
	if e == nil {
		return nil
	}
	r := &E{Kind: e.Kind, Executable: e.Executable, Target: e.Target, Problem: e.Problem}
	if e.Digest != nil {
		r.Digest = append([]byte{}, e.Digest...)
	}
	if e.Contents != nil {
		r.Contents = make(map[string]*E, len(e.Contents))
		for n, c := range e.Contents {
			r.Contents[n] = clone(c)
		}
	}
	return r
}

// setAt is the harness's own "write to disk": it returns t with the node at
// path replaced by v (nil = removed). Missing parents are an error of the
// caller (the scripted endpoint refuses such a change instead of calling this).
func setAt(t *E, path string, v *E) *E {
	if path == "" {
		return clone(v)
	}
	t = clone(t)
	comps := strings.Split(path, "/")
	cur := t
	for _, c := range comps[:len(comps)-1] {
		cur = cur.Contents[c]
	}
	name := comps[len(comps)-1]
	if v == nil {
		delete(cur.Contents, name)
		if len(cur.Contents) == 0 {
			cur.Contents = nil
		}
	} else {
		if cur.Contents == nil {
			cur.Contents = map[string]*E{}
		}
		cur.Contents[name] = clone(v)
	}
	return t
}

func parentIsDir(t *E, path string) bool {
	if path == "" {
		return true
	}
	i := strings.LastIndex(path, "/")
	parent := ""
	if i >= 0 {
		parent = path[:i]
	}
	return isDirKind(at(t, parent))
}

func hasUnsync(e *E) bool {
	if e == nil {
		return false
	}
	if isUnsync(e) {
		return true
	}
	for _, c := range e.Contents {
		if hasUnsync(c) {
			return true
		}
	}
	return false
}

func sortedNames(e *E) []string {
	names := make([]string, 0, len(e.GetContents()))
	for n := range e.GetContents() {
		names = append(names, n)
	}
	sort.Strings(names)
	return names
}

func walk(e *E, path string, fn func(path string, n *E)) {
	if e == nil {
		return
	}
	fn(path, e)
	for _, n := range sortedNames(e) {
		walk(e.Contents[n], join(path, n), fn)
	}
}

// hasNew: x contains a node created or modified relative to base.
func hasNew(base, x *E) bool {
	if x == nil {
		return false
	}
	if !shallowEq(base, x) {
		return true
	}
	for n, c := range x.Contents {
		var b *E
		if base != nil {
			b = base.Contents[n]
		}
		if hasNew(b, c) {
			return true
		}
	}
	return false
}

func pathsRelated(p, q string) bool {
	if p == q || p == "" || q == "" {
		return true
	}
	return strings.HasPrefix(p, q+"/") || strings.HasPrefix(q, p+"/")
}

// disagreementPoints: where two (fully synchronizable) trees stop being shallow-equal.
func disagreementPoints(alpha, beta *E) []string {
	var out []string
	var rec func(p string, x, y *E)
	rec = func(p string, x, y *E) {
		if x == nil && y == nil {
			return
		}
		if !shallowEq(x, y) {
			out = append(out, p)
			return
		}
		names := map[string]bool{}
		for n := range x.Contents {
			names[n] = true
		}
		for n := range y.Contents {
			names[n] = true
		}
		for n := range names {
			rec(join(p, n), x.Contents[n], y.Contents[n])
		}
	}
	rec("", alpha, beta)
	sort.Strings(out)
	return out
}

// show renders a tree compactly (replay files, keys, messages); parse inverts it.
func show(e *E) string {
	if e == nil {
		return "nil"
	}
	switch e.Kind {
	case core.EntryKind_File:
		x := ""
		if e.Executable {
			x = "x"
		}
		d := byte(0)
		if len(e.Digest) > 0 {
			d = e.Digest[0]
		}
		return fmt.Sprintf("F%d%s", d, x)
	case core.EntryKind_SymbolicLink:
		return "L(" + e.Target + ")"
	case core.EntryKind_Untracked:
		return "U"
	case core.EntryKind_Problematic:
		return "P"
	}
	parts := []string{}
	for _, n := range sortedNames(e) {
		parts = append(parts, n+":"+show(e.Contents[n]))
	}
	k := "D"
	if e.Kind == core.EntryKind_PhantomDirectory {
		k = "Ph"
	}
	return k + "{" + strings.Join(parts, ",") + "}"
}

func parse(s string) *E {
	e, rest := parseAt(s)
	if rest != "" {
		panic("trailing input in tree: " + rest)
	}
	return e
}

func parseAt(s string) (*E, string) {
	switch {
	case strings.HasPrefix(s, "nil"):
		return nil, s[3:]
	case strings.HasPrefix(s, "F"):
		d := s[1] - '0'
		if len(s) > 2 && s[2] == 'x' {
			return file(d, true), s[3:]
		}
		return file(d, false), s[2:]
	case strings.HasPrefix(s, "U"):
		return &E{Kind: core.EntryKind_Untracked}, s[1:]
	case strings.HasPrefix(s, "Ph{"), strings.HasPrefix(s, "D{"):
		kind := core.EntryKind_Directory
		rest := s[2:]
		if s[0] == 'P' {
			kind = core.EntryKind_PhantomDirectory
			rest = s[3:]
		}
		e := &E{Kind: kind}
		for !strings.HasPrefix(rest, "}") {
			i := strings.Index(rest, ":")
			name := rest[:i]
			var c *E
			c, rest = parseAt(rest[i+1:])
			if e.Contents == nil {
				e.Contents = map[string]*E{}
			}
			e.Contents[name] = c
			rest = strings.TrimPrefix(rest, ",")
		}
		return e, rest[1:]
	}
	panic("cannot parse tree: " + s)
}

// subtrees returns every prefix-closed sub-tree of t (nil, t for scalars, and
// for a directory the directory with any subset of its children, each replaced
// by one of its own non-nil sub-trees): what an endpoint can report after a
// partial creation (of New) or a partial removal (of Old).
func subtrees(t *E) []*E {
	if t == nil {
		return []*E{nil}
	}
	if t.Kind != core.EntryKind_Directory {
		return []*E{nil, t}
	}
	out := []*E{nil}
	partial := []*E{{Kind: core.EntryKind_Directory}}
	for _, n := range sortedNames(t) {
		var next []*E
		for _, p := range partial {
			next = append(next, p)
			for _, s := range subtrees(t.Contents[n]) {
				if s == nil {
					continue
				}
				c := &E{Kind: core.EntryKind_Directory, Contents: map[string]*E{}}
				for k, v := range p.Contents {
					c.Contents[k] = v
				}
				c.Contents[n] = s
				next = append(next, c)
			}
		}
		partial = next
	}
	return append(out, partial...)
}

// outcomesFor lists, in a fixed order, everything the scripted endpoint may
// report for one requested change: index 0 = applied exactly (New), 1 = refused
// (Old), then nil (removed but not created), then every prefix-closed sub-tree
// of Old and of New (partial removal / partial creation), without duplicates.
func outcomesFor(c *core.Change) []*E {
	var out []*E
	seen := map[string]bool{}
	add := func(e *E) {
		k := show(e)
		if !seen[k] {
			seen[k] = true
			out = append(out, e)
		}
	}
	add(c.New)
	add(c.Old)
	add(nil)
	for _, s := range subtrees(c.Old) {
		add(s)
	}
	for _, s := range subtrees(c.New) {
		add(s)
	}
	return out
}

// ---------------------------------------------------------------------------
// Modes.
// ---------------------------------------------------------------------------

var allModes = []core.SynchronizationMode{
	core.SynchronizationMode_SynchronizationModeTwoWaySafe,
	core.SynchronizationMode_SynchronizationModeTwoWayResolved,
	core.SynchronizationMode_SynchronizationModeOneWaySafe,
	core.SynchronizationMode_SynchronizationModeOneWayReplica,
}

func modeName(m core.SynchronizationMode) string {
	switch m {
	case core.SynchronizationMode_SynchronizationModeTwoWaySafe:
		return "two-way-safe"
	case core.SynchronizationMode_SynchronizationModeTwoWayResolved:
		return "two-way-resolved"
	case core.SynchronizationMode_SynchronizationModeOneWaySafe:
		return "one-way-safe"
	case core.SynchronizationMode_SynchronizationModeOneWayReplica:
		return "one-way-replica"
	}
	return "?"
}

func modeByName(n string) core.SynchronizationMode {
	for _, m := range allModes {
		if modeName(m) == n {
			return m
		}
	}
	panic("unknown mode " + n)
}

// ---------------------------------------------------------------------------
// Scripted disks and endpoints.
// ---------------------------------------------------------------------------

// disk is one endpoint's filesystem as the harness models it: a tree of plain
// entries (every directory is a real directory), whether the filesystem stores
// executable bits, and - for Docker-style ignores - which directories a scan
// reports as phantom (ignored themselves, traversed because they may hold
// un-ignored content). It outlives endpoint instances (reconnects).
type disk struct {
	tree      *E
	preserves bool
	phantom   map[string]bool
}

// stored is what the filesystem keeps of an entry written to it: a
// non-preserving filesystem drops executable bits.
func (d *disk) stored(e *E) *E {
	e = clone(e)
	if !d.preserves {
		walk(e, "", func(_ string, n *E) { n.Executable = false })
	}
	return e
}

// snapshotContent is what a scan of the disk reports.
func (d *disk) snapshotContent() *E {
	t := clone(d.tree)
	if len(d.phantom) > 0 {
		walk(t, "", func(p string, n *E) {
			if n.Kind == core.EntryKind_Directory && d.phantom[p] {
				n.Kind = core.EntryKind_PhantomDirectory
			}
		})
	}
	return t
}

func (d *disk) snapshot() *core.Snapshot {
	s := &core.Snapshot{Content: d.snapshotContent(), PreservesExecutability: d.preserves}
	walk(s.Content, "", func(_ string, n *E) {
		switch {
		case isDirKind(n):
			s.Directories++
		case n.Kind == core.EntryKind_File:
			s.Files++
			s.TotalFileSize++
		}
	})
	if s.Content == nil {
		// core.Scan of a missing root reports an empty snapshot.
		s.PreservesExecutability = false
	}
	return s
}

// changeRec is one requested change with what the scripted endpoint answered.
type changeRec struct {
	Path    string
	Old     *E
	New     *E
	Result  *E
	Before  *E // what the disk held at Path when the request arrived
	Problem bool
}

// transCall is one Transition call received by a scripted endpoint.
type transCall struct {
	Side    string
	Changes []changeRec
	Errored bool
}

type scriptedEndpoint struct {
	w    *world
	side string
	d    *disk
}

var errUnreachable = errors.New("endpoint unreachable")

func (e *scriptedEndpoint) Poll(ctx context.Context) error {
	e.w.mu.Lock()
	e.w.note(e.side, "Poll")
	broken := e.w.broken[e.side]
	e.w.mu.Unlock()
	select {
	case <-ctx.Done():
		return nil
	case <-broken:
		// The endpoint's connection is lost while the session sits idle.
		return errUnreachable
	}
}

func (e *scriptedEndpoint) Scan(_ context.Context, _ *core.Entry, _ bool) (*core.Snapshot, error, bool) {
	e.w.mu.Lock()
	defer e.w.mu.Unlock()
	e.w.note(e.side, "Scan")
	if e.w.down[e.side] {
		return nil, errUnreachable, false
	}
	e.w.scans++
	return e.d.snapshot(), nil, false
}

func (e *scriptedEndpoint) Stage(paths []string, _ [][]byte) ([]string, []*rsync.Signature, rsync.Receiver, error) {
	// Everything is "already staged": no path is handed back for transfer.
	e.w.mu.Lock()
	defer e.w.mu.Unlock()
	e.w.note(e.side, "Stage")
	if e.w.down[e.side] {
		return nil, nil, nil, errUnreachable
	}
	e.w.staged[e.side] += len(paths)
	return nil, nil, nil, nil
}

func (e *scriptedEndpoint) Supply(_ []string, _ []*rsync.Signature, _ rsync.Receiver) error {
	return errors.New("scripted endpoint never supplies")
}

var errInjected = errors.New("injected endpoint failure")

func (e *scriptedEndpoint) Transition(ctx context.Context, transitions []*core.Change) ([]*core.Entry, []*core.Problem, bool, error) {
	w := e.w
	w.mu.Lock()
	script := w.script
	w.mu.Unlock()
	if script.Cancel {
		// "cancellation": the transition is interrupted by the session being
		// paused; whatever the script says was done by then is reported.
		<-ctx.Done()
	}
	w.mu.Lock()
	defer w.mu.Unlock()
	w.note(e.side, "Transition")
	if w.down[e.side] {
		return nil, nil, false, errUnreachable
	}
	call := transCall{Side: e.side}
	results := make([]*E, len(transitions))
	var problems []*core.Problem
	if script.Err[e.side] {
		// The endpoint fails as a whole (e.g. its transport broke). Nothing is
		// applied to the disk; the values returned next to the error are what the
		// plan asked for - a caller that used them would record a success that
		// never happened.
		call.Errored = true
		for i, c := range transitions {
			results[i] = clone(c.New)
			call.Changes = append(call.Changes, changeRec{Path: c.Path, Old: clone(c.Old), New: clone(c.New), Before: clone(at(e.d.tree, c.Path))})
		}
		w.calls = append(w.calls, call)
		return results, nil, false, errInjected
	}
	for i, c := range transitions {
		rec := changeRec{Path: c.Path, Old: clone(c.Old), New: clone(c.New), Before: clone(at(e.d.tree, c.Path))}
		var res *E
		want, scripted := script.Outcome[e.side+"|"+c.Path]
		switch {
		case !deepEq(e.d.stored(c.Old), rec.Before) || !parentIsDir(e.d.tree, c.Path):
			// The plan does not describe the disk (a real endpoint's just-in-time
			// check refuses such a change). Never expected here; counted.
			res = rec.Before
			w.stale++
		case scripted:
			found := false
			for _, o := range outcomesFor(c) {
				if show(o) == want {
					res, found = o, true
					break
				}
			}
			if !found {
				w.fail("script names outcome %s for %s %q (%s -> %s) which is not among its outcomes", want, e.side, c.Path, show(c.Old), show(c.New))
				res = c.New
			}
		default:
			res = c.New
		}
		e.d.tree = setAt(e.d.tree, c.Path, e.d.stored(res))
		results[i] = clone(res)
		rec.Result = clone(res)
		if !deepEq(res, c.New) {
			rec.Problem = true
			problems = append(problems, &core.Problem{Path: c.Path, Error: "scripted transition problem"})
		}
		call.Changes = append(call.Changes, rec)
	}
	w.calls = append(w.calls, call)
	return results, problems, false, nil
}

func (e *scriptedEndpoint) Shutdown() error { return nil }

// cycleScript tells the scripted endpoints how to answer during one cycle.
type cycleScript struct {
	Outcome map[string]string // "side|path" -> show(result); absent = applied exactly
	Err     map[string]bool   // side -> Transition returns an error
	Cancel  bool              // Transition blocks until the session is paused
}

// ---------------------------------------------------------------------------
// Protocol handler: URLs /ctrlw/<world id>/<side> connect to a world's disks.
// ---------------------------------------------------------------------------

var worlds sync.Map // id -> *world

type handler struct{}

func (handler) Connect(_ context.Context, _ *logging.Logger, u *urlpkg.URL, _ string, _ string,
	_ synchronization.Version, _ *synchronization.Configuration, alpha bool) (synchronization.Endpoint, error) {
	parts := strings.Split(strings.TrimPrefix(u.Path, "/ctrlw/"), "/")
	v, ok := worlds.Load(parts[0])
	if !ok {
		return nil, errors.New("harness: no such world " + u.Path)
	}
	w := v.(*world)
	side, d := "beta", w.beta
	if alpha {
		side, d = "alpha", w.alpha
	}
	w.mu.Lock()
	defer w.mu.Unlock()
	w.note(side, "Connect")
	if w.down[side] {
		return nil, errUnreachable
	}
	w.connects++
	return &scriptedEndpoint{w: w, side: side, d: d}, nil
}

func init() {
	// This package does not link the stock local protocol package; the harness
	// handler is the only handler for local URLs in this test binary.
	synchronization.ProtocolHandlers[urlpkg.Protocol_Local] = handler{}
}

// ---------------------------------------------------------------------------
// World: one real Manager + one session + two disks, inside one bubble.
// ---------------------------------------------------------------------------

type worldConfig struct {
	Mode           core.SynchronizationMode
	Docker         bool // Docker-style ignore syntax (phantom directories are reified by the controller)
	AlphaPreserves bool
	BetaPreserves  bool
	Phantom        []string // directories both disks report as phantom (Docker syntax only)
}

type world struct {
	id      string
	cfg     worldConfig
	dataDir string
	alpha   *disk
	beta    *disk
	mgr     *synchronization.Manager
	sid     string
	log     *logSink

	mu       sync.Mutex
	script   cycleScript
	calls    []transCall
	scans    int
	connects int
	staged   map[string]int
	stale    int
	infra    string

	// Journal of endpoint calls (global order shared with the harness's marks of
	// API calls) and endpoint reachability (C29 leg).
	jseq    int
	journal []jEntry
	down    map[string]bool          // side -> unreachable: Connect, Scan, Stage, Transition fail
	broken  map[string]chan struct{} // closed when the side becomes unreachable: a pending Poll fails
}

type jEntry struct {
	Seq  int
	Side string
	Op   string // Connect Poll Scan Stage Transition
}

// note appends a journal entry; the caller holds w.mu.
func (w *world) note(side, op string) {
	w.jseq++
	w.journal = append(w.journal, jEntry{w.jseq, side, op})
}

// mark returns a fresh sequence number (position of a harness-side event in
// the journal's order).
func (w *world) mark() int {
	w.mu.Lock()
	defer w.mu.Unlock()
	w.jseq++
	return w.jseq
}

// setReachable makes an endpoint unreachable (a pending Poll returns an error,
// every later call and Connect fail) or reachable again.
func (w *world) setReachable(side string, reachable bool) {
	w.mu.Lock()
	defer w.mu.Unlock()
	if reachable {
		if w.down[side] {
			w.down[side] = false
			w.broken[side] = make(chan struct{})
		}
		return
	}
	if !w.down[side] {
		w.down[side] = true
		close(w.broken[side])
	}
}

func (w *world) fail(format string, args ...any) {
	if w.infra == "" {
		w.infra = fmt.Sprintf(format, args...)
	}
}

// logSink keeps the controller's "Synchronization loop terminated with error"
// lines: the only place the reason of a failed cycle is observable after the
// controller has reconnected (it clears LastError when it restarts).
type logSink struct {
	mu    sync.Mutex
	buf   []byte
	terms []string
	all   []string
	keep  bool
}

const termMarker = "Synchronization loop terminated with error: "

func (s *logSink) Write(p []byte) (int, error) {
	s.mu.Lock()
	defer s.mu.Unlock()
	s.buf = append(s.buf, p...)
	for {
		i := bytes.IndexByte(s.buf, '\n')
		if i < 0 {
			break
		}
		line := string(s.buf[:i])
		s.buf = s.buf[i+1:]
		if j := strings.Index(line, termMarker); j >= 0 {
			s.terms = append(s.terms, line[j+len(termMarker):])
		}
		if s.keep {
			s.all = append(s.all, line)
		}
	}
	return len(p), nil
}

func (s *logSink) takeTerms() []string {
	s.mu.Lock()
	defer s.mu.Unlock()
	t := s.terms
	s.terms = nil
	return t
}

var (
	worldSeq atomic.Int64
	// envMu serialises the only two places where mutagen reads the process-global
	// MUTAGEN_DATA_DIRECTORY for a session: NewManager (lists the sessions
	// directory) and Create (computes the session and archive paths, which the
	// controller then keeps). Every world has its own data directory.
	envMu       sync.Mutex
	scratchOnce sync.Once
	scratchRoot string
)

// scratch returns the root under which worlds create their data directories.
func scratch(t *testing.T) string {
	scratchOnce.Do(func() {
		if os.Getenv("VERIF_SCRATCH") != "tmp" {
			if entries, err := os.ReadDir("/dev/shm"); err == nil {
				for _, e := range entries {
					if strings.HasPrefix(e.Name(), "verif-ctrl-") {
						if info, err := e.Info(); err == nil && time.Since(info.ModTime()) > 3*time.Hour {
							os.RemoveAll(filepath.Join("/dev/shm", e.Name()))
						}
					}
				}
			}
			if d, err := os.MkdirTemp("/dev/shm", "verif-ctrl-"); err == nil {
				scratchRoot = d
				return
			}
		}
		d, err := os.MkdirTemp("", "verif-ctrl-")
		if err != nil {
			t.Fatalf("INFRA: no scratch directory: %v", err)
		}
		scratchRoot = d
	})
	return scratchRoot
}

func removeScratch() {
	if scratchRoot != "" {
		os.RemoveAll(scratchRoot)
	}
}

// newWorld must be called inside a bubble. Both disks start as given.
func newWorld(root string, cfg worldConfig, alphaTree, betaTree *E, verbose bool) *world {
	w := &world{
		id:     fmt.Sprintf("w%d", worldSeq.Add(1)),
		cfg:    cfg,
		staged: map[string]int{},
		down:   map[string]bool{},
		broken: map[string]chan struct{}{"alpha": make(chan struct{}), "beta": make(chan struct{})},
		log:    &logSink{keep: verbose},
	}
	ph := map[string]bool{}
	for _, p := range cfg.Phantom {
		ph[p] = true
	}
	w.alpha = &disk{tree: clone(alphaTree), preserves: cfg.AlphaPreserves, phantom: ph}
	w.beta = &disk{tree: clone(betaTree), preserves: cfg.BetaPreserves, phantom: ph}
	w.alpha.tree = w.alpha.stored(w.alpha.tree)
	w.beta.tree = w.beta.stored(w.beta.tree)
	w.dataDir = filepath.Join(root, w.id)
	if err := os.MkdirAll(w.dataDir, 0o700); err != nil {
		w.fail("mkdir: %v", err)
		return w
	}
	worlds.Store(w.id, w)
	syntax := ignore.Syntax_SyntaxMutagen
	if cfg.Docker {
		syntax = ignore.Syntax_SyntaxDocker
	}
	conf := &synchronization.Configuration{
		SynchronizationMode: cfg.Mode,
		WatchMode:           synchronization.WatchMode_WatchModeNoWatch,
		IgnoreSyntax:        syntax,
		PermissionsMode:     core.PermissionsMode_PermissionsModePortable,
	}
	a := &urlpkg.URL{Kind: urlpkg.Kind_Synchronization, Protocol: urlpkg.Protocol_Local, Path: "/ctrlw/" + w.id + "/alpha"}
	b := &urlpkg.URL{Kind: urlpkg.Kind_Synchronization, Protocol: urlpkg.Protocol_Local, Path: "/ctrlw/" + w.id + "/beta"}
	logger := logging.NewLogger(logging.LevelDebug, w.log)
	envMu.Lock()
	os.Setenv("MUTAGEN_DATA_DIRECTORY", w.dataDir)
	mgr, err := synchronization.NewManager(logger)
	if err == nil {
		w.mgr = mgr
		w.sid, err = mgr.Create(context.Background(), a, b, conf,
			&synchronization.Configuration{}, &synchronization.Configuration{}, "s", nil, false, "")
	}
	envMu.Unlock()
	if err != nil {
		w.fail("manager/create: %v", err)
	}
	synctest.Wait()
	return w
}

func (w *world) sel() *selection.Selection {
	return &selection.Selection{Specifications: []string{w.sid}}
}

// close terminates the session and the manager so that the bubble can drain.
func (w *world) close() {
	if w.mgr != nil {
		if w.sid != "" {
			if err := w.mgr.Terminate(context.Background(), w.sel(), ""); err != nil {
				w.fail("terminate: %v", err)
			}
		}
		w.mgr.Shutdown()
	}
	synctest.Wait()
	worlds.Delete(w.id)
	os.RemoveAll(w.dataDir)
}

// archive loads the saved last-synchronized state straight from the data directory.
func (w *world) archive() (*core.Archive, error) {
	var data []byte
	var err error
	for _, p := range []string{
		filepath.Join(w.dataDir, "archives", w.sid),
		filepath.Join(w.dataDir, "synchronization", "archives", w.sid),
	} {
		if data, err = os.ReadFile(p); err == nil {
			break
		}
	}
	if err != nil {
		return nil, err
	}
	a := &core.Archive{}
	if err := proto.Unmarshal(data, a); err != nil {
		return nil, fmt.Errorf("archive does not unmarshal: %w", err)
	}
	return a, nil
}

// cycleObs is everything the harness observes about one synchronization cycle.
type cycleObs struct {
	FlushErr    string
	LoopErrs    []string // reasons the synchronization loop terminated during/after this cycle
	Calls       []transCall
	AlphaBefore *E
	BetaBefore  *E
	AlphaAfter  *E
	BetaAfter   *E
	Archive     *E
	ArchiveErr  string // load / unmarshal failure
	Conflicts   []*core.Conflict
	Status      synchronization.Status
	Scans       int
	Stale       int // requests (so far in this world) whose Old did not describe the disk
	Paused      bool
}

func (o *cycleObs) callFor(side string) *transCall {
	for i := range o.Calls {
		if o.Calls[i].Side == side {
			return &o.Calls[i]
		}
	}
	return nil
}

// cycle drives exactly one synchronization cycle with Manager.Flush (both
// endpoints are in no-watch mode, so nothing else triggers one) and observes it.
func (w *world) cycle(script cycleScript) *cycleObs {
	o := &cycleObs{AlphaBefore: clone(w.alpha.tree), BetaBefore: clone(w.beta.tree)}
	if w.infra != "" {
		return o
	}
	w.mu.Lock()
	w.script = script
	w.calls = nil
	scans0 := w.scans
	w.mu.Unlock()
	w.log.takeTerms()
	if script.Cancel {
		// The flush stays pending while the endpoints sit in Transition; pausing
		// the session cancels the cycle, the endpoints then answer.
		done := make(chan error, 1)
		go func() { done <- w.mgr.Flush(context.Background(), w.sel(), "", false) }()
		synctest.Wait()
		if err := w.mgr.Pause(context.Background(), w.sel(), ""); err != nil {
			w.fail("pause: %v", err)
		}
		synctest.Wait()
		select {
		case err := <-done:
			if err != nil {
				o.FlushErr = err.Error()
			}
		default:
			w.fail("flush still pending after pause")
		}
		o.Paused = true
	} else {
		if err := w.mgr.Flush(context.Background(), w.sel(), "", false); err != nil {
			o.FlushErr = err.Error()
		}
		synctest.Wait()
	}
	_, states, err := w.mgr.List(context.Background(), w.sel(), 0)
	if err != nil || len(states) != 1 {
		w.fail("list: %v (%d states)", err, len(states))
	} else {
		o.Conflicts = states[0].Conflicts
		o.Status = states[0].Status
	}
	o.LoopErrs = w.log.takeTerms()
	w.mu.Lock()
	o.Calls = w.calls
	o.Scans = w.scans - scans0
	o.Stale = w.stale
	w.script = cycleScript{}
	w.mu.Unlock()
	o.AlphaAfter, o.BetaAfter = clone(w.alpha.tree), clone(w.beta.tree)
	if a, err := w.archive(); err != nil {
		o.ArchiveErr = err.Error()
	} else {
		o.Archive = a.Content
		if err := a.EnsureValid(true); err != nil {
			// "a cycle never leaves the session with an unusable archive": this is
			// the very test the controller applies when it loads the archive.
			o.ArchiveErr = "archive is not valid: " + err.Error()
		}
	}
	if len(o.LoopErrs) > 0 && !o.Paused && !isHaltStatus(o.Status) {
		// The loop failed and reconnects; a second failure within 15 s makes the
		// controller wait before reconnecting. Let (virtual) time pass so that the
		// next flush finds a synchronizing session.
		time.Sleep(20 * time.Second)
		synctest.Wait()
		o.LoopErrs = append(o.LoopErrs, w.log.takeTerms()...)
	}
	return o
}

func isHaltStatus(s synchronization.Status) bool {
	return s == synchronization.Status_HaltedOnRootEmptied ||
		s == synchronization.Status_HaltedOnRootDeletion ||
		s == synchronization.Status_HaltedOnRootTypeChange
}

// inBubble runs fn inside a fresh synctest bubble on t. A panic inside the
// bubble (including synctest's deadlock report) fails the test as an
// infrastructure problem, never as a violation.
func inBubble(t *testing.T, fn func()) {
	synctest.Test(t, func(*testing.T) { fn() })
}

func tuneGC() { debug.SetGCPercent(400) }
