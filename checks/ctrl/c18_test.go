//go:build verif

package ctrl

import (
	"context"
	"crypto/sha1"
	"encoding/json"
	"fmt"
	"os"
	"path/filepath"
	"sort"
	"strings"
	"testing"
	"time"

	"github.com/mutagen-io/mutagen/pkg/filesystem/behavior"
	"github.com/mutagen-io/mutagen/pkg/synchronization/core"
	"github.com/mutagen-io/mutagen/pkg/synchronization/core/ignore"
	dockerignore "github.com/mutagen-io/mutagen/pkg/synchronization/core/ignore/docker"
	mutagenignore "github.com/mutagen-io/mutagen/pkg/synchronization/core/ignore/mutagen"

	"verif/internal/vr"
)

// ---------------------------------------------------------------------------
// C18, controller leg: "When only one endpoint preserves executable bits, a
// file's executable bit on that endpoint is never changed by synchronization
// while the file exists on both sides. This holds even when the file's content
// is edited on the other endpoint; the non-preserving side only ever takes its
// notion of executability from matching content on the preserving side or in
// the last-synchronized state."
//
// checks/recon decides this for PropagateExecutability + Reconcile called in
// the right order on reified trees. Here the REAL controller does the calling:
// portable permissions, exactly one scripted endpoint with
// PreservesExecutability=true, both ignore syntaxes - with Docker-style ignores
// the scripted snapshots contain phantom directories exactly as core.Scan
// reports them (checked against the real core.Scan at the start of the run).
// ---------------------------------------------------------------------------

// c18shape is where the file slot lives and how a scan reports its parents.
type c18shape struct {
	Name     string
	Docker   bool
	Patterns []string
	Slot     string   // path of the file slot
	Skeleton string   // disk content besides the slot (show form; U = ignored file)
	Phantom  []string // directories a scan reports as phantom
}

var c18shapes = []c18shape{
	{Name: "mutagen/top", Patterns: []string{"junk*"}, Slot: "run.sh", Skeleton: "D{junk:U}"},
	{Name: "mutagen/tracked-dir", Patterns: []string{"junk*"}, Slot: "bin/run.sh", Skeleton: "D{bin:D{junk2:U}}"},
	{Name: "mutagen/nested-dirs", Patterns: []string{"junk*"}, Slot: "tools/bin/run.sh", Skeleton: "D{tools:D{bin:D{junk2:U},junk:U}}"},
	{Name: "docker/top", Docker: true, Patterns: []string{"junk*"}, Slot: "run.sh", Skeleton: "D{junk:U}"},
	{Name: "docker/tracked-dir", Docker: true, Patterns: []string{"**/junk*"}, Slot: "bin/run.sh", Skeleton: "D{bin:D{junk2:U}}"},
	// tools/ is tracked, tools/bin/ is ignored but traversed (phantom) because of the negated pattern.
	{Name: "docker/phantom-parent", Docker: true, Patterns: []string{"tools/*", "!tools/bin/run.sh"}, Slot: "tools/bin/run.sh",
		Skeleton: "D{tools:D{bin:D{junk2:U},junk:U}}", Phantom: []string{"tools/bin"}},
	// tools/ itself is ignored: a chain of two phantom directories above the file.
	{Name: "docker/phantom-chain", Docker: true, Patterns: []string{"tools", "!tools/bin/run.sh"}, Slot: "tools/bin/run.sh",
		Skeleton: "D{tools:D{bin:D{junk2:U},junk:U}}", Phantom: []string{"tools", "tools/bin"}},
}

func shapeByName(n string) *c18shape {
	for i := range c18shapes {
		if c18shapes[i].Name == n {
			return &c18shapes[i]
		}
	}
	return nil
}

func (s *c18shape) diskWith(slot *E) *E {
	return setAt(parse(s.Skeleton), s.Slot, slot)
}

// writeSlot is the user writing (or deleting) the file on a disk: like
// "mkdir -p" + write, it creates missing parent directories.
func writeSlot(tree *E, path string, v *E) *E {
	if v != nil {
		comps := strings.Split(path, "/")
		for i := 1; i < len(comps); i++ {
			p := strings.Join(comps[:i], "/")
			if at(tree, p) == nil {
				tree = setAt(tree, p, dir())
			}
		}
	} else if at(tree, path) == nil {
		return tree
	}
	return setAt(tree, path, v)
}

// authenticate materialises the shape on a real directory for every slot value
// (with the ignored siblings, and - the bare variant - with only the parent
// directories of the file), scans it with the REAL core.Scan and the real
// ignorer, and demands that the harness's scripted snapshot
// (disk.snapshotContent) is the same tree.
func (s *c18shape) authenticate(t *testing.T) error {
	type variant struct {
		bare bool
		slot *E
	}
	var variants []variant
	for _, slot := range []*E{nil, file(1, false), file(1, true), file(2, false), file(2, true)} {
		variants = append(variants, variant{false, slot})
		if slot != nil {
			variants = append(variants, variant{true, slot})
		}
	}
	for _, v := range variants {
		slot := v.slot
		root := t.TempDir()
		var mk func(e *E, p string) error
		mk = func(e *E, p string) error {
			switch {
			case e.Kind == core.EntryKind_Directory:
				if err := os.MkdirAll(p, 0o755); err != nil {
					return err
				}
				for n, c := range e.Contents {
					if err := mk(c, filepath.Join(p, n)); err != nil {
						return err
					}
				}
			case e.Kind == core.EntryKind_Untracked:
				return os.WriteFile(p, []byte("ignored"), 0o644)
			case e.Kind == core.EntryKind_File:
				mode := os.FileMode(0o644)
				if e.Executable {
					mode = 0o755
				}
				if err := os.WriteFile(p, []byte{'0' + e.Digest[0]}, mode); err != nil {
					return err
				}
				return os.Chmod(p, mode)
			}
			return nil
		}
		tree := s.diskWith(slot)
		if v.bare {
			tree = writeSlot(dir(), s.Slot, slot)
		}
		if err := mk(tree, root); err != nil {
			return err
		}
		var ig ignore.Ignorer
		var err error
		if s.Docker {
			ig, err = dockerignore.NewIgnorer(s.Patterns)
		} else {
			ig, err = mutagenignore.NewIgnorer(s.Patterns)
		}
		if err != nil {
			return err
		}
		snap, _, _, err := core.Scan(context.Background(), root, nil, nil, sha1.New(), nil, ig, nil,
			behavior.ProbeMode_ProbeModeProbe, core.SymbolicLinkMode_SymbolicLinkModePortable, core.PermissionsMode_PermissionsModePortable)
		if err != nil {
			return err
		}
		if !snap.PreservesExecutability {
			return fmt.Errorf("scratch filesystem does not preserve executability")
		}
		real := clone(snap.Content)
		d1, d2 := sha1.Sum([]byte{'1'}), sha1.Sum([]byte{'2'})
		walk(real, "", func(_ string, n *E) {
			if n.Kind == core.EntryKind_File {
				switch string(n.Digest) {
				case string(d1[:]):
					n.Digest = []byte{1}
				case string(d2[:]):
					n.Digest = []byte{2}
				}
			}
		})
		ph := map[string]bool{}
		for _, p := range s.Phantom {
			ph[p] = true
		}
		model := (&disk{tree: tree, preserves: true, phantom: ph}).snapshotContent()
		if !deepEq(real, model) {
			return fmt.Errorf("shape %s slot %s: real core.Scan reports %s, the scripted snapshot is %s", s.Name, show(slot), show(real), show(model))
		}
	}
	return nil
}

type c18config struct {
	Mode              string `json:"mode"`
	PreservingIsAlpha bool   `json:"preserving_is_alpha"`
	Shape             string `json:"shape"`
	// OtherBare: the non-preserving disk starts as an empty root (no parent
	// directories, no ignored siblings); the preserving disk has the skeleton.
	OtherBare bool `json:"other_bare,omitempty"`
}

type c18event struct {
	Kind string `json:"kind"` // write-P write-N chmod+x-P chmod-x-P delete-P delete-N cycle
	Arg  byte   `json:"arg,omitempty"`
}

func (e c18event) String() string {
	if e.Arg != 0 {
		return fmt.Sprintf("%s(%d)", e.Kind, e.Arg)
	}
	return e.Kind
}

type c18case struct {
	c18config
	History []c18event `json:"history"`
}

func (c c18case) key() string {
	var parts []string
	for _, e := range c.History {
		parts = append(parts, e.String())
	}
	role := "preserving=beta"
	if c.PreservingIsAlpha {
		role = "preserving=alpha"
	}
	if c.OtherBare {
		role += ":other-disk-starts-empty"
	}
	return fmt.Sprintf("c18ctrl:%s:%s:%s:%s", c.Shape, c.Mode, role, strings.Join(parts, ","))
}

// userEvents lists the user events enabled on the slot values (p on the
// preserving disk, n on the other) with the values they lead to.
func c18userEvents(p, n *E) []struct {
	ev   c18event
	p, n *E
} {
	var out []struct {
		ev   c18event
		p, n *E
	}
	add := func(k string, arg byte, p2, n2 *E) {
		if !deepEq(p, p2) || !deepEq(n, n2) {
			out = append(out, struct {
				ev   c18event
				p, n *E
			}{c18event{k, arg}, p2, n2})
		}
	}
	for _, d := range []byte{1, 2} {
		// A content edit keeps the mode bits of an existing file; a created file is not executable.
		add("write-P", d, file(d, p != nil && p.Executable), n)
		// The non-preserving disk reports executable=false for every file.
		add("write-N", d, p, file(d, false))
	}
	if p != nil {
		add("chmod+x-P", 0, file(p.Digest[0], true), n)
		add("chmod-x-P", 0, file(p.Digest[0], false), n)
		add("delete-P", 0, nil, n)
	}
	if n != nil {
		add("delete-N", 0, p, nil)
	}
	return out
}

type c18result struct {
	verdict  string
	infra    string
	archive  string // after the history
	p, n     string // whole disks (preserving, other) after the history
	stale    int
	changed  bool // the last cycle changed a disk or the archive
	requests int  // transitions requested in the last cycle
	cycles   int
}

// judgeC18Cycle: a = the slot in the archive before the cycle, p/n = the slot on
// the preserving / other disk before, p2/n2 after; pcall = what the preserving
// endpoint was asked to do.
func judgeC18Cycle(slotPath string, a, p, n, p2, n2 *E, pcall *transCall) string {
	isFile := func(e *E) bool { return e != nil && e.Kind == core.EntryKind_File }
	if !(isFile(p) && isFile(n)) {
		return ""
	}
	// The statement exempts nothing, but a cycle that legitimately REPLACES the
	// preserving side's file by the other side's unrelated content is not "changing
	// the bit of a file": judge when the preserving side's content is unedited
	// since the last synchronization, or both sides hold the same content.
	pUnedited := isFile(a) && a.Digest[0] == p.Digest[0]
	sameContent := p.Digest[0] == n.Digest[0]
	if !(pUnedited || sameContent) {
		return ""
	}
	// "the scripted preserving endpoint must never be ASKED to change the bit"
	if pcall != nil {
		for _, ch := range pcall.Changes {
			if !(ch.Path == slotPath || ch.Path == "" || strings.HasPrefix(slotPath, ch.Path+"/")) {
				continue
			}
			rel := strings.TrimPrefix(strings.TrimPrefix(slotPath, ch.Path), "/")
			o, nw := at(ch.Old, rel), at(ch.New, rel)
			if isFile(o) && isFile(nw) && o.Executable != nw.Executable {
				return fmt.Sprintf("the preserving endpoint was asked to change %q from %s to %s (last-synchronized %s, preserving side %s, other side %s)", slotPath, show(o), show(nw), show(a), show(p), show(n))
			}
		}
	}
	// "a file's executable bit on that endpoint is never changed by
	// synchronization while the file exists on both sides"
	if isFile(p2) && isFile(n2) && p2.Executable != p.Executable {
		return fmt.Sprintf("the cycle changed the preserving endpoint's file %q from %s to %s (last-synchronized %s, other side %s)", slotPath, show(p), show(p2), show(a), show(n))
	}
	return ""
}

func runC18(t *testing.T, root string, c c18case, logf func(string, ...any)) (res c18result) {
	shape := shapeByName(c.Shape)
	if shape == nil {
		res.infra = "unknown shape " + c.Shape
		return
	}
	inBubble(t, func() {
		cfg := worldConfig{Mode: modeByName(c.Mode), Docker: shape.Docker, AlphaPreserves: c.PreservingIsAlpha, BetaPreserves: !c.PreservingIsAlpha, Phantom: shape.Phantom}
		w := newWorld(root, cfg, shape.diskWith(nil), shape.diskWith(nil), logf != nil)
		pd, nd, pside := w.beta, w.alpha, "beta"
		if c.PreservingIsAlpha {
			pd, nd, pside = w.alpha, w.beta, "alpha"
		}
		if c.OtherBare {
			nd.tree = dir()
		}
		var archive *E
		for i, ev := range c.History {
			p, n := at(pd.tree, shape.Slot), at(nd.tree, shape.Slot)
			if ev.Kind != "cycle" {
				found := false
				for _, u := range c18userEvents(p, n) {
					if u.ev == ev {
						pd.tree = writeSlot(pd.tree, shape.Slot, u.p)
						nd.tree = writeSlot(nd.tree, shape.Slot, u.n)
						found = true
						break
					}
				}
				if !found {
					w.fail("event %d (%s) is not enabled with preserving=%s other=%s", i, ev, show(p), show(n))
				}
				if logf != nil {
					logf("  %s: preserving disk %s, other disk %s", ev, show(pd.tree), show(nd.tree))
				}
				continue
			}
			o := w.cycle(cycleScript{})
			res.cycles++
			if w.infra != "" {
				break
			}
			if o.FlushErr != "" {
				w.fail("cycle did not complete: %s %v (status %v)", o.FlushErr, o.LoopErrs, o.Status)
				break
			}
			p2, n2 := at(pd.tree, shape.Slot), at(nd.tree, shape.Slot)
			if logf != nil {
				logf("  cycle: scans alpha=%s beta=%s", show(w.alpha.snapshotContent()), show(w.beta.snapshotContent()))
				for _, call := range o.Calls {
					for _, ch := range call.Changes {
						logf("    %s asked %q: %s -> %s", call.Side, ch.Path, show(ch.Old), show(ch.New))
					}
				}
				logf("    after: preserving disk %s, other disk %s, archive %s, conflicts %d", show(pd.tree), show(nd.tree), show(o.Archive), len(o.Conflicts))
			}
			if what := judgeC18Cycle(shape.Slot, at(archive, shape.Slot), p, n, p2, n2, o.callFor(pside)); what != "" {
				res.verdict = fmt.Sprintf("event %d: %s", i+1, what)
				break
			}
			res.requests = 0
			for _, call := range o.Calls {
				res.requests += len(call.Changes)
			}
			res.changed = !deepEq(archive, o.Archive) || !deepEq(o.AlphaBefore, o.AlphaAfter) || !deepEq(o.BetaBefore, o.BetaAfter)
			archive = o.Archive
		}
		w.close()
		res.stale = w.stale
		if w.infra != "" {
			res.infra = w.infra
			return
		}
		res.archive = show(archive)
		res.p, res.n = show(pd.tree), show(nd.tree)
	})
	return res
}

// c18configs lists the configurations of a tier; thorough adds, for the shapes
// whose file lives below directories, the variant in which the non-preserving
// disk starts as an empty root.
func c18configs(thorough bool) []c18config {
	var out []c18config
	for _, s := range c18shapes {
		for _, m := range allModes {
			for _, pa := range []bool{true, false} {
				out = append(out, c18config{Mode: modeName(m), PreservingIsAlpha: pa, Shape: s.Name})
				if thorough && strings.Contains(s.Slot, "/") {
					out = append(out, c18config{Mode: modeName(m), PreservingIsAlpha: pa, Shape: s.Name, OtherBare: true})
				}
			}
		}
	}
	return out
}

// c18worker runs the explicit-state search to closure for its share of the
// configurations. State = (archive, preserving disk, other disk); user events
// change the file slot on a disk (harness only), the cycle event replays the
// whole history through the real controller.
func c18worker(t *testing.T, job *wJob, out *wOutput) {
	root := scratch(t)
	configs := c18configs(job.Thorough)
	for ci := job.Shard; ci < len(configs); ci += job.Shards {
		cfg := configs[ci]
		shape := shapeByName(cfg.Shape)
		type node struct {
			archive string
			p, n    *E // whole disks
			path    []c18event
		}
		key := func(a string, p, n *E) string { return a + "|" + show(p) + "|" + show(n) }
		p0, n0 := shape.diskWith(nil), shape.diskWith(nil)
		if cfg.OtherBare {
			n0 = dir()
		}
		seen := map[string]bool{key("nil", p0, n0): true}
		frontier := []node{{"nil", p0, n0, nil}}
		for len(frontier) > 0 {
			var next []node
			for _, nd := range frontier {
				if job.expired() {
					out.Extra["capped_states"]++
					continue
				}
				push := func(a string, p, n *E, ev c18event) {
					out.Extra["transitions"]++
					if k := key(a, p, n); !seen[k] {
						seen[k] = true
						next = append(next, node{a, p, n, append(append([]c18event{}, nd.path...), ev)})
					}
				}
				for _, u := range c18userEvents(at(nd.p, shape.Slot), at(nd.n, shape.Slot)) {
					out.addCase("", false, "")
					push(nd.archive, writeSlot(nd.p, shape.Slot, u.p), writeSlot(nd.n, shape.Slot, u.n), u.ev)
				}
				c := c18case{cfg, append(append([]c18event{}, nd.path...), c18event{Kind: "cycle"})}
				res := runC18(t, root, c, nil)
				out.Extra["traces"]++
				out.Extra["cycles_on_real_code"] += int64(res.cycles)
				out.Extra["requests_not_matching_disk"] += int64(res.stale)
				if res.infra != "" {
					out.fail("%s: %s", c.key(), res.infra)
					return
				}
				stateKey := fmt.Sprintf("%s:%s:%v:%v:%s", cfg.Shape, cfg.Mode, cfg.PreservingIsAlpha, cfg.OtherBare, key(nd.archive, nd.p, nd.n))
				if res.verdict != "" {
					out.addCase(stateKey, true, "violation")
					out.violate(c.key(), res.verdict, c)
					continue
				}
				class := "cycle-fixpoint"
				if res.changed {
					class = "cycle-changes-state"
					if res.requests > 0 {
						class = "cycle-with-transitions"
					}
				}
				out.addCase(stateKey, res.changed, class)
				if len(nd.path) >= 3 && res.requests > 0 {
					out.sample(c, 1)
				}
				push(res.archive, parse(res.p), parse(res.n), c18event{Kind: "cycle"})
			}
			frontier = next
		}
		out.Extra["states"] += int64(len(seen))
	}
}

func init() { workerFuncs["c18"] = c18worker }

func TestC18Controller(t *testing.T) {
	r := vr.New(t, "C18", "model_checking")
	defer r.Finish()
	root := scratch(t)
	defer removeScratch()
	tuneGC()
	if raw := vr.ReplayCase(); raw != nil {
		var c c18case
		if err := json.Unmarshal(raw, &c); err != nil {
			t.Fatalf("INFRA: bad replay case: %v", err)
		}
		res := runC18(t, root, c, t.Logf)
		t.Logf("replay %s: verdict %q infra %q final archive %s preserving %s other %s", c.key(), res.verdict, res.infra, res.archive, res.p, res.n)
		r.Case(c.key(), true)
		r.Set("states", 1)
		r.Set("transitions", len(c.History))
		r.Set("traces_validated_against_impl", 1)
		if res.infra != "" {
			t.Fatalf("INFRA: %s", res.infra)
		}
		if res.verdict != "" {
			r.Violate(c.key(), res.verdict, c, nil)
		}
		return
	}
	// The scripted snapshots must be what the real scanner produces for the same
	// tree and ignore patterns (phantom directories included).
	for i := range c18shapes {
		if err := c18shapes[i].authenticate(t); err != nil {
			t.Fatalf("INFRA: scripted snapshots are not authentic: %v", err)
		}
	}
	var names []string
	for _, s := range c18shapes {
		names = append(names, fmt.Sprintf("%s (slot %s, ignores %v, phantom %v)", s.Name, s.Slot, s.Patterns, s.Phantom))
	}
	sort.Strings(names)
	r.Rule("explicit-state search to closure, per configuration {" + strings.Join(names, "; ") + "} x 4 synchronization modes x {preserving endpoint is alpha, is beta}, portable permissions, through the REAL Manager/controller with scripted in-memory endpoints whose snapshots equal what the real core.Scan reports for the same tree and ignores (verified at start): state = (saved archive, file slot on the preserving disk in {nil, F1, F1x, F2, F2x}, slot on the other disk in {nil, F1, F2}); events: write digest d on either disk, chmod +x/-x and delete on the preserving disk, delete on the other, one real cycle (Manager.Flush); every cycle transition replays its whole history through the real controller; a case = one (state, event); non-trivial = a cycle that changed a disk or the archive")
	r.Assume("one file slot, two digests; a non-preserving filesystem reports executable=false for every file and drops the bit of files written to it",
		"transitions are applied exactly and reported faithfully (outcome mixes are C05's leg); ignored siblings are constant")
	deadline := scaledDeadline(50*time.Second, 8*time.Minute)
	outs := runWorkers(t, "c18", vr.Workers(), deadline, nil)
	extra := mergeWorkers(r, outs, func(v wViolation) bool {
		var c c18case
		json.Unmarshal(v.Case, &c)
		again := runC18(t, root, c, nil)
		return again.infra == "" && again.verdict != ""
	})
	r.Set("states", extra["states"])
	r.Set("transitions", extra["transitions"])
	r.Set("traces_validated_against_impl", extra["traces"])
	r.Set("cycles_on_real_code", extra["cycles_on_real_code"])
	r.Set("configurations", len(c18configs(vr.Thorough())))
	r.Set("requests_not_matching_disk", extra["requests_not_matching_disk"])
	r.Set("explanation_traces", "every cycle transition of the search replays its whole event history through the real Manager/controller; user-event transitions are harness-only")
	if n := extra["capped_states"]; n > 0 {
		r.NotExhaustive(fmt.Sprintf("wall budget reached: %d states were not expanded", n))
	}
	r.Sample(c18case{c18config{Mode: "two-way-safe", Shape: "docker/phantom-chain"}, []c18event{{"write-P", 1}, {"chmod+x-P", 0}, {Kind: "cycle"}, {Kind: "cycle"}}})
}
