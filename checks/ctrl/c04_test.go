//go:build verif

package ctrl

import (
	"encoding/json"
	"fmt"
	"strings"
	"testing"
	"time"

	"github.com/mutagen-io/mutagen/pkg/synchronization/core"

	"verif/internal/vr"
)

// ---------------------------------------------------------------------------
// C04, controller leg: "If every change planned by a cycle is applied exactly,
// the next cycle over the resulting trees plans no further changes to either
// endpoint or to the recorded last-synchronized state. In two-way modes, after
// such a cycle both endpoints hold identical synchronizable content everywhere
// except under reported conflicts ..."
//
// checks/recon decides this for Reconcile + an ideal Apply. Whether the
// CONTROLLER applies and saves everything the plan says (including the plan's
// own changes to the last-synchronized state on cycles without any transition)
// is decided here: real Manager/controller, scripted endpoints that apply
// every requested change exactly, two cycles, the archive read from disk.
// ---------------------------------------------------------------------------

type c04case struct {
	Ancestor string `json:"ancestor"` // reached by a first real cycle over two identical disks ("nil": session starts here)
	Alpha    string `json:"alpha"`
	Beta     string `json:"beta"`
	Mode     string `json:"mode"`
}

func (c c04case) key() string {
	return fmt.Sprintf("c04ctrl:%s:A=%s:a=%s:b=%s", c.Mode, c.Ancestor, c.Alpha, c.Beta)
}

type c04result struct {
	verdict string
	infra   string
	class   string
	cycles  int
}

// archiveMatchesAgreement walks the two disks top-down as long as they agree
// and demands that the archive records exactly the agreed node at every such
// path (agreed content recorded, agreed-absent removed). Below a path where the
// disks differ nothing is demanded.
func archiveMatchesAgreement(archive, x, y *E) string {
	var rec func(p string, a, u, v *E) string
	rec = func(p string, a, u, v *E) string {
		if !shallowEq(u, v) {
			return ""
		}
		if !shallowEq(a, u) {
			return fmt.Sprintf("both endpoints hold %s at %q but the saved archive records %s there", show(shallowOf(u)), p, show(shallowOf(a)))
		}
		if u == nil {
			return ""
		}
		names := map[string]bool{}
		for n := range a.GetContents() {
			names[n] = true
		}
		for n := range u.Contents {
			names[n] = true
		}
		for n := range v.Contents {
			names[n] = true
		}
		for _, n := range sortedKeys(names) {
			if w := rec(join(p, n), a.GetContents()[n], u.Contents[n], v.Contents[n]); w != "" {
				return w
			}
		}
		return ""
	}
	return rec("", archive, x, y)
}

func sortedKeys(m map[string]bool) []string {
	t := &E{Kind: core.EntryKind_Directory, Contents: map[string]*E{}}
	for k := range m {
		t.Contents[k] = nil
	}
	return sortedNames(t)
}

func runC04(t *testing.T, root string, c c04case, logf func(string, ...any)) (res c04result) {
	inBubble(t, func() {
		anc, x, y := parse(c.Ancestor), parse(c.Alpha), parse(c.Beta)
		m := modeByName(c.Mode)
		cfg := worldConfig{Mode: m, AlphaPreserves: true, BetaPreserves: true}
		twoWay := m == core.SynchronizationMode_SynchronizationModeTwoWaySafe || m == core.SynchronizationMode_SynchronizationModeTwoWayResolved
		var w *world
		judge := func(name string, o1 *cycleObs) bool {
			// o1: a cycle whose requested changes were all applied exactly.
			if logf != nil {
				logf("  %s: alpha %s -> %s, beta %s -> %s, archive %s, conflicts %d, status %v, flushErr %q", name, show(o1.AlphaBefore), show(o1.AlphaAfter), show(o1.BetaBefore), show(o1.BetaAfter), show(o1.Archive), len(o1.Conflicts), o1.Status, o1.FlushErr)
				for _, call := range o1.Calls {
					for _, ch := range call.Changes {
						logf("    %s asked %q: %s -> %s", call.Side, ch.Path, show(ch.Old), show(ch.New))
					}
				}
			}
			if isHaltStatus(o1.Status) {
				res.class = "halted-for-safety"
				return false
			}
			if o1.FlushErr != "" || len(o1.LoopErrs) > 0 {
				// Every request was applied exactly and still the cycle failed: whatever
				// it planned for the recorded state is not recorded, so the next cycle
				// has to plan it again.
				res.verdict = fmt.Sprintf("%s: all requested changes were applied exactly but the cycle failed (%s %v); its changes to the last-synchronized state are not recorded", name, o1.FlushErr, o1.LoopErrs)
				return false
			}
			if o1.ArchiveErr != "" {
				res.verdict = name + ": saved archive unusable: " + o1.ArchiveErr
				return false
			}
			// The recorded last-synchronized state must already be what the next
			// cycle would make of it: wherever the endpoints agree, exactly that.
			if what := archiveMatchesAgreement(o1.Archive, o1.AlphaAfter, o1.BetaAfter); what != "" {
				res.verdict = fmt.Sprintf("%s (all changes applied exactly): %s - the next cycle has to change the recorded last-synchronized state", name, what)
				return false
			}
			// "In two-way modes, after such a cycle both endpoints hold identical
			// synchronizable content everywhere except under reported conflicts"
			if twoWay {
				for _, d := range disagreementPoints(o1.AlphaAfter, o1.BetaAfter) {
					covered := false
					for _, cf := range o1.Conflicts {
						if d == cf.Root || cf.Root == "" || strings.HasPrefix(d, cf.Root+"/") {
							covered = true
						}
					}
					if !covered {
						res.verdict = fmt.Sprintf("%s: after a fully applied cycle the endpoints differ at %q (alpha %s, beta %s) and no listed conflict covers it", name, d, show(at(o1.AlphaAfter, d)), show(at(o1.BetaAfter, d)))
						return false
					}
				}
			}
			// "the next cycle over the resulting trees plans no further changes to
			// either endpoint or to the recorded last-synchronized state"
			o2 := w.cycle(cycleScript{})
			res.cycles++
			if logf != nil {
				logf("  %s, following cycle: requests %d, archive %s, status %v, flushErr %q", name, len(o2.Calls), show(o2.Archive), o2.Status, o2.FlushErr)
			}
			if w.infra != "" {
				return false
			}
			if o2.FlushErr != "" || len(o2.LoopErrs) > 0 || isHaltStatus(o2.Status) {
				res.verdict = fmt.Sprintf("%s: the following cycle (no edits) did not complete: %s %v status %v", name, o2.FlushErr, o2.LoopErrs, o2.Status)
				return false
			}
			for _, call := range o2.Calls {
				for _, ch := range call.Changes {
					res.verdict = fmt.Sprintf("%s: the following cycle (no edits) asks %s to change %q (%s -> %s)", name, call.Side, ch.Path, show(ch.Old), show(ch.New))
					return false
				}
			}
			if o2.ArchiveErr != "" || !deepEq(o2.Archive, o1.Archive) {
				res.verdict = fmt.Sprintf("%s: the following cycle (no edits) changed the saved archive from %s to %s %s", name, show(o1.Archive), show(o2.Archive), o2.ArchiveErr)
				return false
			}
			if !deepEq(o2.AlphaAfter, o1.AlphaAfter) || !deepEq(o2.BetaAfter, o1.BetaAfter) {
				res.verdict = name + ": the following cycle (no edits) changed a disk"
				return false
			}
			return true
		}
		ok := true
		if anc != nil {
			// A session created over two already identical replicas.
			w = newWorld(root, cfg, anc, anc, logf != nil)
			o := w.cycle(cycleScript{})
			res.cycles++
			ok = w.infra == "" && judge("first cycle over identical endpoints "+c.Ancestor, o)
			w.alpha.tree, w.beta.tree = clone(x), clone(y)
		} else {
			w = newWorld(root, cfg, x, y, logf != nil)
		}
		if ok && w.infra == "" {
			o1 := w.cycle(cycleScript{})
			res.cycles++
			if w.infra == "" && judge("cycle", o1) {
				n := 0
				for _, call := range o1.Calls {
					n += len(call.Changes)
				}
				switch {
				case n > 0 && len(o1.Conflicts) > 0:
					res.class = "transitions+conflicts"
				case n > 0:
					res.class = "transitions"
				case len(o1.Conflicts) > 0:
					res.class = "conflicts-only"
				case !deepEq(o1.Archive, anc):
					res.class = "archive-change-only"
				default:
					res.class = "idle"
				}
			}
		}
		if logf != nil && res.verdict != "" {
			for _, l := range w.log.all {
				logf("    log %s", l)
			}
		}
		w.close()
		if w.infra != "" {
			res.infra = w.infra
		}
	})
	return res
}

func c04worker(t *testing.T, job *wJob, out *wOutput) {
	root := scratch(t)
	triples, _ := c05triples(job.Thorough)
	for i := job.Shard; i < len(triples); i += job.Shards {
		if job.expired() {
			out.Extra["capped_triples"]++
			continue
		}
		tr := triples[i]
		for _, m := range allModes {
			c := c04case{Ancestor: show(tr.a), Alpha: show(tr.x), Beta: show(tr.y), Mode: modeName(m)}
			res := runC04(t, root, c, nil)
			out.Extra["cycles_on_real_code"] += int64(res.cycles)
			if res.infra != "" {
				out.fail("%s: %s", c.key(), res.infra)
				return
			}
			if res.verdict != "" {
				out.addCase(c.key(), true, "violation")
				out.violate(c.key(), res.verdict, c)
				continue
			}
			out.addCase(c.key(), res.class != "idle" && res.class != "halted-for-safety", res.class)
			if res.class == "archive-change-only" {
				out.sample(c, 1)
			}
		}
	}
}

func init() { workerFuncs["c04"] = c04worker }

func TestC04Controller(t *testing.T) {
	r := vr.New(t, "C04", "exploration")
	defer r.Finish()
	root := scratch(t)
	defer removeScratch()
	tuneGC()
	if raw := vr.ReplayCase(); raw != nil {
		var c c04case
		if err := json.Unmarshal(raw, &c); err != nil {
			t.Fatalf("INFRA: bad replay case: %v", err)
		}
		res := runC04(t, root, c, t.Logf)
		t.Logf("replay %s: verdict %q infra %q class %s", c.key(), res.verdict, res.infra, res.class)
		r.Case(c.key(), true)
		if res.infra != "" {
			t.Fatalf("INFRA: %s", res.infra)
		}
		if res.verdict != "" {
			r.Violate(c.key(), res.verdict, c, nil)
		}
		return
	}
	triples, bValues := c05triples(vr.Thorough())
	r.Rule(fmt.Sprintf("every (set-up tree, alpha tree, beta tree) of the C05 controller universes (root nil | D{a,b}, slot a in {nil,F1,F2,D{x:F1},D{}}, slot b in %d values; thorough also three flat slots) x 4 modes through the REAL Manager/controller with scripted endpoints that apply every requested change exactly: the session is created over two identical disks = set-up tree (first cycle: only the plan's own changes to the last-synchronized state), then the disks are set to (alpha, beta) - this includes both sides deleting / creating / modifying identically - and one cycle runs; after EACH of these cycles: the saved archive records exactly the agreed node wherever the two disks agree (top-down), two-way modes: disks differ only under listed conflicts, and a following cycle without edits requests no transition, leaves the archive deep-equal and the disks unchanged; each (triple, mode) once; non-trivial = the judged cycle requested transitions, listed conflicts or changed the archive", bValues))
	r.Assume("transitions applied exactly and reported faithfully (outcome mixes: C05 leg); cycles halted by the root safety checks are counted as trivial (C11)",
		"only synchronizable content (untracked / problematic content: checks/recon)")
	deadline := scaledDeadline(45*time.Second, 8*time.Minute)
	outs := runWorkers(t, "c04", vr.Workers(), deadline, nil)
	extra := mergeWorkers(r, outs, func(v wViolation) bool {
		var c c04case
		json.Unmarshal(v.Case, &c)
		again := runC04(t, root, c, nil)
		return again.infra == "" && again.verdict != ""
	})
	r.Set("triples", len(triples))
	r.Set("cycles_on_real_code", extra["cycles_on_real_code"])
	if n := extra["capped_triples"]; n > 0 {
		r.NotExhaustive(fmt.Sprintf("wall budget reached: %d of %d triples (the last in each worker's enumeration order) were not run", n, len(triples)))
	}
	r.Sample(c04case{Ancestor: "D{a:F1,b:F2}", Alpha: "D{b:F2}", Beta: "D{b:F2}", Mode: "two-way-safe"})
}
